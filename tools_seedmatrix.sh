#!/bin/bash
# runs every stored seeded change against the check of its own property (plus the cross checks listed below),
# writes seeded/MATRIX.txt; leaves /repo clean. Evidence files are overwritten: run tools_runall.sh afterwards.
cd /verif
out=seeded/MATRIX.txt
: > $out
declare -A EXTRA=( [C02-1]="C03" [C13-1]="C03" [C11-2]="C09" [C04-1]="C01" [C01-2]="C04" )
for d in seeded/C*-*; do
  id=$(basename $d); prop=${id%-*}
  for p in $prop ${EXTRA[$id]:-}; do
    res=$(./tools_seed.sh run $id $p quick 2>&1)
    ex=$(echo "$res" | grep -o "exit [0-9]" | tail -1)
    first=$(echo "$res" | grep VIOLATION | head -1 | sed 's/.*obligation=//' | cut -c1-150)
    n=$(echo "$res" | grep -c VIOLATION)
    echo "$id check=$p -> $ex violations=$n first=[$first]" | tee -a $out
  done
done
git -C /repo status --short | grep -v '^??' && echo "REPO NOT CLEAN"
