#!/bin/bash
# Applies every stored seeded change to /repo (git apply), runs the check of its own property (plus the cross checks listed below),
# undoes it (git checkout), and writes seeded/MATRIX.txt. Then every replay file produced under a seed is re-run on the CLEAN tree:
# a replay that still "confirms" there confirms for the wrong reason (REPLAY-CONFIRMS-ON-CLEAN-TREE lines).
# Evidence files are overwritten: run tools_runall.sh afterwards.   usage: tools_seedmatrix.sh [id-glob]
cd /verif
glob=${1:-C*-*}
out=${OUT:-seeded/MATRIX.txt}
[ "$glob" = "C*-*" ] && : > $out
keep=$(mktemp -d /tmp/seedreplays.XXXXXX)
declare -A EXTRA=( [C02-1]="C03" [C13-1]="C03" [C11-2]="C09" [C04-1]="C01" [C01-2]="C04" [C01-4]="C04" [C15-3]="C05" [C06-3]="C08" [C08-5]="C04" )
for d in seeded/$glob; do
  [ -f $d/patch.diff ] || continue
  id=$(basename $d); prop=${id%-*}
  for p in $prop ${EXTRA[$id]:-}; do
    git -C /repo apply /verif/seeded/$id/patch.diff || { echo "$id apply failed" | tee -a $out; continue; }
    res=$(./check $p --tier quick 2>&1 | grep -E "VIOLATION|UNDECIDED|CHECKER|-> exit" | cut -c1-300)
    mkdir -p $keep/$id-$p; cp evidence/replay/$p-*.json $keep/$id-$p/ 2>/dev/null
    git -C /repo checkout -- .
    ex=$(echo "$res" | grep -o "exit [0-9]" | tail -1)
    n=$(echo "$res" | grep -c VIOLATION)
    nf=$(echo "$res" | grep VIOLATION | grep -vc "no-failing-input-found")
    obs=$(echo "$res" | grep VIOLATION | sed 's/.*obligation=//' | cut -c1-90 | head -3 | tr '\n' ';')
    echo "$id check=$p -> $ex violations=$n natively-confirmed=$nf [$obs]" | tee -a $out
  done
done
git -C /repo status --short | grep -v '^??' && echo "REPO NOT CLEAN"
for f in $keep/*/*.json; do
  [ -f "$f" ] || continue
  r=$(/venv/bin/python /verif/replay.py $f 2>/dev/null | tail -1)
  if echo "$r" | grep -q '"confirmed": true'; then
    ob=$(python3 -c "import json,sys;print(json.load(open(sys.argv[1]))['obligation'])" $f)
    kf=$(python3 -c "
import json,sys
ob=sys.argv[1]
print(any(e.get('status')=='finding' and ob in (e.get('obligation') or '') for e in json.load(open('/verif/known_findings.json'))['entries']))" "$ob")
    [ "$kf" = "True" ] || echo "REPLAY-CONFIRMS-ON-CLEAN-TREE $(basename $(dirname $f)) $ob :: $(echo $r | cut -c1-200)" | tee -a $out
  fi
done
rm -rf $keep
