#!/bin/bash
# runs every claimed check on the unchanged tree and validates manifest + evidence
cd /verif
git -C /repo status --short | grep -q . && { echo "/repo has uncommitted changes"; exit 9; }
props=$(python3 -c "import json;print(' '.join(c['property_id'] for c in json.load(open('MANIFEST.json'))['checks']))")
for p in $props; do ./check $p --tier ${1:-quick} 2>&1 | grep -E "VIOLATION|UNDECIDED|CHECKER|-> exit" | cut -c1-200; done
python3-vt - <<'PY'
import json,jsonschema
m=json.load(open('MANIFEST.json'))
jsonschema.validate(m, json.load(open('/root/.vp/MANIFEST.schema.json')))
for c in m['checks']:
    e=json.load(open('evidence/%s.json'%c['property_id']))
    jsonschema.validate(e, json.load(open('/root/.vp/EVIDENCE.schema.json')))
    cov=e['coverage']
    assert cov['obligations']==cov['discharged'], (c['property_id'], cov['obligations'], cov['discharged'])
    assert e['level']==c['level_claimed']['category'], (c['property_id'], e['level'])
    assert e.get('violations',0)==0
print('manifest and evidence valid')
PY
