#!/usr/bin/env python3
"""Regenerates /verif/ledger.json on the CLEAN tree: for every claimed property the obligation ids (non bounded, non probe)
that were generated AND fully discharged in quick runs with VERIF_SEED=0,1,2 (intersection). Run tools_runall.sh afterwards."""
import json, os, subprocess, sys
V = os.path.dirname(os.path.abspath(__file__))
props = [c['property_id'] for c in json.load(open(os.path.join(V, 'MANIFEST.json')))['checks']]
if os.path.exists(os.path.join(V, 'ledger.json')):
    os.rename(os.path.join(V, 'ledger.json'), os.path.join(V, 'ledger.json.old'))
out = {}
for p in props:
    ids = None
    for seed in (0, 1, 2):
        r = subprocess.run(['./check', p, '--tier', 'quick'], cwd=V, env=dict(os.environ, VERIF_SEED=str(seed)), capture_output=True, text=True)
        if r.returncode != 0:
            print('check', p, 'seed', seed, 'exit', r.returncode); sys.exit(1)
        ev = json.load(open(os.path.join(V, 'evidence', p + '.json')))
        cur = {a['name'] for a in ev['coverage']['obligations_detail'] if a['kind'] not in ('bounded', 'probe') and not a['name'].startswith('kf-probe:')
               and a['discharged'] == a['instances']}
        ids = cur if ids is None else ids & cur
    out[p] = sorted(ids)
    print(p, len(ids))
json.dump(dict(comment='obligation ids generated and discharged on the pinned tree (quick tier, seeds 0-2); a run that does not generate one of them is undecided (exit 2)',
               obligation_ids=out), open(os.path.join(V, 'ledger.json'), 'w'), indent=0)
if os.path.exists(os.path.join(V, 'ledger.json.old')):
    os.unlink(os.path.join(V, 'ledger.json.old'))
