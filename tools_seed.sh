#!/bin/bash
# tools_seed.sh verify <src-seed-dir> <id>   : confirm a seeded change in a scratch worktree and store it under seeded/<id>
# tools_seed.sh run <id> <Cnn> [tier]        : apply seeded/<id>/patch.diff to /repo, run ./check Cnn, undo
set -u
cmd=$1
case $cmd in
verify)
  src=$2; id=$3
  wt=$(mktemp -d /tmp/seedwt.XXXXXX); rmdir $wt
  git -C /repo worktree add -q --detach $wt HEAD || exit 9
  mkdir -p $wt/_seed && cp -r $src $wt/_seed/1     # demos locate the worktree root either by cwd or as ../.. of their own directory
  res=ok
  if ! git -C $wt apply --check _seed/1/patch.diff 2>/dev/null; then res="patch-does-not-apply"; fi
  if [ $res = ok ]; then
    (cd $wt && /venv/bin/python _seed/1/demo.py >/dev/null 2>&1); clean=$?
    git -C $wt apply _seed/1/patch.diff
    suite=$(cd $wt && /venv/bin/python -m pytest -q -p no:cacheprovider -x 2>&1 | tail -1)
    (cd $wt && /venv/bin/python _seed/1/demo.py >/dev/null 2>&1); broken=$?
    echo "id=$id demo_clean_rc=$clean demo_patched_rc=$broken suite='$suite'"
    if [ $clean -eq 0 ] && [ $broken -ne 0 ] && echo "$suite" | grep -q "1576 passed"; then
      mkdir -p /verif/seeded/$id && cp -r $src/* /verif/seeded/$id/
      echo "{\"verified\": \"demo exit 0 on clean tree, exit $broken with patch; suite: $suite\", \"base\": \"$(git -C /repo rev-parse --short HEAD)\"}" > /verif/seeded/$id/verified.json
    else res=rejected; fi
  fi
  git -C /repo worktree remove --force $wt
  echo "$id: $res"
  ;;
run)
  id=$2; prop=$3; tier=${4:-quick}
  git -C /repo apply /verif/seeded/$id/patch.diff || { echo "apply failed"; exit 9; }
  (cd /verif && ./check $prop --tier $tier 2>&1 | grep -E "VIOLATION|UNDECIDED|CHECKER|KNOWN|-> exit" | cut -c1-400 | head -12)
  git -C /repo checkout -- .
  ;;
esac
