#!/usr/bin/env python
"""Native purity battery of C15 (run under /venv/bin/python on the working tree): prints one JSON object
{"history": [...problems...], "schedules": [...problems...]}; see spec/replays.py purity_battery / purity_schedules."""
import json
import os
import sys
VERIF = os.path.dirname(os.path.abspath(__file__))
sys.path.insert(0, VERIF)
sys.path.insert(0, os.environ.get('PYVC_REPO', '/repo'))
from spec import replays as R
seed = int(sys.argv[1]) if len(sys.argv) > 1 else 0
print(json.dumps(dict(history=R.purity_battery(seed), schedules=R.purity_schedules())))
