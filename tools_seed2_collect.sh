#!/bin/bash
# verifies the round-2 seeded changes of one property (/tmp/seed2-Cnn/_seed/{1,2,3}) and stores them as seeded/Cnn-{3,4,5}
p=$1
for k in 1 2 3; do
  d=/tmp/seed2-$p/_seed/$k
  [ -f $d/patch.diff ] || { echo "$p-$((k+2)): missing"; continue; }
  /verif/tools_seed.sh verify $d $p-$((k+2)) 2>&1 | tail -2
done
