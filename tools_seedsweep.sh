#!/bin/bash
# robustness on the unchanged tree: every claimed check with VERIF_SEED = $1..$2 must exit 0 (prints only the failures)
cd /verif
lo=${1:-1}; hi=${2:-10}
one() { p=$1; for s in $(seq $lo $hi); do out=$(VERIF_SEED=$s ./check $p --tier quick 2>&1); rc=$?; [ $rc -ne 0 ] && { echo "FAIL $p seed=$s exit=$rc"; echo "$out" | grep -E "VIOLATION|UNDECIDED|CHECKER" | head -3 | cut -c1-300; }; done; echo "done $p"; }
export -f one; export lo hi
python3 -c "import json;print('\n'.join(c['property_id'] for c in json.load(open('MANIFEST.json'))['checks']))" | xargs -P 3 -I{} bash -c 'one {}'
