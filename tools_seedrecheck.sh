#!/bin/bash
# re-validation of all stored seeds against the CURRENT machinery in scratch worktrees, three properties at a time
# (the formal procedure - git apply to /repo itself, replay self-check - is tools_seedmatrix.sh; its result is seeded/MATRIX.txt)
cd /verif
for p in 01 02 03 04 05 06 07 08 09 10 11 12 13 14 15 16; do
  ids=$(ls seeded | grep "^C$p-" | tr '\n' ' ' | sed 's/ *$//')
  echo "C$p $ids"
done | xargs -P 3 -L 1 ./tools_seedscratch.sh > seeded/MATRIX-RECHECK.txt 2>&1
sort -o seeded/MATRIX-RECHECK.txt seeded/MATRIX-RECHECK.txt
