#!/bin/bash
# behaviour-preserving refactorings (written by sub-agents): no check may raise an alarm on them.
# usage: tools_refac.sh collect Rk   -> verifies (suite passes) and stores /tmp/refac-Rk/_refac/n as seeded/refactor/Rk-n
#        tools_refac.sh run Rk-n     -> runs the checks of the area in a scratch worktree, appends to seeded/REFACTOR-MATRIX.txt
declare -A PROPS=( [R1]="C01 C04 C05 C08 C14 C15" [R2]="C01 C03 C07 C13" [R3]="C02 C03 C06 C13" [R4]="C09 C10 C11 C12 C14" [R5]="C16" [R6]="C02 C05 C12 C14 C15" [R7]="C01 C07 C08 C14" [R8]="C02 C03 C06 C01" [R9]="C10 C12" [R10]="C09 C11 C12" [R11]="C08 C12 C06 C14" [R12]="C16 C12 C14" )
cmd=$1
case $cmd in
collect)
  r=$2
  for n in 1 2 3 4; do
    d=/tmp/refac-$r/_refac/$n; [ -f $d/patch.diff ] || continue
    wt=$(mktemp -d /tmp/refwt.XXXXXX); rmdir $wt
    git -C /repo worktree add -q --detach $wt HEAD || exit 9
    if git -C $wt apply $d/patch.diff 2>/dev/null; then
      suite=$(cd $wt && /venv/bin/python -m pytest -q -p no:cacheprovider -x 2>&1 | tail -1)
      if echo "$suite" | grep -q "1576 passed"; then
        mkdir -p /verif/seeded/refactor/$r-$n && cp $d/patch.diff $d/meta.json /verif/seeded/refactor/$r-$n/ && echo "$r-$n stored ($suite)"
      else echo "$r-$n rejected: $suite"; fi
    else echo "$r-$n patch does not apply"; fi
    git -C /repo worktree remove --force $wt
  done ;;
run)
  id=$2; r=${id%-*}
  wt=$(mktemp -d /tmp/refrun.XXXXXX); rmdir $wt
  git -C /repo worktree add -q --detach $wt HEAD || exit 9
  git -C $wt apply /verif/seeded/refactor/$id/patch.diff || { echo "$id apply failed"; git -C /repo worktree remove --force $wt; exit 1; }
  for p in ${PROPS[$r]}; do
    res=$(cd /verif && PYVC_EVIDENCE=$wt/.evidence PYVC_REPO=$wt ./check $p --tier quick 2>&1 | grep -E "VIOLATION|UNDECIDED|CHECKER|-> exit" | cut -c1-260)
    ex=$(echo "$res" | grep -o "exit [0-9]" | tail -1)
    obs=$(echo "$res" | grep -E "VIOLATION|UNDECIDED|CHECKER" | sed 's/.*obligation=//;s/.*task=/task=/' | cut -c1-120 | head -3 | tr '\n' ';')
    echo "$id check=$p -> $ex [$obs]" | tee -a /verif/seeded/REFACTOR-MATRIX.txt
  done
  git -C /repo worktree remove --force $wt ;;
esac
