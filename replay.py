#!/usr/bin/env python
"""Native replay of a refuted obligation against the real code (working tree).
Usage: /venv/bin/python /verif/replay.py <replay-file.json>
Prints one JSON line {"confirmed": true|false|null, "detail": ..., "call": ...}."""
import json
import os
import sys
import traceback

VERIF = os.path.dirname(os.path.abspath(__file__))
sys.path.insert(0, VERIF)
sys.path.insert(0, os.environ.get('PYVC_REPO', '/repo'))


def main():
    with open(sys.argv[1]) as f:
        rec = json.load(f)
    rp = rec.get('replay')
    if not rp:
        print(json.dumps(dict(confirmed=None, detail='no replay function for this obligation')))
        return
    from spec import replays
    fn = getattr(replays, rp['fn'])
    kw = {k: v for k, v in rp.items() if k != 'fn'}
    try:
        res = fn(rec.get('model'), rec.get('obligation'), **kw)
    except Exception:
        res = dict(confirmed=None, detail='replay crashed: ' + traceback.format_exc()[-1500:])
    print(json.dumps(res, default=repr))


if __name__ == '__main__':
    main()
