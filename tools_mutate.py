#!/usr/bin/env python3
"""Off-line mutation campaign (the "canaries" of DESIGN 3.5, run as a campaign instead of on every check).

  tools_mutate.py gen                    -> seeded/mutants/<id>.json  (one small AST mutation each, inside a function under contract)
  tools_mutate.py suite [-j N]           -> runs the repository's test-suite on every mutant (scratch worktrees); records suite=pass|fail
  tools_mutate.py check [-j N]           -> runs the mapped check(s) on every mutant that PASSES the suite (PYVC_REPO scratch worktree)
  tools_mutate.py report                 -> seeded/MUTATION.txt (per property: mutants surviving the suite, killed by the check, undecided, survived)

Mutation operators: comparison operator swap, + <-> -, and <-> or, integer constant +-1, removal of `not`, deletion of a call / augmented
assignment statement.  Only mutants that keep the suite green are interesting (the brief: changes that still pass the existing tests).
"""
import ast
import copy
import json
import os
import random
import re
import subprocess
import sys
from concurrent.futures import ThreadPoolExecutor

V = os.path.dirname(os.path.abspath(__file__))
OUT = os.path.join(V, 'seeded', 'mutants')
REPO = '/repo'

# function (qualified name inside the file) -> properties whose check has to notice a behavioural change
TARGETS = {
    'segno/encoder.py': {
        'find_version': ['C04'], 'boost_error_level': ['C05'], 'Segments.bit_length_with_overhead': ['C04'], 'Segments.add_segment': ['C01'],
        'version_range': ['C04'], 'make_segment': ['C01', 'C07'], 'is_kanji': ['C07'], 'is_alphanumeric': ['C07'], 'find_mode': ['C07'],
        'write_segment': ['C01'], 'write_terminator': ['C13'], 'write_padding_bits': ['C13'], 'write_pad_codewords': ['C13'],
        'make_final_message': ['C03'], 'make_blocks': ['C03'], 'add_codewords': ['C03'], 'make_matrix': ['C02'], 'add_finder_patterns': ['C02'],
        'add_alignment_patterns': ['C02'], 'add_timing_pattern': ['C02'], 'add_format_info': ['C02'], 'add_version_info': ['C02'],
        'calc_format_info': ['C02'], 'apply_mask': ['C06'], 'find_and_apply_best_mask': ['C06'], 'mask_scores': ['C06'], 'evaluate_mask': ['C06'],
        'evaluate_micro_mask': ['C06'], 'get_data_mask_functions': ['C06'], 'encode': ['C14', 'C04', 'C05'], 'encode_sequence': ['C08'],
        '_encode': ['C13', 'C05', 'C02'], 'normalize_version': ['C14'], 'normalize_mask': ['C14'], 'normalize_mode': ['C14', 'C07'],
        'normalize_errorlevel': ['C14'], 'calc_structured_append_parity': ['C08'], 'data_to_bytes': ['C01'], 'prepare_data': ['C01'],
        'Buffer.append_bits': ['C01'], 'Buffer.toints': ['C03'], 'is_mode_supported': ['C07'], 'calc_matrix_size': ['C02'],
        'get_eci_assignment_number': ['C01'],
    },
    'segno/utils.py': {
        'matrix_iter': ['C11'], 'matrix_iter_verbose': ['C11'], 'matrix_to_lines': ['C10'], 'check_valid_scale': ['C11'], 'check_valid_border': ['C11'],
        'get_border': ['C11'], 'get_default_border_size': ['C11'], 'get_symbol_size': ['C09'],
    },
    'segno/helpers.py': {
        'make_wifi_data': ['C16'], 'make_mecard_data': ['C16'], 'make_vcard_data': ['C16'], 'make_make_email_data': ['C16'], 'make_geo_data': ['C16'],
        '_make_epc_qr_data': ['C16'], '_escape_mecard': ['C16'], '_escape_vcard': ['C16'],
    },
    'segno/writers.py': {
        '_make_colormap': ['C11'], 'colorful': ['C11'], 'save': ['C12'], '_color_to_rgba': ['C10', 'C14'], '_hex_to_rgb_or_rgba': ['C14'], '_alpha_value': ['C10'],
        '_color_to_webcolor': ['C10'], '_valid_width_height_and_border': ['C09'], 'write_pbm': ['C09'], 'write_ppm': ['C09'], 'write_txt': ['C09'],
        'write_xbm': ['C09'], 'write_eps': ['C10'], 'write_tex': ['C10'], 'as_svg_data_uri': ['C12'],
    },
    'segno/__init__.py': {
        'make': ['C05', 'C14'], 'make_qr': ['C05'], 'make_micro': ['C05'], 'make_sequence': ['C08'], 'QRCode.designator': ['C02'], 'QRCode.symbol_size': ['C02'],
        'QRCode.save': ['C12'], 'QRCodeSequence.save': ['C12'],
    },
}
TARGETS_P = {
    'segno/writers.py': {
        'write_svg': ['C10', 'C12'], 'write_png': ['C09'], 'write_pdf': ['C10'], 'write_pam': ['C09'], 'write_xpm': ['C09'], 'write_terminal': ['C09'],
        'write_terminal_compact': ['C09'], 'as_png_data_uri': ['C12'], 'write_ppm': ['C09'], 'write_tex': ['C10'], 'write_eps': ['C10'],
    },
    'segno/__init__.py': {
        'QRCode.svg_inline': ['C12'], 'QRCode.svg_data_uri': ['C12'], 'QRCode.png_data_uri': ['C12'], 'QRCode.terminal': ['C12', 'C09'], 'QRCode.matrix_iter': ['C11'],
        'QRCode.default_border_size': ['C02'], 'QRCode.is_micro': ['C02'], 'QRCode.mode': ['C02'], 'QRCode.error': ['C02'], 'QRCode.version': ['C02'],
    },
    'segno/cli.py': {'parse': ['C14', 'C12'], 'build_config': ['C12'], 'make_code': ['C12', 'C14'], 'main': ['C14', 'C12']},
    'segno/helpers.py': {'make_epc_qr': ['C16'], 'make_geo': ['C16'], 'make_wifi': ['C16'], 'make_mecard': ['C16'], 'make_vcard': ['C16'], 'make_email': ['C16']},
}
CMP = {ast.Lt: ast.LtE, ast.LtE: ast.Lt, ast.Gt: ast.GtE, ast.GtE: ast.Gt, ast.Eq: ast.NotEq, ast.NotEq: ast.Eq}


def functions(tree):
    out = {}

    def walk(node, qual):
        for ch in ast.iter_child_nodes(node):
            if isinstance(ch, (ast.FunctionDef, ast.AsyncFunctionDef)):
                out[qual + ch.name] = ch
                walk(ch, qual)          # nested helpers belong to the outer function
            elif isinstance(ch, ast.ClassDef):
                walk(ch, qual + ch.name + '.')
            else:
                walk(ch, qual)
    walk(tree, '')
    return out


def statements(fn):
    """simple (non compound) statements and the headers of compound statements, with their source span"""
    res = []
    for node in ast.walk(fn):
        if isinstance(node, ast.stmt) and node is not fn and not isinstance(node, (ast.FunctionDef, ast.ClassDef, ast.Import, ast.ImportFrom)):
            if isinstance(node, ast.Expr) and isinstance(node.value, ast.Constant) and isinstance(node.value.value, str):
                continue        # docstring
            res.append(node)
    return res


def mutations_of(stmt):
    """yields (description, mutated copy of the statement)"""
    # only the statement's own expressions, not nested statements
    def own_nodes(s):
        todo = []
        for field, value in ast.iter_fields(s):
            if field in ('body', 'orelse', 'finalbody', 'handlers'):
                continue
            vals = value if isinstance(value, list) else [value]
            for v in vals:
                if isinstance(v, ast.AST):
                    todo.append(v)
        out = []
        while todo:
            n = todo.pop()
            out.append(n)
            todo.extend(ast.iter_child_nodes(n))
        return out
    idx = 0
    nodes = own_nodes(stmt)
    for k, n in enumerate(nodes):
        def mutated(edit):
            c = copy.deepcopy(stmt)
            cn = own_nodes(c)[k]
            edit(cn)
            return c
        if isinstance(n, ast.Compare):
            for j, op in enumerate(n.ops):
                if type(op) in CMP:
                    yield ('%s -> %s' % (type(op).__name__, CMP[type(op)].__name__), mutated(lambda cn, j=j, op=op: cn.ops.__setitem__(j, CMP[type(op)]())))
        elif isinstance(n, ast.BinOp) and isinstance(n.op, (ast.Add, ast.Sub)):
            new = ast.Sub if isinstance(n.op, ast.Add) else ast.Add
            yield ('%s -> %s' % (type(n.op).__name__, new.__name__), mutated(lambda cn, new=new: setattr(cn, 'op', new())))
        elif isinstance(n, ast.BoolOp):
            new = ast.Or if isinstance(n.op, ast.And) else ast.And
            yield ('%s -> %s' % (type(n.op).__name__, new.__name__), mutated(lambda cn, new=new: setattr(cn, 'op', new())))
        elif isinstance(n, ast.Constant) and isinstance(n.value, int) and not isinstance(n.value, bool) and 0 <= n.value <= 4096:
            for d in (1, -1):
                if n.value + d >= 0:
                    yield ('%d -> %d' % (n.value, n.value + d), mutated(lambda cn, d=d: setattr(cn, 'value', cn.value + d)))
        elif isinstance(n, ast.UnaryOp) and isinstance(n.op, ast.Not):
            def drop(cn):
                inner = cn.operand
                cn.__class__ = inner.__class__
                cn.__dict__.clear()
                cn.__dict__.update(inner.__dict__)
            yield ('not removed', mutated(drop))
    if isinstance(stmt, (ast.AugAssign,)) or (isinstance(stmt, ast.Expr) and isinstance(stmt.value, ast.Call)):
        yield ('statement deleted', ast.Pass())


def gen(per_function=6, seed=7, prefix='M'):
    targets = TARGETS_P if prefix == 'P' else TARGETS
    os.makedirs(OUT, exist_ok=True)
    have = set()
    for f in os.listdir(OUT):
        if f.startswith(prefix):
            os.unlink(os.path.join(OUT, f))
        else:
            r = json.load(open(os.path.join(OUT, f)))
            have.add((r['file'], r['line'], r['new']))
    rnd = random.Random(seed)
    n = 0
    for path, funcs in targets.items():
        src = open(os.path.join(REPO, path)).read()
        lines = src.split('\n')
        tree = ast.parse(src)
        fmap = functions(tree)
        for qual, props in funcs.items():
            fn = fmap.get(qual)
            if fn is None:
                print('missing', path, qual)
                continue
            cands = []
            for st in statements(fn):
                for desc, mut in mutations_of(st):
                    cands.append((st, desc, mut))
            rnd.shuffle(cands)
            for st, desc, mut in cands[:per_function]:
                indent = re.match(r'\s*', lines[st.lineno - 1]).group(0)
                if isinstance(mut, ast.Pass):
                    new_lines = [indent + 'pass']
                    end = st.end_lineno
                else:
                    if hasattr(st, 'body') and not isinstance(st, ast.Pass):
                        # compound statement: only the header is replaced
                        hdr = copy.deepcopy(mut)
                        hdr.body = [ast.Pass()]
                        for fld in ('orelse', 'finalbody', 'handlers'):
                            if hasattr(hdr, fld):
                                setattr(hdr, fld, [])
                        text = ast.unparse(hdr).split('\n')[0]
                        end = st.body[0].lineno - 1
                        # header must end right before the body
                        new_lines = [indent + text]
                    else:
                        text = ast.unparse(mut)
                        new_lines = [indent + l for l in text.split('\n')]
                        end = st.end_lineno
                if (path, st.lineno, '\n'.join(new_lines)) in have:
                    continue
                n += 1
                mid = '%s%04d' % (prefix, n)
                rec = dict(id=mid, file=path, function=qual, props=props, line=st.lineno, end=end, desc=desc,
                           old='\n'.join(lines[st.lineno - 1:end]), new='\n'.join(new_lines))
                json.dump(rec, open(os.path.join(OUT, mid + '.json'), 'w'), indent=1)
    print(n, 'mutants')


def apply(rec, root):
    p = os.path.join(root, rec['file'])
    lines = open(p).read().split('\n')
    lines[rec['line'] - 1:rec['end']] = rec['new'].split('\n')
    open(p, 'w').write('\n'.join(lines))


def with_worktree(fn):
    wt = subprocess.run(['mktemp', '-d', '/tmp/mut.XXXXXX'], capture_output=True, text=True).stdout.strip()
    os.rmdir(wt)
    subprocess.run(['git', '-C', REPO, 'worktree', 'add', '-q', '--detach', wt, 'HEAD'], check=True)
    try:
        return fn(wt)
    finally:
        subprocess.run(['git', '-C', REPO, 'worktree', 'remove', '--force', wt])


def load():
    return [json.load(open(os.path.join(OUT, f))) for f in sorted(os.listdir(OUT)) if f.endswith('.json')]


def save(rec):
    json.dump(rec, open(os.path.join(OUT, rec['id'] + '.json'), 'w'), indent=1)


def suite(jobs):
    recs = [r for r in load() if 'suite' not in r]
    chunks = [recs[i::jobs] for i in range(jobs)]

    def work(chunk):
        def run(wt):
            for rec in chunk:
                subprocess.run(['git', '-C', wt, 'checkout', '-q', '--', '.'])
                apply(rec, wt)
                try:
                    p = subprocess.run(['/venv/bin/python', '-c', 'import segno, segno.cli, segno.helpers'], cwd=wt, capture_output=True, text=True, timeout=60)
                    if p.returncode != 0:
                        rec['suite'] = 'import-error'
                    else:
                        p = subprocess.run(['/venv/bin/python', '-m', 'pytest', '-q', '-x', '-p', 'no:cacheprovider', '--timeout=300'], cwd=wt, capture_output=True, text=True, timeout=900)
                        rec['suite'] = 'pass' if '1576 passed' in p.stdout else 'fail'
                except subprocess.TimeoutExpired:
                    rec['suite'] = 'timeout'
                save(rec)
        with_worktree(run)
    with ThreadPoolExecutor(jobs) as ex:
        list(ex.map(work, [c for c in chunks if c]))
    recs = load()
    print({k: sum(1 for r in recs if r.get('suite') == k) for k in ('pass', 'fail', 'import-error', 'timeout')})


def check(jobs):
    recs = [r for r in load() if r.get('suite') == 'pass' and 'checks' not in r]
    chunks = [recs[i::jobs] for i in range(jobs)]

    def work(chunk):
        def run(wt):
            for rec in chunk:
                subprocess.run(['git', '-C', wt, 'checkout', '-q', '--', '.'])
                apply(rec, wt)
                res = {}
                for prop in rec['props']:
                    p = subprocess.run(['./check', prop, '--tier', 'quick'], cwd=V, env=dict(os.environ, PYVC_REPO=wt, PYVC_EVIDENCE=os.path.join(wt, '.evidence')), capture_output=True, text=True)
                    lines_ = [l for l in p.stdout.split('\n') if re.match(r'VIOLATION|UNDECIDED|CHECKER', l)]
                    res[prop] = dict(exit=p.returncode, first=[re.sub(r'.*obligation=', '', l)[:110] for l in lines_[:2]])
                    if p.returncode == 1:
                        break       # killed
                rec['checks'] = res
                save(rec)
        with_worktree(run)
    with ThreadPoolExecutor(jobs) as ex:
        list(ex.map(work, [c for c in chunks if c]))


def report():
    recs = load()
    by = {}
    lines = []
    for r in recs:
        if r.get('suite') != 'pass' or 'checks' not in r:
            continue
        exits = [c['exit'] for c in r['checks'].values()]
        verdict = 'killed' if 1 in exits else ('undecided' if any(e in (2, 3) for e in exits) else 'survived')
        for p in r['props'][:1]:
            d = by.setdefault(p, dict(killed=0, undecided=0, survived=0))
            d[verdict] += 1
        lines.append('%s %s %s:%d %s [%s] -> %s %s' % (r['id'], '/'.join(r['props']), r['function'], r['line'], r['desc'], r['new'].strip()[:70], verdict,
                                                      '; '.join('%s exit %d %s' % (p, c['exit'], ','.join(c['first'])[:90]) for p, c in r['checks'].items())))
    tot = dict(killed=0, undecided=0, survived=0)
    out = ['# mutants that keep the test-suite green (1576 passed), by the first property their function is mapped to',
           '# all mutants: %d, suite fails: %d, import errors: %d' % (len(recs), sum(1 for r in recs if r.get('suite') == 'fail'), sum(1 for r in recs if r.get('suite') == 'import-error'))]
    for p in sorted(by):
        d = by[p]
        for k in tot:
            tot[k] += d[k]
        out.append('%s killed=%d undecided=%d survived=%d' % (p, d['killed'], d['undecided'], d['survived']))
    out.append('total killed=%d undecided=%d survived=%d' % (tot['killed'], tot['undecided'], tot['survived']))
    out.append('')
    out += sorted(lines, key=lambda l: (('survived' not in l), ('undecided' not in l), l))
    open(os.path.join(V, 'seeded', 'MUTATION.txt'), 'w').write('\n'.join(out) + '\n')
    print('\n'.join(out[:22]))


if __name__ == '__main__':
    cmd = sys.argv[1]
    jobs = int(sys.argv[sys.argv.index('-j') + 1]) if '-j' in sys.argv else 4
    if cmd == 'gen':
        gen(per_function=int(sys.argv[2]) if len(sys.argv) > 2 and sys.argv[2].isdigit() else 6,
            seed=int(sys.argv[3]) if len(sys.argv) > 3 else 7, prefix=sys.argv[4] if len(sys.argv) > 4 else 'M')
    elif cmd == 'suite':
        suite(jobs)
    elif cmd == 'check':
        check(jobs)
    elif cmd == 'report':
        report()
