#!/bin/bash
# development helper: runs the seeds of ONE property (ids given) against the check in a scratch worktree (PYVC_REPO), so that
# several properties can be triaged in parallel. The formal matrix (tools_seedmatrix.sh) applies the patches to /repo itself.
# usage: tools_seedscratch.sh Cnn id...
prop=$1; shift
wt=$(mktemp -d /tmp/seedrun.XXXXXX); rmdir $wt
git -C /repo worktree add -q --detach $wt HEAD || exit 9
for id in "$@"; do
  git -C $wt apply /verif/seeded/$id/patch.diff || { echo "$id apply failed"; continue; }
  res=$(cd /verif && PYVC_EVIDENCE=$wt/.evidence PYVC_REPO=$wt ./check $prop --tier quick 2>&1 | grep -E "VIOLATION|UNDECIDED|CHECKER|-> exit" | cut -c1-300)
  ex=$(echo "$res" | grep -o "exit [0-9]" | tail -1)
  obs=$(echo "$res" | grep -E "VIOLATION|UNDECIDED|CHECKER" | sed 's/.*obligation=//;s/.*task=/task=/' | cut -c1-110 | head -4 | tr '\n' ';')
  echo "$id check=$prop -> $ex [$obs]"
  git -C $wt checkout -q -- .
done
git -C /repo worktree remove --force $wt
