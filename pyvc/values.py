"""Container / object values of the pyvc interpreter."""
import z3
from .sym import (SInt, SBool, Unsupported, fresh_name, fresh_int, s_and, s_or, s_not,
                  s_ite, s_min, s_max, _z, zb, mk_bool, is_sym)

# the interpreter currently running (set by Interp.run); containers use it to
# add type invariants to the path condition and to emit safety obligations
CUR = [None]


def cur():
    return CUR[0]


def _has_sym(items):
    for x in items:
        if isinstance(x, (SInt, SBool)):
            return True
    return False


class VBytearray:
    """bytearray whose length is concrete and whose items may be symbolic.

    Storing a symbolic item emits the obligation 0 <= v <= 255 (a bytearray
    store raises ValueError otherwise)."""
    mutable = True
    tname = 'bytearray'

    def __init__(self, items=()):
        self.items = list(items)

    # -- helpers
    def _check_byte(self, v):
        if type(v).__name__ == 'GFLin':
            return v       # a GF(256) element is a byte by construction
        if isinstance(v, SInt):
            if v.lo is not None and v.hi is not None and v.lo >= 0 and v.hi <= 255:
                return v
            cur().oblige('bytearray-store-range', s_and(v >= 0, v <= 255), kind='safety')
            return v
        if isinstance(v, SBool):
            return SInt(_z(v), 0, 1)
        if isinstance(v, bool):
            return int(v)
        if not isinstance(v, int):
            raise TypeError("an integer is required")
        if not 0 <= v <= 255:
            raise ValueError('byte must be in range(0, 256)')
        return v

    def __len__(self):
        return len(self.items)

    def __iter__(self):
        return iter(list(self.items))

    def __bool__(self):
        return bool(self.items)

    def __getitem__(self, idx):
        if isinstance(idx, slice):
            return type(self)(self.items[idx])
        if isinstance(idx, SInt):
            return cur().select_concrete_list(self.items, idx)
        return self.items[idx]

    def __setitem__(self, idx, v):
        if not self.mutable:
            raise TypeError("'bytes' object does not support item assignment")
        if isinstance(idx, slice):
            vals = [self._check_byte(x) for x in v]
            self.items[idx] = vals
            return
        if isinstance(idx, SInt):
            raise Unsupported('store at symbolic index into concrete-length bytearray')
        self.items[idx] = self._check_byte(v)

    def __delitem__(self, idx):
        del self.items[idx]

    def extend(self, it):
        if isinstance(it, (SSeq, SRepeat)):
            raise Unsupported('extend of concrete-length bytearray by symbolic-length sequence')
        for x in it:
            self.items.append(self._check_byte(x))

    def append(self, v):
        self.items.append(self._check_byte(v))

    def pop(self, i=-1):
        return self.items.pop(i)

    def find(self, sub, start=0, end=None):
        if _has_sym(self.items):
            raise Unsupported('bytearray.find on symbolic content')
        subb = bytes(sub.items) if isinstance(sub, VBytearray) else sub
        if end is None:
            return bytes(self.items).find(subb, start)
        return bytes(self.items).find(subb, start, end)

    def __add__(self, o):
        if isinstance(o, VBytearray):
            return type(self)(self.items + o.items)
        if isinstance(o, (bytes, bytearray)):
            return type(self)(self.items + list(o))
        return NotImplemented

    def __radd__(self, o):
        if isinstance(o, (bytes, bytearray)):
            return type(self)(list(o) + self.items)
        return NotImplemented

    def __mul__(self, n):
        return type(self)(self.items * n)

    def __eq__(self, o):
        if isinstance(o, VBytearray):
            oi = o.items
        elif isinstance(o, (bytes, bytearray)):
            oi = list(o)
        else:
            return False
        if len(oi) != len(self.items):
            return False
        return s_and(*[a == b for a, b in zip(self.items, oi)])

    def __ne__(self, o):
        return s_not(self.__eq__(o))

    __hash__ = None

    def isdigit(self):
        if not self.items:
            return False
        return s_and(*[s_and(x >= 48, x <= 57) for x in self.items])

    def concrete(self):
        if _has_sym(self.items):
            raise Unsupported('concrete bytes needed')
        return bytes(self.items) if not self.mutable else bytearray(self.items)

    def __repr__(self):
        return '%s(%r)' % (type(self).__name__, self.items if len(self.items) < 20 else '...%d items' % len(self.items))


class VBytes(VBytearray):
    mutable = False
    tname = 'bytes'

    def extend(self, it):
        raise AttributeError("'bytes' object has no attribute 'extend'")


class SRepeat:
    """[v] * n  with symbolic n (length max(n, 0)); v concrete int."""

    def __init__(self, value, count):
        self.value = value
        self.count = count  # SInt, may be negative -> empty

    def length(self):
        return s_max(self.count, 0)


class SSeq:
    """Immutable integer sequence (bytes / tuple of ints) of symbolic length.
    element k (0 <= k < length) is arr[off + k]."""
    tname = 'bytes'

    def __init__(self, arr, length, off=0, elem_lo=0, elem_hi=255, name=None):
        self.arr = arr
        self.length = length
        self.off = off
        self.elem_lo = elem_lo
        self.elem_hi = elem_hi
        self.name = name

    @classmethod
    def fresh(cls, name, length=None, elem_lo=0, elem_hi=255):
        arr = z3.Array(fresh_name(name), z3.IntSort(), z3.IntSort())
        if length is None:
            length = cur().fresh_int(name + '_len', 0, None)
        return cls(arr, length, 0, elem_lo, elem_hi, name)

    def raw_abs(self, p):
        """array cell p (absolute position), no side effects"""
        return SInt(z3.Select(self.arr, _z(p)), self.elem_lo, self.elem_hi)

    def at(self, k):
        """element k without bounds check (caller guarantees 0 <= k < length); the
        element range is added to the path condition and the absolute position is
        registered as instantiation term for quantified facts about this sequence"""
        p = self.off + k
        v = SInt(z3.Select(self.arr, _z(p)), self.elem_lo, self.elem_hi)
        c = cur()
        if c is not None:
            if self.elem_lo is not None:
                c.assume(v.e >= self.elem_lo, quiet=True)
            if self.elem_hi is not None:
                c.assume(v.e <= self.elem_hi, quiet=True)
            c.add_index_term(p)
        return v

    def forall_elems(self, pred, name='elems'):
        """QForall: pred(element) for every element of this sequence (over absolute positions)"""
        from .sym import QForall
        off, n = self.off, self.length
        return QForall(lambda p: s_or(s_not(s_and(p >= off, p < off + n)), pred(self.raw_abs(p))), name)

    def __len__(self):
        raise Unsupported('native len() of symbolic sequence')

    def __getitem__(self, idx):
        c = cur()
        n = self.length
        if isinstance(idx, slice):
            if idx.step not in (None, 1):
                raise Unsupported('slice step')
            a = 0 if idx.start is None else idx.start
            b = n if idx.stop is None else idx.stop
            for v in (a, b):
                neg = (v < 0)
                if neg is True or (neg is not False and c.decide(neg)):
                    raise Unsupported('negative slice bound on symbolic sequence')
            start = s_min(a, n)
            stop = s_min(b, n)
            ln = s_max(stop - start, 0)
            return SSeq(self.arr, ln, self.off + start, self.elem_lo, self.elem_hi, self.name)
        # integer index: negative indices count from the end
        neg = (idx < 0)
        if neg is True or (neg is not False and c.decide(neg)):
            idx = idx + n
        ok = s_and(idx >= 0, idx < n)
        if ok is not True:
            if ok is False or not c.decide(ok):
                raise IndexError('index out of range')
        return self.at(idx)

    def __iter__(self):
        raise Unsupported('native iteration over symbolic-length sequence')

    def isdigit(self):
        from .sym import SQuant
        raw = lambda k: self.raw_abs(self.off + k)
        return SQuant(self.length, lambda k: s_and(raw(k) >= 48, raw(k) <= 57), nonempty=True, name='isdigit')

    def forall(self, pred):
        """SBool: pred(element) for all elements; pred maps SInt -> bool/SBool"""
        k = z3.Int(fresh_name('k'))
        el = SInt(z3.Select(self.arr, _z(self.off) + k), self.elem_lo, self.elem_hi)
        p = pred(el)
        rng = [k >= 0, k < _z(self.length)]
        return SBool(z3.ForAll([k], z3.Implies(z3.And(*rng), zb(p))))

    def __repr__(self):
        return 'SSeq(%s, len=%r, off=%r)' % (self.name, self.length, self.off)


class SMutSeq(SSeq):
    """bytearray of symbolic length: cell stores update the array term (functional store)"""
    tname = 'bytearray'
    mutable = True

    def __setitem__(self, idx, v):
        c = cur()
        if isinstance(idx, slice):
            raise Unsupported('slice store into symbolic-length bytearray')
        n = self.length
        neg = (idx < 0)
        if neg is True or (neg is not False and c.decide(neg)):
            idx = idx + n
        ok = s_and(idx >= 0, idx < n)
        if ok is not True:
            if ok is False or not c.decide(ok):
                raise IndexError('bytearray index out of range')
        if isinstance(v, SBool):
            v = SInt(_z(v), 0, 1)
        inr = s_and(v >= 0, v <= 255)
        if inr is not True:
            if inr is False or not c.decide(inr):
                raise ValueError('byte must be in range(0, 256)')
        self.arr = z3.Store(self.arr, _z(self.off + idx), _z(v))
        c.add_index_term(self.off + idx)


class SMatrix(SSeq):
    """square matrix of symbolic size whose cells are arbitrary values of [elem_lo, elem_hi]:
    a sequence of `length` rows, row r being the array M[r] of `length` cells"""
    tname = 'tuple'

    def __init__(self, name, size, elem_lo=0, elem_hi=1):
        self.M = z3.Array(fresh_name(name), z3.IntSort(), z3.ArraySort(z3.IntSort(), z3.IntSort()))
        SSeq.__init__(self, None, size, 0, elem_lo, elem_hi, name)

    def row(self, r):
        return SSeq(z3.Select(self.M, _z(r)), getattr(self, 'width', self.length), 0, self.elem_lo, self.elem_hi, '%s_row' % self.name)

    def cell(self, r, c):
        return SInt(z3.Select(z3.Select(self.M, _z(r)), _z(c)), self.elem_lo, self.elem_hi)

    def at(self, k):
        return self.row(k)

    def raw_abs(self, p):
        raise Unsupported('raw cell of a matrix')

    def __getitem__(self, idx):
        c = cur()
        if isinstance(idx, slice):
            raise Unsupported('slice of symbolic matrix')
        n = self.length
        neg = (idx < 0)
        if neg is True or (neg is not False and c.decide(neg)):
            idx = idx + n
        ok = s_and(idx >= 0, idx < n)
        if ok is not True:
            if ok is False or not c.decide(ok):
                raise IndexError('index out of range')
        return self.row(idx)


class SLazySeq:
    """immutable sequence of symbolic length whose element k is computed on demand by elem(k)
    (generator expressions over symbolic ranges, chain.from_iterable of repeats, tuple(...) of those)"""
    tname = 'tuple'

    def __init__(self, length, elem, kind='tuple'):
        self.length = length
        self.elem = elem
        self.kind = kind

    def at(self, k):
        return self.elem(k)

    def __getitem__(self, idx):
        c = cur()
        if isinstance(idx, slice):
            raise Unsupported('slice of lazy sequence')
        n = self.length
        neg = (idx < 0)
        if neg is True or (neg is not False and c.decide(neg)):
            idx = idx + n
        ok = s_and(idx >= 0, idx < n)
        if ok is not True:
            if ok is False or not c.decide(ok):
                raise IndexError('index out of range')
        return self.elem(idx)

    def __iter__(self):
        raise Unsupported('native iteration over lazy symbolic sequence')

    def __len__(self):
        raise Unsupported('native len() of lazy symbolic sequence')


class SIter:
    """iterator over an SSeq with symbolic position"""

    def __init__(self, seq, pos=0):
        self.seq = seq
        self.pos = pos

    def __iter__(self):
        return self

    def __next__(self):
        c = cur()
        ok = (self.pos < self.seq.length)
        if ok is not True:
            if ok is False or not c.decide(ok):
                raise StopIteration
        v = self.seq.at(self.pos)
        self.pos = self.pos + 1
        return v


class SBits:
    """Mutable bit buffer (the bytearray inside segno's Buffer) of symbolic
    length; content is a z3 array term (lambdas), so stores stay quantifier free."""
    tname = 'bytearray'

    def __init__(self, arr=None, length=0):
        self.arr = arr if arr is not None else z3.K(z3.IntSort(), z3.IntVal(0))
        self.length = length

    def __len__(self):
        raise Unsupported('native len() of symbolic buffer')

    def at(self, k):
        return SInt(z3.Select(self.arr, _z(k)), 0, 255)

    def extend(self, it):
        j = z3.Int(fresh_name('j'))
        ln = _z(self.length)
        if isinstance(it, SRepeat):
            cnt = it.length()
            v = cur()._check_byte_value(it.value)
            self.arr = z3.Lambda([j], z3.If(z3.And(j >= ln, j < ln + _z(cnt)), _z(v), z3.Select(self.arr, j)))
            self.length = self.length + cnt
            return
        if isinstance(it, SBits):
            cnt = it.length
            self.arr = z3.Lambda([j], z3.If(z3.And(j >= ln, j < ln + _z(cnt)),
                                            z3.Select(it.arr, j - ln), z3.Select(self.arr, j)))
            self.length = self.length + cnt
            return
        if isinstance(it, SSeq):
            cnt = it.length
            self.arr = z3.Lambda([j], z3.If(z3.And(j >= ln, j < ln + _z(cnt)),
                                            z3.Select(it.arr, _z(it.off) + j - ln), z3.Select(self.arr, j)))
            self.length = self.length + cnt
            return
        items = [cur()._check_byte_value(x) for x in it]
        if not items:
            return
        body = z3.Select(self.arr, j)
        for k in reversed(range(len(items))):
            body = z3.If(j == ln + k, _z(items[k]), body)
        self.arr = z3.Lambda([j], body)
        self.length = self.length + len(items)

    def __getitem__(self, idx):
        if isinstance(idx, slice):
            raise Unsupported('slice of symbolic buffer')
        c = cur()
        ok = s_and(idx >= 0, idx < self.length)
        if ok is not True:
            if ok is False or not c.decide(ok):
                raise IndexError('index out of range')
        return self.at(idx)

    def snapshot(self):
        return SBits(self.arr, self.length)


class Obj:
    """instance of a class defined in the verified package"""

    def __init__(self, cls):
        self.cls = cls
        self.attrs = {}

    def __repr__(self):
        return '<Obj %s %r>' % (self.cls.__name__, self.attrs)


class TupObj:
    """instance of a tuple subclass defined in the verified package"""

    def __init__(self, cls, items):
        self.cls = cls
        self.items = tuple(items)

    def __len__(self):
        return len(self.items)

    def __iter__(self):
        return iter(self.items)

    def __getitem__(self, i):
        return self.items[i]

    def __repr__(self):
        return '<TupObj %s %r>' % (self.cls.__name__, self.items)


class CountedList:
    """Abstraction of a list of small-domain ints (the modes of the segments)
    of unbounded length by its multiset: counts[v] = number of occurrences.

    Supported uses are order-insensitive folds: len(), sum(f(x) for x in L),
    max([f(x) for x in L]); anything else is Unsupported."""

    def __init__(self, counts):
        self.counts = dict(counts)  # value -> SInt/int (>= 0)

    def total(self):
        t = 0
        for c in self.counts.values():
            t = t + c
        return t

    def count(self, v):
        """list.count"""
        t = 0
        for k, c in self.counts.items():
            if k == v:
                t = t + c
        return t


class OpaqueSeq:
    """list of opaque elements of symbolic length (e.g. the segments of a Segments
    object in glue contracts); only len() and in-order iteration (with a loop
    contract) are supported"""

    def __init__(self, name, length):
        self.name = name
        self.length = length

    def at(self, k):
        return OpaqueElem(self, k)


class OpaqueElem:
    def __init__(self, seq, index):
        self.seq = seq
        self.index = index


class OpaqueIter:
    def __init__(self, seq):
        self.seq = seq
        self.length = seq.length

    def at(self, k):
        return OpaqueElem(self.seq, k)


class FieldBuf:
    """ghost field-list view of segno's bit Buffer: the stream is the concatenation of
    `count` fields (value, width), each written most significant bit first; bitlen is
    the total number of bits.  Buffer.append_bits is verified against this view at the
    bit level (obligations C01.append_bits.*), the packers then reason about fields."""
    tname = 'bytearray'

    def __init__(self, vals=None, widths=None, count=0, bitlen=0):
        self.vals = vals if vals is not None else z3.K(z3.IntSort(), z3.IntVal(0))
        self.widths = widths if widths is not None else z3.K(z3.IntSort(), z3.IntVal(0))
        self.count = count
        self.bitlen = bitlen

    def snapshot(self):
        return FieldBuf(self.vals, self.widths, self.count, self.bitlen)

    def append_field(self, val, width):
        self.vals = z3.Store(self.vals, _z(self.count), _z(val))
        self.widths = z3.Store(self.widths, _z(self.count), _z(width))
        self.count = self.count + 1
        self.bitlen = self.bitlen + width

    def val_at(self, g):
        return SInt(z3.Select(self.vals, _z(g)))

    def width_at(self, g):
        return SInt(z3.Select(self.widths, _z(g)))

    def havoc(self, interp, tag='fb'):
        self.vals = z3.Array(fresh_name(tag + '_vals'), z3.IntSort(), z3.IntSort())
        self.widths = z3.Array(fresh_name(tag + '_widths'), z3.IntSort(), z3.IntSort())
        self.count = interp.fresh_int(tag + '_count', 0, None)
        self.bitlen = interp.fresh_int(tag + '_bitlen', 0, None)

    def __add__(self, o):
        if not isinstance(o, FieldBuf):
            return NotImplemented
        j = z3.Int(fresh_name('j'))
        c1 = _z(self.count)
        vals = z3.Lambda([j], z3.If(j < c1, z3.Select(self.vals, j), z3.Select(o.vals, j - c1)))
        widths = z3.Lambda([j], z3.If(j < c1, z3.Select(self.widths, j), z3.Select(o.widths, j - c1)))
        return FieldBuf(vals, widths, self.count + o.count, self.bitlen + o.bitlen)

    def __len__(self):
        raise Unsupported('native len() of field buffer')
