import argparse
import json
import os
import sys

from . import runner

CONTRACTS = {
    'C01': 'contracts.c01',
    'C02': 'contracts.c02',
    'C03': 'contracts.c03',
    'C04': 'contracts.c04',
    'C05': 'contracts.c05',
    'C06': 'contracts.c06',
    'C07': 'contracts.c07',
    'C08': 'contracts.c08',
    'C09': 'contracts.c09',
    'C10': 'contracts.c10',
    'C11': 'contracts.c11',
    'C12': 'contracts.c12',
    'C13': 'contracts.c13',
    'C14': 'contracts.c14',
    'C15': 'contracts.c15',
    'C16': 'contracts.c16',
}


def main():
    ap = argparse.ArgumentParser()
    ap.add_argument('prop')
    ap.add_argument('--tier', default=os.environ.get('VERIF_TIER', 'quick'))
    ap.add_argument('--replay')
    ap.add_argument('--procs', type=int, default=None)
    a = ap.parse_args()
    seed = int(os.environ.get('VERIF_SEED', '0') or 0)
    if a.replay:
        rc, out, err = runner.run_native([os.path.join(runner.VERIF, 'replay.py'), a.replay])
        sys.stdout.write(out)
        sys.stderr.write(err)
        try:
            nat = json.loads(out.strip().splitlines()[-1])
        except Exception:
            sys.exit(3)
        if nat.get('confirmed'):
            print('VIOLATION property=%s replay=%s' % (a.prop, a.replay))
            sys.exit(1)
        sys.exit(0)
    mod = CONTRACTS.get(a.prop)
    if mod is None:
        print('no check for %s' % a.prop)
        sys.exit(3)
    tier = a.tier if a.tier in ('quick', 'thorough') else 'quick'
    sys.exit(runner.run_property(a.prop, mod, tier, seed, a.procs))


if __name__ == '__main__':
    main()
