"""Opaque text values for structure / taint proofs over string builders.

StrTok is an arbitrary (unknown) str; Rope is a concatenation of literal pieces,
tokens and transformed tokens.  Only the operations used by segno.helpers are
given meaning; everything else is Unsupported (undecided, never a verdict)."""
import z3
from .sym import SBool, Unsupported
from .values import cur


class Piece:
    """('tok', t) raw token | ('esc', table_name, inner) | ('quote', inner) | ('upper', inner) | ('enc', inner, codec)"""

    def __init__(self, kind, *args):
        self.kind = kind
        self.args = args

    def key(self):
        return (self.kind,) + tuple(a.key() if isinstance(a, (Piece, StrTok)) else a for a in self.args)

    def __repr__(self):
        return '%s(%s)' % (self.kind, ', '.join(repr(a) for a in self.args))

    def tokens(self):
        out = []
        for a in self.args:
            if isinstance(a, StrTok):
                out.append(a)
            elif isinstance(a, Piece):
                out.extend(a.tokens())
        return out


def _opaque_bool(name):
    return SBool(z3.Bool(name))


class _TextBase:
    is_text = True

    def pieces(self):
        raise NotImplementedError

    def __add__(self, o):
        return Rope(self.pieces() + _pieces_of(o))

    def __radd__(self, o):
        return Rope(_pieces_of(o) + self.pieces())

    __iadd__ = __add__

    def __str__(self):
        raise Unsupported('native str() of opaque text')

    def __iter__(self):
        raise Unsupported('iteration over opaque text')

    def __len__(self):
        raise Unsupported('len() of opaque text')

    def __hash__(self):
        return id(self)


class StrTok(_TextBase):
    def __init__(self, name):
        self.name = name

    def key(self):
        return ('tok', self.name)

    def pieces(self):
        return [Piece('tok', self)]

    def __repr__(self):
        return '<%s>' % self.name

    def nonempty(self):
        return _opaque_bool('nonempty_%s' % self.name)

    def eq_const(self, s):
        return _opaque_bool('eq_%s_%s' % (self.name, ''.join(c if c.isalnum() else '_' for c in s)))


class Rope(_TextBase):
    def __init__(self, pieces):
        out = []
        for p in pieces:
            if isinstance(p, str):
                if not p:
                    continue
                if out and isinstance(out[-1], str):
                    out[-1] += p
                else:
                    out.append(p)
            else:
                out.append(p)
        self.ps = out

    def pieces(self):
        return list(self.ps)

    def key(self):
        return tuple(p if isinstance(p, str) else p.key() for p in self.ps)

    def __repr__(self):
        return 'Rope(%r)' % (self.ps,)


def _pieces_of(o):
    if isinstance(o, str):
        return [o]
    if isinstance(o, _TextBase):
        return o.pieces()
    if isinstance(o, Piece):
        return [o]
    raise Unsupported('concatenation of text with %s' % type(o).__name__)


def is_text(v):
    return isinstance(v, (_TextBase, Piece))


def wrap(kind, v, *extra):
    """apply a transformation to an opaque text value"""
    if isinstance(v, StrTok):
        return Rope([Piece(kind, v, *extra)])
    if isinstance(v, Rope):
        out = []
        for p in v.ps:
            if isinstance(p, str):
                out.append(('lit-' + kind, p))
            else:
                out.append(Piece(kind, p, *extra))
        if any(isinstance(p, tuple) for p in out):
            raise Unsupported('%s of text with literal parts' % kind)
        return Rope(out)
    raise Unsupported('%s of %s' % (kind, type(v).__name__))


def join(sep, items):
    out = []
    first = True
    for it in items:
        if not first:
            out.append(sep)
        first = False
        out.extend(_pieces_of(it))
    return Rope(out)


def format_positional(fmt, args):
    """'..{0}..{1}..'.format(*args) with plain positional fields"""
    import string
    out = []
    auto = 0
    for lit, field, spec, conv in string.Formatter().parse(fmt):
        out.append(lit)
        if field is None:
            continue
        if spec or conv:
            raise Unsupported('format spec on opaque text')
        if field == '':
            idx = auto
            auto += 1
        else:
            idx = int(field)
        out.extend(_pieces_of(args[idx]))
    return Rope(out)
