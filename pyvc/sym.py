"""Symbolic values for pyvc.

SInt / SBool wrap z3 integer / boolean terms and carry an optional interval
(lo, hi) that is used only to short-cut solver calls.  Python integers are
mathematical integers, so z3 Int is the exact model (no machine arithmetic).

Any attempt to *concretise* a symbolic value natively (bool(), int(), index)
raises ConcretizeError: native code can therefore never silently branch on a
symbolic value; the interpreter turns that into `unsupported` (undecided),
never into a verdict.
"""
import z3

_counter = [0]


class Unsupported(Exception):
    """Construct outside the modelled subset -> obligation is UNDECIDED."""


class ConcretizeError(Unsupported):
    pass


def fresh_name(prefix):
    _counter[0] += 1
    return '%s!%d' % (prefix, _counter[0])


def _iv(x):
    """interval of a python int / SInt"""
    if isinstance(x, bool):
        return (int(x), int(x))
    if isinstance(x, int):
        return (x, x)
    return (x.lo, x.hi)


def _z(x):
    if isinstance(x, SInt):
        return x.e
    if isinstance(x, bool):
        return _iv_z3(int(x))
    if isinstance(x, int):
        return _iv_z3(x)
    if isinstance(x, SBool):
        return z3.If(x.e, _iv_z3(1), _iv_z3(0))
    raise Unsupported('not an integer value: %r' % (type(x),))


def is_sym(x):
    return isinstance(x, (SInt, SBool))


def _add_iv(a, b):
    return (None if a[0] is None or b[0] is None else a[0] + b[0],
            None if a[1] is None or b[1] is None else a[1] + b[1])


def _neg_iv(a):
    return (None if a[1] is None else -a[1], None if a[0] is None else -a[0])


def _mul_iv(a, b):
    if None in a or None in b:
        # constant factor cases
        if a[0] is not None and a[0] == a[1]:
            a, b = b, a
        if b[0] is not None and b[0] == b[1]:
            c = b[0]
            if c == 0:
                return (0, 0)
            lo, hi = a
            if c > 0:
                return (None if lo is None else lo * c, None if hi is None else hi * c)
            return (None if hi is None else hi * c, None if lo is None else lo * c)
        return (None, None)
    cands = [a[0] * b[0], a[0] * b[1], a[1] * b[0], a[1] * b[1]]
    return (min(cands), max(cands))


class SBool:
    __slots__ = ('e',)

    def __init__(self, e):
        self.e = e

    def __bool__(self):
        raise ConcretizeError('bool() of symbolic boolean')

    def __repr__(self):
        return 'SBool(%s)' % (self.e,)

    # integer-like use of a bool
    def __add__(self, o):
        return SInt(_z(self), 0, 1) + o
    __radd__ = __add__

    def __mul__(self, o):
        return SInt(_z(self), 0, 1) * o
    __rmul__ = __mul__

    def __eq__(self, o):
        if isinstance(o, SBool):
            return mk_bool(self.e == o.e)
        if isinstance(o, bool):
            return self if o else s_not(self)
        return SInt(_z(self), 0, 1) == o

    def __ne__(self, o):
        return s_not(self.__eq__(o))

    def __xor__(self, o):
        if isinstance(o, (bool, SBool)):
            return mk_bool(z3.Xor(self.e, zb(o)))
        return SInt(_z(self), 0, 1) ^ o
    __rxor__ = __xor__

    __hash__ = None


def zb(x):
    """z3 Bool term of a python bool / SBool / int-like truth value"""
    if isinstance(x, SBool):
        return x.e
    if isinstance(x, bool):
        return z3.BoolVal(x)
    if isinstance(x, SInt):
        return x.e != 0
    if isinstance(x, int):
        return z3.BoolVal(x != 0)
    if x is None:
        return z3.BoolVal(False)
    raise Unsupported('truth value of %r' % (type(x),))


def mk_bool(e):
    if z3.is_true(e):
        return True
    if z3.is_false(e):
        return False
    return SBool(e)


def s_not(a):
    if isinstance(a, SBool):
        return mk_bool(z3.Not(a.e))
    return not truthy_concrete(a)


def truthy_concrete(a):
    if isinstance(a, (SInt, SBool)):
        raise ConcretizeError('truth of symbolic value')
    return bool(a)


def s_and(*xs):
    out = []
    for x in xs:
        if isinstance(x, (SBool, SInt)):
            out.append(zb(x))
        elif not x:
            return False
    if not out:
        return True
    return mk_bool(z3.And(*out)) if len(out) > 1 else mk_bool(out[0])


def s_or(*xs):
    out = []
    for x in xs:
        if isinstance(x, (SBool, SInt)):
            out.append(zb(x))
        elif x:
            return True
    if not out:
        return False
    return mk_bool(z3.Or(*out)) if len(out) > 1 else mk_bool(out[0])


def s_implies(a, b):
    return s_or(s_not(a), b)


def s_ite(c, a, b):
    """if-then-else on (possibly) symbolic condition, integer/bool values"""
    if not isinstance(c, (SBool, SInt)):
        return a if c else b
    if isinstance(a, (bool, SBool)) and isinstance(b, (bool, SBool)):
        return mk_bool(z3.If(zb(c), zb(a), zb(b)))
    if a is b:
        return a
    ia, ib = _iv(a), _iv(b)
    lo = None if ia[0] is None or ib[0] is None else min(ia[0], ib[0])
    hi = None if ia[1] is None or ib[1] is None else max(ia[1], ib[1])
    return SInt(z3.If(zb(c), _z(a), _z(b)), lo, hi)


def _pow2(k):
    return 1 << k


_INTVALS = {}


def _iv_z3(n):
    v = _INTVALS.get(n)
    if v is None:
        v = z3.IntVal(n)
        if -1024 <= n <= 70000:
            _INTVALS[n] = v
    return v


ATOMS = []      # atom id -> z3 Int term (reset at the start of every path)
_ATOM_IDS = {}  # z3 ast id -> atom id


def reset_atoms():
    del ATOMS[:]
    _ATOM_IDS.clear()


def _atom(e):
    k = e.get_id()
    a = _ATOM_IDS.get(k)
    if a is None:
        a = len(ATOMS)
        ATOMS.append(e)
        _ATOM_IDS[k] = a
    return a


class SInt:
    """symbolic integer kept as a linear form  c + sum coeff_i * atom_i  over
    opaque z3 integer terms (atoms); the z3 term is built lazily."""
    __slots__ = ('lin', 'c', 'lo', 'hi', '_e')

    def __init__(self, e=None, lo=None, hi=None, lin=None, c=0):
        if lin is None:
            if z3.is_int_value(e):
                lin, c = {}, e.as_long()
            else:
                lin = {_atom(e): 1}
            self._e = e
        else:
            self._e = None
        self.lin = lin
        self.c = c
        self.lo = lo
        self.hi = hi

    @property
    def e(self):
        e = self._e
        if e is None:
            terms = []
            for a, k in self.lin.items():
                t = ATOMS[a]
                terms.append(t if k == 1 else _iv_z3(k) * t)
            if self.c or not terms:
                terms.append(_iv_z3(self.c))
            e = terms[0] if len(terms) == 1 else z3.Sum(terms)
            self._e = e
        return e

    # ---- concretisation is forbidden
    def __bool__(self):
        raise ConcretizeError('bool() of symbolic int')

    def __index__(self):
        raise ConcretizeError('index() of symbolic int')

    def __int__(self):
        raise ConcretizeError('int() of symbolic int')

    def __str__(self):
        raise ConcretizeError('str() of symbolic int')

    __hash__ = None

    def __repr__(self):
        return 'SInt(%s)' % (self.e,)

    # ---- arithmetic
    def __add__(self, o):
        if isinstance(o, SBool):
            o = SInt(_z(o), 0, 1)
        if isinstance(o, SInt):
            lin = dict(self.lin)
            for a, k in o.lin.items():
                n = lin.get(a, 0) + k
                if n:
                    lin[a] = n
                else:
                    lin.pop(a, None)
            lo, hi = _add_iv((self.lo, self.hi), (o.lo, o.hi))
            if not lin:
                return self.c + o.c
            return SInt(lin=lin, c=self.c + o.c, lo=lo, hi=hi)
        if isinstance(o, int):
            o = int(o)
            if o == 0:
                return self
            return SInt(lin=self.lin, c=self.c + o,
                        lo=None if self.lo is None else self.lo + o,
                        hi=None if self.hi is None else self.hi + o)
        return NotImplemented
    __radd__ = __add__

    def __neg__(self):
        lo, hi = _neg_iv((self.lo, self.hi))
        return SInt(lin={a: -k for a, k in self.lin.items()}, c=-self.c, lo=lo, hi=hi)

    def __pos__(self):
        return self

    def __sub__(self, o):
        if isinstance(o, SBool):
            o = SInt(_z(o), 0, 1)
        if isinstance(o, SInt):
            return self + (-o)
        if isinstance(o, int):
            return self + (-int(o))
        return NotImplemented

    def __rsub__(self, o):
        return (-self) + o

    def __mul__(self, o):
        if isinstance(o, SBool):
            o = SInt(_z(o), 0, 1)
        if isinstance(o, SInt):
            if not o.lin:
                return self * o.c
            if not self.lin:
                return o * self.c
            lo, hi = _mul_iv((self.lo, self.hi), (o.lo, o.hi))
            # distribute: (sum a_i x_i + c)(sum b_j y_j + d); products x_i*y_j become atoms
            lin = {}

            def add(a, k):
                n = lin.get(a, 0) + k
                if n:
                    lin[a] = n
                else:
                    lin.pop(a, None)
            for a, ka in self.lin.items():
                for b, kb in o.lin.items():
                    x, y = (a, b) if a <= b else (b, a)
                    add(_atom(ATOMS[x] * ATOMS[y]), ka * kb)
                if o.c:
                    add(a, ka * o.c)
            if self.c:
                for b, kb in o.lin.items():
                    add(b, kb * self.c)
            if not lin:
                return self.c * o.c
            return SInt(lin=lin, c=self.c * o.c, lo=lo, hi=hi)
        if isinstance(o, int):
            o = int(o)
            if o == 1:
                return self
            if o == 0:
                return 0
            lo, hi = _mul_iv((self.lo, self.hi), (o, o))
            return SInt(lin={a: k * o for a, k in self.lin.items()}, c=self.c * o, lo=lo, hi=hi)
        return NotImplemented
    __rmul__ = __mul__

    def _divmod_const(self, d):
        if not isinstance(d, int) or isinstance(d, bool) or d <= 0:
            raise Unsupported('// or % by non-constant or non-positive divisor')
        return d

    def __floordiv__(self, o):
        d = self._divmod_const(o)
        if d == 1:
            return self
        if all(k % d == 0 for k in self.lin.values()):
            # (d*X + c) // d == X + c // d
            lo = None if self.lo is None else self.lo // d
            hi = None if self.hi is None else self.hi // d
            return SInt(lin={a: k // d for a, k in self.lin.items()}, c=self.c // d, lo=lo, hi=hi)
        lo = None if self.lo is None else self.lo // d
        hi = None if self.hi is None else self.hi // d
        # z3 Int division is Euclidean; with a positive divisor it is floor division
        return SInt(self.e / _iv_z3(d), lo, hi)

    def __rfloordiv__(self, o):
        raise Unsupported('int // symbolic')

    def __mod__(self, o):
        d = self._divmod_const(o)
        if self.lo is not None and self.hi is not None and 0 <= self.lo and self.hi < d:
            return self
        # (sum k_i x_i + c) mod d == (sum (k_i mod d) x_i + c mod d) mod d
        lin = {a: k % d for a, k in self.lin.items() if k % d}
        if not lin:
            return self.c % d
        red = SInt(lin=lin, c=self.c % d)
        return SInt(red.e % _iv_z3(d), 0, d - 1)

    def __rmod__(self, o):
        raise Unsupported('int % symbolic')

    def __divmod__(self, o):
        return (self // o, self % o)

    def __rshift__(self, k):
        if not isinstance(k, int) or isinstance(k, SInt) or k < 0:
            raise Unsupported('>> by symbolic amount')
        # x >> k == floor(x / 2**k) for all Python ints
        return self // _pow2(k) if k else self

    def __lshift__(self, k):
        if not isinstance(k, int) or isinstance(k, SInt) or k < 0:
            raise Unsupported('<< by symbolic amount')
        return self * _pow2(k)

    def __and__(self, m):
        if isinstance(m, SInt):
            if self.lo == 0 and self.hi == 1 and m.lo == 0 and m.hi == 1:
                return SInt(self.e * m.e, 0, 1)
            raise Unsupported('& of two symbolic ints')
        if isinstance(m, int) and m >= 0 and (m & (m + 1)) == 0:
            # mask 2**k - 1: x & m == x mod 2**k for all Python ints
            return self % (m + 1) if m else 0
        raise Unsupported('& with mask %r' % (m,))
    __rand__ = __and__

    def __or__(self, o):
        # only the disjoint-bits case (hi << 8) | lo
        a, b = self, o
        ia, ib = _iv(a), _iv(b)
        for x, y, ix, iy in ((a, b, ia, ib), (b, a, ib, ia)):
            if iy[0] is not None and iy[0] >= 0 and iy[1] is not None:
                k = iy[1].bit_length()
                if _is_multiple_of_pow2(x, k):
                    return x + y
        raise Unsupported('| on overlapping / unknown bit ranges')
    __ror__ = __or__

    def __xor__(self, o):
        if isinstance(o, SBool):
            o = SInt(_z(o), 0, 1)
        if isinstance(o, bool):
            o = int(o)
        if isinstance(o, int) and not isinstance(o, SInt):
            if o == 0:
                return self
            if o == 1 and self.lo == 0 and self.hi == 1:
                return 1 - self
            raise Unsupported('^ with constant %r on non-bit' % (o,))
        if isinstance(o, SInt) and self.lo == 0 and self.hi == 1 and o.lo == 0 and o.hi == 1:
            return SInt(z3.If(self.e == o.e, _iv_z3(0), _iv_z3(1)), 0, 1)
        raise Unsupported('^ of symbolic non-bit ints')
    __rxor__ = __xor__

    def __abs__(self):
        if self.lo is not None and self.lo >= 0:
            return self
        return SInt(z3.If(self.e >= 0, self.e, -self.e), 0, None)

    # ---- comparisons (decided by intervals / identical linear forms where possible)
    def _cmp(self, o, op):
        if isinstance(o, SBool):
            o = SInt(_z(o), 0, 1)
        if not isinstance(o, (int, SInt)):
            if op == '==':
                return False
            if op == '!=':
                return True
            raise Unsupported('comparison of symbolic int with %r' % (type(o),))
        d = self - o          # compare d with 0
        if not isinstance(d, SInt):
            d = int(d)
            return {'<': d < 0, '<=': d <= 0, '>': d > 0, '>=': d >= 0, '==': d == 0, '!=': d != 0}[op]
        a, b = _iv(self), _iv(o)
        if op == '<':
            if a[1] is not None and b[0] is not None and a[1] < b[0]:
                return True
            if a[0] is not None and b[1] is not None and a[0] >= b[1]:
                return False
            return SBool(self.e < _z(o))
        if op == '<=':
            if a[1] is not None and b[0] is not None and a[1] <= b[0]:
                return True
            if a[0] is not None and b[1] is not None and a[0] > b[1]:
                return False
            return SBool(self.e <= _z(o))
        if op == '>':
            if a[0] is not None and b[1] is not None and a[0] > b[1]:
                return True
            if a[1] is not None and b[0] is not None and a[1] <= b[0]:
                return False
            return SBool(self.e > _z(o))
        if op == '>=':
            if a[0] is not None and b[1] is not None and a[0] >= b[1]:
                return True
            if a[1] is not None and b[0] is not None and a[1] < b[0]:
                return False
            return SBool(self.e >= _z(o))
        if op == '==':
            if (a[1] is not None and b[0] is not None and a[1] < b[0]) or \
               (a[0] is not None and b[1] is not None and a[0] > b[1]):
                return False
            return SBool(self.e == _z(o))
        if op == '!=':
            return s_not(self._cmp(o, '=='))
        raise AssertionError(op)

    def __lt__(self, o):
        return self._cmp(o, '<')

    def __le__(self, o):
        return self._cmp(o, '<=')

    def __gt__(self, o):
        return self._cmp(o, '>')

    def __ge__(self, o):
        return self._cmp(o, '>=')

    def __eq__(self, o):
        return self._cmp(o, '==')

    def __ne__(self, o):
        return self._cmp(o, '!=')


def _is_multiple_of_pow2(x, k):
    """syntactic check that x is a multiple of 2**k (x built as y * 2**j, j >= k)"""
    if isinstance(x, int):
        return x % (1 << k) == 0
    m = 1 << k
    return x.c % m == 0 and all(c % m == 0 for c in x.lin.values())


def fresh_int(prefix, lo=None, hi=None):
    return SInt(z3.Int(fresh_name(prefix)), lo, hi)


def named_int(name, lo=None, hi=None):
    return SInt(z3.Int(name), lo, hi)


def fresh_bool(prefix):
    return SBool(z3.Bool(fresh_name(prefix)))


def range_constraints(x):
    """z3 constraints expressing the interval annotation of x"""
    out = []
    if isinstance(x, SInt):
        if x.lo is not None:
            out.append(x.e >= x.lo)
        if x.hi is not None:
            out.append(x.e <= x.hi)
    return out


def s_min(a, b):
    c = (a <= b)
    if isinstance(c, bool):
        return a if c else b
    return s_ite(c, a, b)


def s_max(a, b):
    c = (a >= b)
    if isinstance(c, bool):
        return a if c else b
    return s_ite(c, a, b)


def same_value(a, b):
    """True if a and b are definitely the same value (syntactic), False if
    definitely different (both concrete), None if a solver is needed."""
    if isinstance(a, SInt) and isinstance(b, SInt):
        if a.lin == b.lin and a.c == b.c:
            return True
        return None
    if isinstance(a, (SInt, SBool)) or isinstance(b, (SInt, SBool)):
        if isinstance(a, SBool) and isinstance(b, SBool) and a.e.eq(b.e):
            return True
        return None
    return a == b


class QForall:
    """universally quantified integer-indexed fact  forall j. body(j), kept as a
    Python function so that it is instantiated explicitly (at the skolem constants
    of the obligations) instead of being handed to the solver as a quantifier.
    Obliged: body(fresh skolem) must be valid.  Assumed: body(t) is added for every
    registered index term t (sound: instances of a universally quantified assumption)."""

    def __init__(self, body, name='q'):
        self.body = body
        self.name = name


class SQuant:
    """truth value  (nonempty => n > 0) and forall k in [0, n): body(k)  of a bounded
    universal statement over an integer index (e.g. bytes.isdigit(), a character-class
    regular expression).  Deciding it forks into: holds (assumed as QForall) /
    fails with a skolem witness / (if nonempty) n == 0."""

    def __init__(self, n, body, nonempty=False, name='q'):
        self.n = n
        self.body = body
        self.nonempty = nonempty
        self.name = name

    def __bool__(self):
        raise ConcretizeError('bool() of quantified condition')


class SRatio:
    """exact quotient num / den of a symbolic integer and a positive constant (Python true division of
    ints, treated as an exact rational: floats are exact for the magnitudes that occur, stated assumption)"""

    def __init__(self, num, den):
        self.num = num
        self.den = den

    def ceil(self):
        return (self.num + (self.den - 1)) // self.den

    def floor(self):
        return self.num // self.den
