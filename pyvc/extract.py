"""Extraction: the verified text is the code that runs.

Every run parses /repo/segno/*.py (the working tree) with `ast` and indexes
every function / method / nested function by its Python qualname.  Dropped:
comments, docstrings (they are constant expression statements and evaluate to
nothing), type comments.  Nothing is rewritten.
"""
import ast
import hashlib
import importlib
import os
import sys

REPO = os.environ.get('PYVC_REPO', '/repo')


class ModuleInfo:
    def __init__(self, modname):
        self.modname = modname
        self.module = importlib.import_module(modname)
        self.path = self.module.__file__
        with open(self.path, 'rb') as f:
            src = f.read()
        self.sha256 = hashlib.sha256(src).hexdigest()
        self.source = src.decode('utf-8')
        self.tree = ast.parse(self.source, self.path)
        self.by_qualname = {}
        self.by_line = {}
        self.classes = {}
        self._index(self.tree.body, '')

    def _index(self, body, prefix):
        for node in body:
            if isinstance(node, (ast.FunctionDef, ast.AsyncFunctionDef)):
                qn = prefix + node.name
                self.by_qualname[qn] = node
                self.by_line[node.lineno] = (qn, node)
                for d in node.decorator_list:
                    self.by_line.setdefault(d.lineno, (qn, node))
                self._index_nested(node.body, qn + '.<locals>.')
            elif isinstance(node, ast.ClassDef):
                qn = prefix + node.name
                self.classes[qn] = node
                self._index(node.body, qn + '.')
            elif isinstance(node, (ast.If, ast.Try)):
                for sub in ast.iter_child_nodes(node):
                    if isinstance(sub, list):
                        self._index(sub, prefix)

    def _index_nested(self, body, prefix):
        for node in body:
            for sub in ast.walk(node):
                if isinstance(sub, (ast.FunctionDef,)):
                    qn = prefix + sub.name
                    if qn not in self.by_qualname:
                        self.by_qualname[qn] = sub
                        self.by_line.setdefault(sub.lineno, (qn, sub))

    def func_hash(self, qualname):
        node = self.by_qualname[qualname]
        return hashlib.sha256(ast.dump(node).encode()).hexdigest()[:16]


_modules = {}


def ensure_repo_on_path():
    if REPO not in sys.path:
        sys.path.insert(0, REPO)


def get_module(modname):
    ensure_repo_on_path()
    mi = _modules.get(modname)
    if mi is None:
        mi = ModuleInfo(modname)
        _modules[modname] = mi
        mod = mi.module
        assert os.path.realpath(mod.__file__).startswith(os.path.realpath(REPO) + os.sep), \
            'segno imported from %s, not from %s' % (mod.__file__, REPO)
    return mi


def loops_of(func_node):
    """For/While statements of a function in pre-order, nested defs excluded."""
    out = []

    def walk(stmts):
        for s in stmts:
            if isinstance(s, (ast.FunctionDef, ast.ClassDef, ast.Lambda)):
                continue
            if isinstance(s, (ast.For, ast.While)):
                out.append(s)
            for fld in ('body', 'orelse', 'finalbody'):
                sub = getattr(s, fld, None)
                if isinstance(sub, list):
                    walk(sub)
            if isinstance(s, ast.Try):
                for h in s.handlers:
                    walk(h.body)
            if isinstance(s, ast.With):
                pass
    walk(func_node.body)
    return out


def assigned_names(stmts):
    """names (re)bound by a statement list (nested defs excluded)"""
    names = set()

    def tgt(t):
        if isinstance(t, ast.Name):
            names.add(t.id)
        elif isinstance(t, (ast.Tuple, ast.List)):
            for e in t.elts:
                tgt(e)
        elif isinstance(t, ast.Starred):
            tgt(t.value)

    def walk(stmts):
        for s in stmts:
            if isinstance(s, (ast.FunctionDef, ast.ClassDef)):
                names.add(s.name)
                continue
            if isinstance(s, ast.Assign):
                for t in s.targets:
                    tgt(t)
            elif isinstance(s, (ast.AugAssign, ast.AnnAssign)):
                tgt(s.target)
            elif isinstance(s, ast.For):
                tgt(s.target)
            elif isinstance(s, ast.With):
                for it in s.items:
                    if it.optional_vars is not None:
                        tgt(it.optional_vars)
            for sub in ast.walk(s) if not isinstance(s, (ast.For, ast.While, ast.If, ast.Try, ast.With)) else ():
                if isinstance(sub, ast.NamedExpr):
                    tgt(sub.target)
            for fld in ('body', 'orelse', 'finalbody'):
                sub = getattr(s, fld, None)
                if isinstance(sub, list):
                    walk(sub)
            if isinstance(s, ast.Try):
                for h in s.handlers:
                    if h.name:
                        names.add(h.name)
                    walk(h.body)
    walk(stmts)
    return names
