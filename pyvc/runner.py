"""Check driver: runs the obligation tasks of one property on a process pool,
replays refuted obligations natively, applies the known-findings file, writes
evidence and prints the verdict lines.

Exit codes: 0 held (known findings printed) / 1 violation (replayed) /
2 undecided / 3 checker broken (crash, zero obligations, vacuity).
"""
import hashlib
import importlib
import json
import multiprocessing as mp
import os
import subprocess
import sys
import time
import traceback

VERIF = os.path.dirname(os.path.dirname(os.path.abspath(__file__)))
# PYVC_EVIDENCE: scratch runs of the development tools (seeds, mutants, refactorings against a scratch worktree) write their evidence elsewhere,
# so that they cannot clobber the evidence of /repo itself; the registered commands never set it
EVID = os.environ.get('PYVC_EVIDENCE') or os.path.join(VERIF, 'evidence')
REPLAY_DIR = os.path.join(EVID, 'replay')
NATIVE_PY = '/venv/bin/python'


class Task:
    """one unit of verification work (picklable description)"""

    def __init__(self, name, module, func, args=(), backend='smt', fuc=(), weight=1):
        self.name = name
        self.module = module
        self.func = func
        self.args = tuple(args)
        self.backend = backend
        self.fuc = tuple(fuc)      # functions under contract touched by this task
        self.weight = weight


_BUDGET_HITS = mp.Value('i', 0)     # shared with the forked workers: number of tasks of this check that ran out of time


def _run_task(task):
    """worker: returns a plain dict"""
    sys.path.insert(0, VERIF)
    from pyvc import extract
    extract.ensure_repo_on_path()
    from pyvc.interp import Interp
    from pyvc.sym import Unsupported
    t0 = time.time()
    out = dict(task=task.name, backend=task.backend, records=[], failures=[], error=None,
               unsupported=None, fuc=list(task.fuc), wall=0.0, paths=0, solver_checks=0, solver_s=0.0,
               samples=[])
    I = Interp()
    I.task = task
    # wall-clock budget of one task: code that makes the exploration blow up (e.g. a data dependent branch where the pinned code has
    # none) must end as UNDECIDED (exit 2), not hang the check
    import signal
    quick = os.environ.get('PYVC_TIER', 'quick') == 'quick'
    budget = float(os.environ.get('PYVC_TASK_BUDGET') or ((900 if task.backend in ('cc-sym', 'gf-lin') else 1800) if quick else 7200))
    if _BUDGET_HITS.value >= 16:
        out['unsupported'] = 'Unsupported: check aborted, 16 tasks exceeded their time budget (exploration does not terminate on this code)'
        return out
    remaining = float(os.environ.get('PYVC_DEADLINE', '0') or 0) - time.time()
    if os.environ.get('PYVC_DEADLINE') and remaining <= 1:
        out['unsupported'] = 'Unsupported: time budget of the whole check exhausted before this task started'
        return out
    if os.environ.get('PYVC_DEADLINE'):
        budget = max(1.0, min(budget, remaining))

    hit = []

    def on_alarm(signum, frame):
        if not hit:
            hit.append(1)
            with _BUDGET_HITS.get_lock():
                _BUDGET_HITS.value += 1
        raise Unsupported('time budget of the task exceeded (%d s): exploration does not terminate on this code' % budget)
    try:
        signal.signal(signal.SIGALRM, on_alarm)
        signal.setitimer(signal.ITIMER_REAL, budget, 2.0)
    except (ValueError, AttributeError):
        pass
    try:
        mod = importlib.import_module(task.module)
        fn = getattr(mod, task.func)
        fn(I, *task.args)
    except Unsupported as u:
        out['unsupported'] = '%s: %s' % (type(u).__name__, u)
    except Exception:
        out['error'] = traceback.format_exc()
    finally:
        try:
            signal.setitimer(signal.ITIMER_REAL, 0)
        except (ValueError, AttributeError):
            pass
    out['records'] = [r.to_json() for r in I.records.values()]
    out['failures'] = [dict(name=f.name, kind=f.kind, status=f.status, model=f.model, note=f.note,
                            replay=getattr(f, 'replay', None)) for f in I.failures]
    out['wall'] = time.time() - t0
    out['paths'] = I.paths
    out['solver_checks'] = I.stats['solver_checks']
    out['solver_s'] = I.stats['solver_s']
    out['samples'] = getattr(I, 'samples', [])[:3]
    return out


# obligations that are only SUFFICIENT for the property (proof steps): loop invariants and variants, and clauses a contract marks as such (the shape of
# the code: stage order, forwarding by identity, "nothing shared is written"). When one is refuted and the native replay - which tests BEHAVIOUR against the
# specification - finds no failing input, the proof is lost but no violation of the property is shown: the run is undecided (exit 2), not an alarm.
# Postconditions, raises clauses, table lemmas and bounded clauses are necessary conditions: refuted means violated.
SUFFICIENT_KINDS = ('sufficient', 'inv-establish', 'inv-preserve', 'variant')


def load_known_findings():
    p = os.path.join(VERIF, 'known_findings.json')
    if not os.path.exists(p):
        return []
    with open(p) as f:
        return json.load(f).get('entries', [])


def run_native(script_args, timeout=600):
    """run a pure-python replay under the interpreter the repository's tests use"""
    env = dict(os.environ)
    env['PYTHONPATH'] = os.environ.get('PYVC_REPO', '/repo') + os.pathsep + VERIF
    py = NATIVE_PY if os.path.exists(NATIVE_PY) else sys.executable
    p = subprocess.run([py] + script_args, capture_output=True, text=True, timeout=timeout, env=env, cwd=VERIF)
    return p.returncode, p.stdout, p.stderr


FALLBACK_REPLAY = dict([(p, dict(fn='replay_symbol_battery', prop=p)) for p in ('C01', 'C02', 'C03', 'C04', 'C05', 'C06', 'C07', 'C13', 'C14')] +
                       [('C15', dict(fn='replay_purity'))])


def replay_failure(prop, idx, fail):
    """writes the replay file and runs the native replay; returns (path, confirmed, detail)"""
    os.makedirs(REPLAY_DIR, exist_ok=True)
    path = os.path.join(REPLAY_DIR, '%s-%d.json' % (prop, idx))
    rec = dict(property=prop, obligation=fail['name'], kind=fail['kind'], status=fail['status'],
               model=fail['model'], note=fail['note'], replay=fail.get('replay'))
    with open(path, 'w') as f:
        json.dump(rec, f, indent=1, default=repr)
    if not fail.get('replay') and prop in FALLBACK_REPLAY:
        # obligations without a replay of their own: the behavioural battery of the property
        fail = dict(fail, replay=dict(FALLBACK_REPLAY[prop]))
        rec['replay'] = fail['replay']
        with open(path, 'w') as f:
            json.dump(rec, f, indent=1, default=repr)
    if not fail.get('replay'):
        rec['native'] = dict(confirmed=None, detail='no native replay defined for this obligation')
    else:
        try:
            rc, out, err = run_native([os.path.join(VERIF, 'replay.py'), path])
            try:
                nat = json.loads(out.strip().splitlines()[-1])
            except Exception:
                nat = dict(confirmed=None, detail='replay output unparsable: rc=%d out=%r err=%r' % (rc, out[-500:], err[-800:]))
            rec['native'] = nat
        except Exception as ex:
            rec['native'] = dict(confirmed=None, detail='replay failed to run: %r' % (ex,))
    if not rec['native'].get('confirmed') and prop in FALLBACK_REPLAY and (fail.get('replay') or {}).get('fn') != FALLBACK_REPLAY[prop]['fn']:
        # second chance: the obligation's own replay found no failing input; the behavioural battery of the property is tried as well
        try:
            rec2 = dict(rec, replay=dict(FALLBACK_REPLAY[prop]))
            rec2.pop('native', None)
            p2 = path[:-5] + '-battery.json'
            with open(p2, 'w') as f:
                json.dump(rec2, f, indent=1, default=repr)
            rc, out, err = run_native([os.path.join(VERIF, 'replay.py'), p2])
            nat2 = json.loads(out.strip().splitlines()[-1])
            os.unlink(p2)
            if nat2.get('confirmed'):
                rec['native_own_replay'] = rec['native']
                rec['native'] = nat2
        except Exception:
            pass
    with open(path, 'w') as f:
        json.dump(rec, f, indent=1, default=repr)
    return path, rec['native'].get('confirmed'), rec['native'].get('detail', '')


def load_ledger():
    try:
        with open(os.path.join(VERIF, 'ledger.json')) as f:
            return json.load(f).get('obligation_ids', {})
    except (OSError, ValueError):
        return {}


def assume_sites(task_modules):
    """mechanical scan of the contract modules used by a check: every place where a contract ASSUMES a fact (precondition of the
    function under contract, postcondition of a summarised callee, definitional axiom of a specification function, instance of a separately
    proved lemma, case split).  Listed in the evidence so that nothing assumed stays implicit."""
    out = []
    mods = set(task_modules) | {'contracts.common'}
    for m in sorted(mods):
        path = os.path.join(VERIF, *m.split('.')) + '.py'
        try:
            with open(path) as f:
                for no, line in enumerate(f, 1):
                    if '.assume(' in line and not line.lstrip().startswith('#'):
                        out.append('%s:%d: %s' % (os.path.relpath(path, VERIF), no, line.strip()[:160]))
        except OSError:
            pass
    return out


def file_hashes():
    from pyvc import extract
    out = {}
    repo = extract.REPO
    d = os.path.join(repo, 'segno')
    for fn in sorted(os.listdir(d)):
        if fn.endswith('.py'):
            with open(os.path.join(d, fn), 'rb') as f:
                out['segno/' + fn] = hashlib.sha256(f.read()).hexdigest()
    return out


def run_property(prop, contract_module, tier='quick', seed=0, procs=None, extra_evidence=None):
    t0 = time.time()
    sys.path.insert(0, VERIF)
    from pyvc import extract
    extract.ensure_repo_on_path()
    mod = importlib.import_module(contract_module)
    os.environ['PYVC_TIER'] = tier
    # budget of the whole check (all tasks): quick 90 min, thorough 8 h; normal runs take about a minute / a few minutes (the budgets
    # are sized for a machine that is several times oversubscribed: an unloaded run must never come near them)
    os.environ['PYVC_DEADLINE'] = repr(t0 + float(os.environ.get('PYVC_CHECK_BUDGET') or (5400 if tier == 'quick' else 28800)))
    tasks = mod.tasks(tier, seed)
    procs = procs or min(16, max(1, len(tasks)))
    tasks_sorted = sorted(tasks, key=lambda t: -t.weight)
    if procs > 1 and len(tasks) > 1:
        ctx = mp.get_context('fork')
        with ctx.Pool(procs) as pool:
            results = pool.map(_run_task, tasks_sorted, chunksize=1)
    else:
        results = [_run_task(t) for t in tasks_sorted]

    records = {}
    by_backend = {}
    failures = []
    crashed = []
    unsupported = []
    fuc = set()
    paths = 0
    solver_s = 0.0
    solver_checks = 0
    samples = []
    for r in results:
        paths += r['paths']
        solver_s += r['solver_s']
        solver_checks += r['solver_checks']
        fuc.update(r['fuc'])
        samples.extend(r.get('samples') or [])
        if r['error']:
            crashed.append((r['task'], r['error']))
        if r['unsupported']:
            unsupported.append((r['task'], r['unsupported']))
        for rec in r['records']:
            a = records.get(rec['name'])
            if a is None:
                a = records[rec['name']] = dict(rec)
                a['backend'] = r['backend']
            else:
                for k in ('instances', 'discharged', 'syntactic', 'refuted', 'undecided'):
                    a[k] += rec[k]
                a['solver_s'] = round(a['solver_s'] + rec['solver_s'], 4)
                a['max_s'] = max(a['max_s'], rec['max_s'])
            bb = by_backend.setdefault(r['backend'], dict(instances=0, discharged=0))
            bb['instances'] += rec['instances']
            bb['discharged'] += rec['discharged']
        for f in r['failures']:
            f['task'] = r['task']
            failures.append(f)

    n_inst = sum(a['instances'] for a in records.values() if a['kind'] not in ('probe', 'bounded'))
    n_dis = sum(a['discharged'] for a in records.values() if a['kind'] not in ('probe', 'bounded'))

    if os.path.isdir(REPLAY_DIR):
        for fn in os.listdir(REPLAY_DIR):
            if fn.startswith(prop + '-'):
                os.unlink(os.path.join(REPLAY_DIR, fn))
    known = [k for k in load_known_findings() if k.get('property') == prop]
    lines = []
    violations = []
    undecided = []
    known_hit = {}
    # one replay per distinct refuted obligation id (first counterexample)
    seen = {}
    idx = 0
    for f in failures:
        if f['status'] == 'undecided':
            undecided.append(f)
            continue
        if f['name'] in seen:
            seen[f['name']]['count'] += 1
            continue
        idx += 1
        kf = None
        for k in known:
            if k.get('status', 'finding') == 'finding' and k.get('obligation') == f['name']:
                kf = k
        path, confirmed, detail = replay_failure(prop, idx, f)
        ent = dict(f=f, path=path, confirmed=confirmed, detail=detail, count=1, known=kf)
        seen[f['name']] = ent
        if kf is not None:
            known_hit[kf['id']] = ent
        elif f['kind'] in SUFFICIENT_KINDS and not confirmed:
            # the obligation is only a SUFFICIENT condition of the property (e.g. "no function writes shared state" for purity): when it
            # fails and the native replay finds no behavioural difference, the argument is lost but the property is not shown to be violated
            undecided.append(dict(f, note='sufficient condition fails, no behavioural difference found natively (replay %s): %s' % (path, str(f.get('model'))[:160])))
        else:
            violations.append(ent)

    # findings handled inside contracts (region disjunction) report through records named kf:<id>
    kf_lines = []
    for k in known:
        if k.get('status', 'finding') != 'finding':
            continue
        probe = records.get('kf-probe:' + k['id'])
        if k['id'] in known_hit:
            kf_lines.append('KNOWN-FINDING: property=%s %s' % (prop, k['what']))
        elif probe is not None and probe['refuted'] > 0:
            kf_lines.append('KNOWN-FINDING: property=%s %s' % (prop, k['what']))

    rc = 0
    if crashed:
        rc = 3
        for name, err in crashed:
            lines.append('CHECKER-ERROR task=%s\n%s' % (name, err))
    level = getattr(mod, 'LEVEL', 'proof')
    n_bounded = sum(a['instances'] for a in records.values() if a['kind'] == 'bounded')
    if n_inst == 0 and not (level != 'proof' and n_bounded > 0):
        rc = 3
        lines.append('CHECKER-ERROR zero obligations generated for %s' % prop)
    # ledger: obligation ids discharged on the pinned tree must be generated again (a contract that no longer
    # attaches to the code - renamed function, changed loop structure - must not pass silently)
    missing = []
    led = load_ledger().get(prop)
    if led:
        missing = [n for n in led if n not in records]
    # bounded stand-in for obligations that are no longer generated (the function left the verifier's reach, e.g. a loop rewritten as a
    # regular expression): the native behavioural replay of the obligation (STANDIN_REPLAY of the contract module, by name prefix; else the
    # property's battery) is run without a model. A failing input found on the real code is a VIOLATION (labelled bounded stand-in); when
    # none is found the obligation stays UNDECIDED. Nothing is ever counted as proved by this route.
    if missing:
        table = list(getattr(mod, 'STANDIN_REPLAY', []))
        specs = []
        for n in missing:
            spec = next((sp for pre, sp in table if n.startswith(pre)), FALLBACK_REPLAY.get(prop))
            if spec and not any(sp == spec for _, sp in specs):
                specs.append((n, spec))
        for n, spec in specs[:6]:
            idx += 1
            f = dict(name=n, kind='standin', status='not-generated', model=None, task='ledger', replay=dict(spec),
                     note='obligation of the pinned tree is no longer generated (contract does not attach); bounded stand-in: native replay without a model')
            path, confirmed, detail = replay_failure(prop, idx, f)
            if confirmed:
                violations.append(dict(f=f, path=path, confirmed=True, detail=detail, count=1, known=None))
    if rc == 0 and (unsupported or undecided or missing):
        rc = 2
    for n in missing[:20]:
        lines.append('UNDECIDED obligation=%s reason=generated on the pinned tree (ledger.json) but not on this run' % n)
    for name, why in unsupported:
        lines.append('UNDECIDED task=%s reason=%s' % (name, why))
    for f in undecided[:20]:
        lines.append('UNDECIDED obligation=%s task=%s %s' % (f['name'], f['task'], f['note']))
    for ent in violations:
        f = ent['f']
        # probes are informational
        if f['name'].startswith('kf-probe:'):
            continue
        tail = '' if ent['confirmed'] else ' no-failing-input-found'
        lines.append('VIOLATION property=%s replay=%s obligation=%s%s' % (prop, ent['path'], f['name'], tail))
        rc = 1 if rc in (0, 2) else rc
    real_viol = [e for e in violations if not e['f']['name'].startswith('kf-probe:')]

    ev = dict(
        property_id=prop, tier=tier, seed=int(seed), level=level,
        coverage=dict(
            obligations=n_inst, discharged=n_dis,
            distinct_obligation_ids=len(records),
            checker_cmd='./check %s --tier %s' % (prop, tier),
            trusted_base=getattr(mod, 'TRUSTED_BASE', []),
            by_backend=by_backend,
            functions_under_contract=sorted(fuc),
            paths_explored=paths, solver_checks=solver_checks,
            solver_seconds=round(solver_s, 3),
            obligations_detail=sorted(records.values(), key=lambda a: a['name']),
            undecided=[dict(obligation=f['name'], task=f['task'], note=f['note']) for f in undecided] +
                      [dict(task=n, reason=w) for n, w in unsupported],
            refuted=[dict(obligation=e['f']['name'], replay=e['path'], native_confirmed=e['confirmed'],
                          detail=e['detail'][:400], instances=e['count'],
                          known_finding=(e['known'] or {}).get('id')) for e in seen.values()],
            known_findings=[l for l in kf_lines],
            ledger=dict(ids_expected=len(led or []), missing=missing),
            assume_sites=assume_sites({t.module for t in tasks}),
            bounded_clauses=[dict(clause=a['name'], evaluations=a['instances'], passed=a['discharged'],
                                  note='BOUNDED stand-in: run-time check of the contract on generated inputs; not counted in obligations/discharged')
                             for a in records.values() if a['kind'] == 'bounded'],
            source_sha256=file_hashes(),
            samples=samples[:8] or [dict(obligation=a['name'], instances=a['instances'], verdict='discharged' if a['discharged'] == a['instances'] else 'open')
                                    for a in list(records.values())[:5]],
            exhaustive=False,
        ),
        assumptions=getattr(mod, 'ASSUMPTIONS', []),
        wall_s=round(time.time() - t0, 2),
        violations=len(real_viol),
    )
    if level != 'proof':
        # exploration-style keys: every count is measured on this run
        bounded = [a for a in records.values() if a['kind'] == 'bounded']
        ev['coverage'].update(
            evaluations=n_bounded + n_inst,
            distinct_nontrivial=sum(a['instances'] for a in bounded),
            rule=getattr(mod, 'RULE', 'run-time contract of the real function on enumerated / seeded inputs; every case is a distinct '
                                      '(symbol, format, option) combination and non-trivial (a complete output file is produced and read back)'),
            explanation='bounded stand-in: contracts checked at run time by independent readers; deductive obligations (if any) are listed under obligations/discharged')
        if not ev['coverage']['samples']:
            ev['coverage']['samples'] = [dict(clause=a['name'], evaluations=a['instances']) for a in bounded[:5]]
    if extra_evidence:
        ev['coverage'].update(extra_evidence)
    if hasattr(mod, 'evidence_extra'):
        ev['coverage'].update(mod.evidence_extra(results))
    os.makedirs(EVID, exist_ok=True)
    with open(os.path.join(EVID, prop + '.json'), 'w') as f:
        json.dump(ev, f, indent=1, default=repr)
    for l in kf_lines:
        print(l)
    for l in lines:
        print(l)
    print('%s: %d obligations (%d ids), %d discharged, %d refuted ids, %d undecided, %d paths, %.1fs (solver %.1fs) -> exit %d'
          % (prop, n_inst, len(records), n_dis, len(seen), len(undecided) + len(unsupported), paths,
             time.time() - t0, solver_s, rc))
    return rc
