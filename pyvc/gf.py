"""gf-lin back end: bytes kept as GF(256)-linear forms  c xor sum_i k_i * d_i  over
symbolic data bytes d_i (k_i, c concrete field elements).  Table lookups
EXP[LOG[x] + g] are rewritten to the field multiplication x * alpha^g, which is
justified by the ground lemma C03.table.exp_log_is_field_multiplication over the
real tables (checked in the same run)."""
from .sym import Unsupported
from spec import gf as F


class GFLin:
    __slots__ = ('t', 'c')

    def __init__(self, terms=None, c=0):
        self.t = terms or {}
        self.c = c

    @staticmethod
    def var(i):
        return GFLin({i: 1})

    def is_zero(self):
        return not self.t and self.c == 0

    def scale(self, k):
        if k == 0:
            return 0
        if k == 1:
            return self
        lk = F.LOG[k]
        E, L = F.EXP, F.LOG
        return GFLin({v: E[L[a] + lk] for v, a in self.t.items()}, F.mul(self.c, k))

    def __xor__(self, o):
        if isinstance(o, GFLin):
            t = dict(self.t)
            for v, a in o.t.items():
                n = t.get(v, 0) ^ a
                if n:
                    t[v] = n
                else:
                    del t[v]
            c = self.c ^ o.c
            if not t:
                return c
            return GFLin(t, c)
        if isinstance(o, int):
            if o == 0:
                return self
            return GFLin(self.t, self.c ^ o)
        return NotImplemented
    __rxor__ = __xor__
    __ixor__ = __xor__

    def __ne__(self, o):
        if isinstance(o, int) and o == 0:
            return GFNonZero(self)
        raise Unsupported('comparison of GF linear form')

    def __eq__(self, o):
        if isinstance(o, GFLin):
            return self.t == o.t and self.c == o.c
        if isinstance(o, int) and o == 0 and not self.t:
            return self.c == 0
        raise Unsupported('comparison of GF linear form')

    __hash__ = None

    def __bool__(self):
        raise Unsupported('truth of GF linear form')

    def __index__(self):
        raise Unsupported('GF linear form used as index')

    def __repr__(self):
        return 'GFLin(%d terms, c=%d)' % (len(self.t), self.c)

    def proportional_factor(self, guard):
        """k with self == guard.scale(k), or None"""
        if not isinstance(guard, GFLin):
            return None
        if set(self.t) != set(guard.t):
            return None
        v0 = next(iter(guard.t))
        k = F.mul(self.t[v0], F.inv(guard.t[v0]))
        if guard.scale(k) == self:
            return k
        return None


class GFNonZero:
    def __init__(self, form):
        self.form = form


class GFLog:
    """LOG[x] for a linear form x known to be non-zero on the current (guarded) branch"""

    def __init__(self, form, add=0):
        self.form = form
        self.add = add

    def __add__(self, o):
        if isinstance(o, int):
            return GFLog(self.form, self.add + o)
        return NotImplemented
    __radd__ = __add__
