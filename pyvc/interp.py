"""pyvc symbolic interpreter over the Python AST of the real segno functions.

One call of `Interp.explore` enumerates all feasible paths of a function
(depth-first by re-execution with a decision prefix).  Values are concrete
Python objects or symbolic (sym.py / values.py).  Obligations are discharged
with z3 in the context of the path condition at the point where they arise.
"""
import ast
import builtins
import functools
import itertools
import math
import operator
import sys
import time
import types

import z3

from . import extract
from .gf import GFLin, GFNonZero, GFLog
from . import strings as T
from .sym import (SInt, SBool, Unsupported, ConcretizeError, fresh_int, fresh_bool, fresh_name,
                  s_and, s_or, s_not, s_ite, s_min, s_max, s_implies, zb, _z, mk_bool, is_sym,
                  range_constraints, same_value, _counter, reset_atoms, QForall, SQuant, SRatio)
from .values import (CUR, VBytearray, VBytes, SSeq, SMutSeq, SMatrix, SLazySeq, SIter, SBits, SRepeat, Obj, TupObj,
                     CountedList, OpaqueSeq, OpaqueElem, OpaqueIter, FieldBuf)

PKG = 'segno'


class PyRaise(Exception):
    """an exception of the interpreted program"""

    def __init__(self, exc):
        Exception.__init__(self, repr(exc))
        self.exc = exc


class PathEnd(Exception):
    """path cut (loop body verified against its invariant)"""


class Infeasible(Exception):
    pass


class _Signal:
    pass


class _Return(_Signal):
    __slots__ = ('value',)

    def __init__(self, v):
        self.value = v


_BREAK = object()
_CONTINUE = object()

INTERNAL = (Unsupported, PyRaise, PathEnd, Infeasible)


class Frame:
    __slots__ = ('locals', 'parent', 'globals', 'qualname', 'yields', 'modname', 'func_node', 'cls')

    def __init__(self, parent, globals_, qualname, modname, func_node=None, cls=None):
        self.locals = {}
        self.parent = parent
        self.globals = globals_
        self.qualname = qualname
        self.modname = modname
        self.yields = None
        self.func_node = func_node
        self.cls = cls


class Closure:
    """an interpreted function (module level function, method, nested def, lambda)"""

    def __init__(self, node, parent, globals_, qualname, modname, defaults, kwdefaults, cls=None):
        self.node = node
        self.parent = parent
        self.globals = globals_
        self.qualname = qualname
        self.modname = modname
        self.defaults = defaults
        self.kwdefaults = kwdefaults
        self.cls = cls
        self.__name__ = getattr(node, 'name', '<lambda>')
        self.is_generator = _is_generator(node)

    def __call__(self, *a, **k):
        return CUR[0].call_function(self, a, k)

    def __get__(self, obj, objtype=None):
        return self

    def __repr__(self):
        return '<Closure %s:%s>' % (self.modname, self.qualname)


class BoundMethod:
    def __init__(self, obj, func):
        self.obj = obj
        self.func = func

    def __call__(self, *a, **k):
        return CUR[0].call_function(self.func, (self.obj,) + a, k)


class SuperProxy:
    def __init__(self, cls, obj):
        self.cls = cls
        self.obj = obj


class SRange:
    def __init__(self, start, stop, step):
        self.start, self.stop, self.step = start, stop, step
        if not isinstance(step, int) or step <= 0:
            raise Unsupported('symbolic range with non-constant / non-positive step')

    def count(self):
        # number of iterations: max(0, ceil((stop - start) / step))
        return s_max((self.stop - self.start + (self.step - 1)) // self.step, 0)

    def at(self, k):
        return self.start + self.step * k


class SDigits:
    """string made of str(d) of symbolic single digits"""

    def __init__(self, digits):
        self.digits = list(digits)


def _is_generator(node):
    if isinstance(node, ast.Lambda):
        return False
    stack = list(node.body)
    while stack:
        n = stack.pop()
        if isinstance(n, (ast.FunctionDef, ast.Lambda, ast.ClassDef)):
            continue
        if isinstance(n, (ast.Yield, ast.YieldFrom)):
            return True
        stack.extend(ast.iter_child_nodes(n))
    return False


_PURE_NODES = (ast.Name, ast.Constant, ast.Compare, ast.BoolOp, ast.UnaryOp, ast.BinOp,
               ast.Attribute, ast.Load, ast.And, ast.Or, ast.Not, ast.USub, ast.UAdd,
               ast.Add, ast.Sub, ast.Mult, ast.Eq, ast.NotEq, ast.Lt, ast.LtE, ast.Gt, ast.GtE,
               ast.Is, ast.IsNot, ast.BitAnd, ast.BitXor, ast.Tuple, ast.In, ast.NotIn)


def _is_pure(node):
    for n in ast.walk(node):
        if not isinstance(n, _PURE_NODES):
            return False
    return True


class ObRecord:
    def __init__(self, name, kind):
        self.name = name
        self.kind = kind
        self.instances = 0
        self.discharged = 0
        self.trivial = 0
        self.refuted = 0
        self.undecided = 0
        self.seconds = 0.0
        self.max_seconds = 0.0

    def to_json(self):
        return dict(name=self.name, kind=self.kind, instances=self.instances,
                    discharged=self.discharged, syntactic=self.trivial, refuted=self.refuted,
                    undecided=self.undecided, solver_s=round(self.seconds, 4),
                    max_s=round(self.max_seconds, 4))


class Failure:
    def __init__(self, name, kind, status, model, note='', replay=None):
        self.name = name
        self.kind = kind
        self.status = status  # 'refuted' | 'undecided'
        self.model = model
        self.note = note
        self.replay = replay


class LoopSpec:
    """Loop contract, keyed by (function qualname, loop ordinal).

    inv(ctx)     -> list of (clause name, condition)
    havoc(ctx)   -> optional callback that havocs heap state modified by the loop
    variant(ctx) -> integer expression that must decrease and stay >= 0 (while loops)
    """

    def __init__(self, inv, havoc=None, variant=None, extra_havoc_names=(), pre_body=None, on_exit=None):
        self.inv = inv
        self.havoc = havoc
        self.variant = variant
        self.extra_havoc_names = tuple(extra_havoc_names)
        self.pre_body = pre_body    # ghost statements at the start of an arbitrary iteration (lemma / definition instances)
        self.on_exit = on_exit      # ghost statements / obligations on the exit path


class LoopCtx:
    def __init__(self, interp, frame, k, entry, itv):
        self.interp = interp
        self.frame = frame
        self.L = frame.locals
        self.k = k          # iteration counter (symbolic)
        self.entry = entry  # locals at loop entry (snapshot dict)
        self.it = itv       # the iterable value


class Interp:
    def __init__(self, timeout_ms=240000, feas_timeout_ms=10000):
        self.summaries = {}    # 'module:qualname' -> callable(interp, args, kwargs)
        self.native_summaries = {}   # (module, qualname) of a package function object (e.g. a decorated serialiser) -> callable(interp, f, args, kwargs)
        self.loopspecs = {}    # ('module:qualname', ordinal) -> LoopSpec
        self.records = {}      # obligation name -> ObRecord
        self.failures = []
        self.inputs = {}       # name -> symbolic input (for models)
        self.timeout_ms = timeout_ms
        self.feas_timeout_ms = feas_timeout_ms
        self.prefix_tag = ''
        self.closure_cache = {}
        self.unsupported = []
        self.paths = 0
        self.decides = 0
        self.extracted_roots = set()
        self.native_models = _build_models(self)
        self.method_models = _build_method_models(self)
        self.loop_ordinals = {}
        self.frame_depth = 0
        self.solver = None
        self.pc = []
        self.trace = []
        self.prefix = []
        self.modified_globals = []
        self.stats = dict(solver_checks=0, solver_s=0.0)
        self.qassumptions = []
        self.index_terms = []
        self.quant_log = []
        self.quant_witness = {}
        self.loop_k = {}
        self.gf_guard = None
        self.gf_tables = None
        self.gf_used_shifts = set()

    # ------------------------------------------------------------------ solver / path
    def _new_solver(self):
        s = z3.Solver()
        s.set('timeout', self.timeout_ms)
        return s

    def add_pc(self, e):
        self.pc.append(e)
        self.solver.add(e)

    def add_index_term(self, t):
        """register an index term: every assumed QForall is instantiated at it"""
        for u in self.index_terms:
            if same_value(u, t) is True:
                return
        self.index_terms.append(t)
        for q in self.qassumptions:
            self.assume(q.body(t))

    def assume(self, cond, quiet=False):
        if isinstance(cond, QForall):
            self.qassumptions.append(cond)
            for t in self.index_terms:
                self.assume(cond.body(t))
            return
        if isinstance(cond, bool):
            if not cond:
                raise Infeasible()
            return
        e = cond.e if isinstance(cond, SBool) else cond
        self.add_pc(e)

    def fresh_int(self, prefix, lo=None, hi=None):
        """fresh symbolic integer whose interval annotation is also asserted"""
        v = fresh_int(prefix, lo, hi)
        for c in range_constraints(v):
            self.add_pc(c)
        return v

    def concretize(self, x, lo, hi):
        """fork on the value of a symbolic integer known to lie in a small range"""
        if not isinstance(x, SInt):
            return x
        for c in range(lo, hi + 1):
            if self.decide(x == c):
                return c
        raise Unsupported('symbolic value outside %d..%d' % (lo, hi))

    def abbrev(self, x, name='t'):
        """fresh symbol constrained to equal x (keeps later terms small)"""
        if not isinstance(x, SInt):
            return x
        v = fresh_int(name, x.lo, x.hi)
        self.add_pc(v.e == x.e)
        return v

    def cached_term(self, key, build):
        """z3 term of a specification formula that is identical on every path of
        one exploration (input names are deterministic); built once"""
        cache = self.__dict__.setdefault('_term_cache', {})
        e = cache.get(key)
        if e is None:
            v = build()
            if isinstance(v, SInt):
                e = ('i', v.e, v.lo, v.hi)
            elif isinstance(v, SBool):
                e = ('b', v.e)
            else:
                e = ('c', v)
            cache[key] = e
        if e[0] == 'i':
            return SInt(e[1], e[2], e[3])
        if e[0] == 'b':
            return SBool(e[1])
        return e[1]

    def _check(self, extra, timeout):
        s = self.solver
        s.push()
        s.set('timeout', timeout)
        s.add(extra)
        t0 = time.time()
        r = s.check()
        dt = time.time() - t0
        self.stats['solver_checks'] += 1
        self.stats['solver_s'] += dt
        model = None
        if r == z3.sat:
            model = s.model()
        s.pop()
        return r, model, dt

    def feasible(self, e):
        r, _, _ = self._check(e, self.feas_timeout_ms)
        return r != z3.unsat

    def _snapshot(self):
        return (len(self.pc), len(self.qassumptions), len(self.index_terms))

    def _restore(self, snap):
        del self.pc[snap[0]:]
        del self.qassumptions[snap[1]:]
        del self.index_terms[snap[2]:]

    def choose(self, options):
        """n-way decision: options are callables that add their constraints to the path
        condition; returns the index of the option taken on this path (DFS over all
        feasible options by re-execution)."""
        pos = len(self.trace)
        self.decides += 1
        if pos < len(self.prefix):
            choice, rem = self.prefix[pos]
        else:
            alts = []
            for i, opt in enumerate(options):
                snap = self._snapshot()
                self.solver.push()
                ctr = _counter[0]
                try:
                    opt()
                    self.solver.set('timeout', self.feas_timeout_ms)
                    t0 = time.time()
                    r = self.solver.check()
                    self.stats['solver_checks'] += 1
                    self.stats['solver_s'] += time.time() - t0
                    ok = r != z3.unsat
                except Infeasible:
                    ok = False
                self.solver.pop()
                self._restore(snap)
                _counter[0] = ctr
                if ok:
                    alts.append(i)
            if not alts:
                raise Infeasible()
            choice, rem = alts[0], alts[1:]
        self.trace.append((choice, rem))
        options[choice]()
        return choice

    def decide_quant(self, q):
        """truth of an SQuant (see sym.SQuant)"""
        n = q.n
        res = {}

        def holds():
            if q.nonempty:
                self.assume(n > 0)
            self.assume(QForall(lambda k: s_implies(s_and(k >= 0, k < n), q.body(k)), q.name))

        def fails():
            sk = self.fresh_int('w_' + q.name, 0, None)
            self.assume(sk < n)
            self.assume(s_not(q.body(sk)))
            self.add_index_term(sk)
            self.quant_witness[q.name] = sk

        def empty():
            self.assume(n <= 0)
        opts = [holds, fails] + ([empty] if q.nonempty else [])
        c = self.choose(opts)
        self.quant_log.append((q.name, ('holds', 'fails', 'empty')[c]))
        return c == 0

    def decide(self, cond):
        if isinstance(cond, bool):
            return cond
        if isinstance(cond, SQuant):
            return self.decide_quant(cond)
        if isinstance(cond, SInt):
            cond = (cond != 0)
            if isinstance(cond, bool):
                return cond
        if not isinstance(cond, SBool):
            return bool(cond)
        e = cond.e
        if getattr(self, '_fold_probe_names', None):
            if _mentions(e, self._fold_probe_names):
                raise Unsupported('branch on an accumulator inside a loop over an abstracted list')
        pos = len(self.trace)
        self.decides += 1
        if pos < len(self.prefix):
            choice, rem = self.prefix[pos]
        else:
            t = self.feasible(e)
            f = self.feasible(z3.Not(e)) if t else True
            alts = [c for c, ok in ((True, t), (False, f)) if ok]
            if not alts:
                raise Infeasible()
            choice, rem = alts[0], alts[1:]
        self.trace.append((choice, rem))
        self.add_pc(e if choice else z3.Not(e))
        return choice

    def truth(self, v):
        if isinstance(v, (SBool, SInt, SQuant)):
            return self.decide(v)
        if isinstance(v, (bool, int, str, bytes, type(None), tuple, list, dict, float)):
            return bool(v)
        if isinstance(v, T.StrTok):
            return self.decide(v.nonempty())
        if isinstance(v, T.Rope):
            if any(isinstance(p, str) and p for p in v.ps):
                return True
            toks = [t for p in v.ps if not isinstance(p, str) for t in p.tokens()]
            if len(toks) == 1 and len(v.ps) == 1:
                return self.decide(toks[0].nonempty())
            raise Unsupported('truth of composite opaque text')
        if isinstance(v, VBytearray):
            return len(v.items) > 0
        if isinstance(v, SSeq):
            return self.decide(v.length > 0)
        if isinstance(v, SBits):
            return self.decide(v.length > 0)
        if isinstance(v, CountedList):
            return self.decide(v.total() > 0)
        if isinstance(v, TupObj):
            return len(v.items) > 0
        if isinstance(v, Obj):
            m = self.lookup_class_attr(v.cls, '__len__')
            if m is not None:
                return self.truth(self.call_function(m, (v,), {}) != 0)
            return True
        return bool(v)

    def select_concrete_list(self, items, idx):
        n = len(items)
        if n >= 2 and isinstance(idx, SInt) and idx.lo == 0 and idx.hi == 1 and \
                isinstance(items[0], (int, SInt)) and isinstance(items[1], (int, SInt)) and \
                not isinstance(items[0], bool) and not isinstance(items[1], bool):
            # index is a bit: items[0] + (items[1] - items[0]) * idx  (exact, no fork)
            return items[0] + (items[1] - items[0]) * idx
        neg = idx < 0
        if neg is True or (neg is not False and self.decide(neg)):
            idx = idx + n
        for i in range(n):
            if self.decide(idx == i):
                return items[i]
        raise IndexError('index out of range')

    def _check_byte_value(self, v):
        if isinstance(v, SInt):
            if not (v.lo is not None and v.hi is not None and v.lo >= 0 and v.hi <= 255):
                self.oblige('bytearray-store-range', s_and(v >= 0, v <= 255), kind='safety')
            return v
        if isinstance(v, SBool):
            return SInt(_z(v), 0, 1)
        if isinstance(v, bool):
            return int(v)
        if not isinstance(v, int):
            raise TypeError('an integer is required')
        if not 0 <= v <= 255:
            raise ValueError('byte must be in range(0, 256)')
        return v

    # ------------------------------------------------------------------ obligations
    def oblige(self, name, cond, kind='post', note=''):
        if isinstance(cond, QForall):
            sk = self.fresh_int('sk_' + cond.name)
            self.inputs.setdefault('skolem_' + cond.name, sk)
            self.add_index_term(sk)
            return self.oblige(name, cond.body(sk), kind, note)
        name = self.prefix_tag + name
        rec = self.records.get(name)
        if rec is None:
            rec = self.records[name] = ObRecord(name, kind)
        rec.instances += 1
        if cond is True or (isinstance(cond, int) and not isinstance(cond, (SInt,)) and not is_sym(cond) and cond):
            rec.discharged += 1
            rec.trivial += 1
            return True
        if is_sym(cond):
            e = zb(cond)
            r, model, dt = self._check(z3.Not(e), self.timeout_ms)
            rec.seconds += dt
            rec.max_seconds = max(rec.max_seconds, dt)
            if r == z3.unsat:
                rec.discharged += 1
                self.add_pc(e)
                return True
            if r == z3.sat:
                rec.refuted += 1
                self._fail(name, kind, 'refuted', self.model_values(model), note)
                self.add_pc(e)
                return False
            rec.undecided += 1
            self._fail(name, kind, 'undecided', None, note + ' solver: %s' % self.solver.reason_unknown())
            self.add_pc(e)
            return None
        # concretely false on a feasible path: counterexample is any model of pc
        r, model, dt = self._check(z3.BoolVal(True), self.timeout_ms)
        rec.seconds += dt
        if r == z3.unsat:
            rec.discharged += 1   # path infeasible
            raise Infeasible()
        if r == z3.sat:
            rec.refuted += 1
            self._fail(name, kind, 'refuted', self.model_values(model), note)
        else:
            rec.undecided += 1
            self._fail(name, kind, 'undecided', None, note + ' (path feasibility unknown)')
        raise PathEnd()

    def probe(self, fid, cond):
        """known-finding probe: is `cond` (the unmodified ISO clause on the finding's
        region) valid here?  Not an obligation; 'refuted' means the defect is still present."""
        name = 'kf-probe:' + fid
        rec = self.records.get(name)
        if rec is None:
            rec = self.records[name] = ObRecord(name, 'probe')
        rec.instances += 1
        if cond is True:
            rec.discharged += 1
            return
        if cond is False:
            rec.refuted += 1
            return
        r, model, dt = self._check(z3.Not(zb(cond)), self.timeout_ms)
        rec.seconds += dt
        if r == z3.unsat:
            rec.discharged += 1
        elif r == z3.sat:
            rec.refuted += 1
        else:
            rec.undecided += 1

    def _fail(self, name, kind, status, model, note):
        rp = getattr(self, 'replay_spec', None)
        self.failures.append(Failure(name, kind, status, model, note, dict(rp) if rp else None))

    def ground(self, name, cond, witness=None, kind='lemma', replay=None):
        """obligation over a concrete (finite-domain) case, evaluated by CPython"""
        name = self.prefix_tag + name
        rec = self.records.get(name)
        if rec is None:
            rec = self.records[name] = ObRecord(name, kind)
        rec.instances += 1
        if is_sym(cond):
            raise Unsupported('ground obligation with symbolic condition')
        if cond:
            rec.discharged += 1
            rec.trivial += 1
            return True
        rec.refuted += 1
        self.failures.append(Failure(name, kind, 'refuted', witness, 'ground case',
                                     replay or getattr(self, 'replay_spec', None)))
        return False

    def ground_pass(self, name, n, kind='lemma'):
        """n ground instances of obligation `name` evaluated to true"""
        if n <= 0:
            return
        name = self.prefix_tag + name
        rec = self.records.get(name)
        if rec is None:
            rec = self.records[name] = ObRecord(name, kind)
        rec.instances += n
        rec.discharged += n
        rec.trivial += n

    def model_values(self, model):
        out = {}
        for name, v in self.inputs.items():
            try:
                out[name] = self._eval_model(model, v)
            except Exception as ex:  # pragma: no cover
                out[name] = 'unevaluable: %r' % (ex,)
            if isinstance(v, SSeq):
                # cells around every instantiation term (the positions the proof looked at)
                cells = {}
                try:
                    for t in self.index_terms:
                        p = self._eval_model(model, t) if is_sym(t) else t
                        if not isinstance(p, int):
                            continue
                        for q in (p, p + 1, 2 * p, 2 * p + 1):
                            if 0 <= q and len(cells) < 64:
                                cells[q] = model.eval(z3.Select(v.arr, z3.IntVal(q)), model_completion=True).as_long()
                    out[name + '_cells'] = {str(k): cells[k] for k in sorted(cells)}
                except Exception:  # pragma: no cover
                    pass
        return out

    def _eval_model(self, model, v):
        if isinstance(v, SInt):
            r = model.eval(v.e, model_completion=True)
            return r.as_long()
        if isinstance(v, SBool):
            return z3.is_true(model.eval(v.e, model_completion=True))
        if isinstance(v, SSeq):
            n = self._eval_model(model, v.length) if is_sym(v.length) else v.length
            n = max(0, min(n, 5000))
            off = self._eval_model(model, v.off) if is_sym(v.off) else v.off
            return [model.eval(z3.Select(v.arr, z3.IntVal(off + i)), model_completion=True).as_long()
                    for i in range(n)]
        if isinstance(v, (list, tuple)):
            return [self._eval_model(model, x) for x in v]
        if isinstance(v, dict):
            return {k: self._eval_model(model, x) for k, x in v.items()}
        if isinstance(v, CountedList):
            return {str(k): self._eval_model(model, x) for k, x in v.counts.items()}
        return v

    # ------------------------------------------------------------------ exploration
    def explore(self, thunk, on_outcome, max_paths=None, tag=''):
        """thunk(interp) runs the function under verification; on_outcome(interp,
        kind, value) is called at the end of every path ('return' | 'raise'),
        with the path condition still loaded, and states the postconditions."""
        self.prefix = []
        n = 0
        if max_paths is None:
            # concrete-control tasks (cc-sym / gf-lin) have a handful of paths on the pinned code: a data dependent branch
            # makes them blow up, which is reported as undecided after a small budget
            be = getattr(getattr(self, 'task', None), 'backend', 'smt')
            max_paths = 512 if be in ('cc-sym', 'gf-lin') else 20000
        while True:
            n += 1
            self.paths += 1
            if n > max_paths:
                raise Unsupported('path budget exceeded (%d)' % max_paths)
            self.trace = []
            self.pc = []
            self.solver = self._new_solver()
            self.inputs = {}
            self.qassumptions = []
            self.index_terms = []
            self.quant_log = []
            self.quant_witness = {}
            self.loop_k = {}
            _counter[0] = 0
            reset_atoms()
            CUR[0] = self
            try:
                try:
                    val = thunk(self)
                    kind = 'return'
                except PyRaise as pr:
                    kind, val = 'raise', pr.exc
                on_outcome(self, kind, val)
            except (PathEnd, Infeasible):
                pass
            except ConcretizeError as ce:
                raise
            trace = self.trace
            while trace and not trace[-1][1]:
                trace.pop()
            if not trace:
                break
            ch, rem = trace[-1]
            trace[-1] = (rem[0], rem[1:])
            self.prefix = trace
        return n

    # ------------------------------------------------------------------ functions
    def closure_for_native(self, f):
        key = (f.__module__, f.__qualname__)
        c = self.closure_cache.get(key)
        if c is None:
            mi = extract.get_module(f.__module__)
            node = mi.by_qualname.get(f.__qualname__)
            if node is None:
                ent = mi.by_line.get(f.__code__.co_firstlineno)
                if ent is None:
                    raise Unsupported('no source for %s.%s' % key)
                node = ent[1]
            if f.__closure__ and f.__code__.co_freevars != ('__class__',):
                raise Unsupported('native closure %s.%s reached the interpreter' % key)
            cls = None
            parts = f.__qualname__.split('.')
            if len(parts) == 2 and parts[0] in mi.classes:
                cls = getattr(mi.module, parts[0])
            c = Closure(node, None, f.__globals__, f.__qualname__, f.__module__,
                        f.__defaults__ or (), f.__kwdefaults__ or {}, cls=cls)
            self.closure_cache[key] = c
        return c

    def get_function(self, modname, qualname):
        """Closure of a (possibly nested: give the outer function) package function"""
        mi = extract.get_module(modname)
        obj = mi.module
        for part in qualname.split('.'):
            obj = getattr(obj, part)
        if isinstance(obj, (staticmethod, classmethod)):
            obj = obj.__func__
        return self.closure_for_native(obj)

    def bind_args(self, clo, args, kwargs):
        a = clo.node.args
        params = [p.arg for p in a.posonlyargs + a.args]
        loc = {}
        args = list(args)
        if len(args) > len(params) and a.vararg is None:
            raise TypeError('%s() takes %d positional arguments but %d were given'
                            % (clo.__name__, len(params), len(args)))
        for p, v in zip(params, args):
            loc[p] = v
        if a.vararg is not None:
            loc[a.vararg.arg] = tuple(args[len(params):])
        kwargs = dict(kwargs)
        kwonly = [p.arg for p in a.kwonlyargs]
        extra = {}
        for k, v in kwargs.items():
            if k in params or k in kwonly:
                if k in loc:
                    raise TypeError('%s() got multiple values for argument %r' % (clo.__name__, k))
                loc[k] = v
            elif a.kwarg is not None:
                extra[k] = v
            else:
                raise TypeError('%s() got an unexpected keyword argument %r' % (clo.__name__, k))
        if a.kwarg is not None:
            loc[a.kwarg.arg] = extra
        nd = len(clo.defaults)
        for i, p in enumerate(params):
            if p not in loc:
                j = i - (len(params) - nd)
                if j >= 0:
                    loc[p] = clo.defaults[j]
                else:
                    raise TypeError('%s() missing required argument %r' % (clo.__name__, p))
        for p in kwonly:
            if p not in loc:
                if p in clo.kwdefaults:
                    loc[p] = clo.kwdefaults[p]
                else:
                    raise TypeError('%s() missing keyword-only argument %r' % (clo.__name__, p))
        return loc

    def call_closure(self, clo, args, kwargs):
        key = clo.modname + ':' + clo.qualname
        summ = self.summaries.get(key)
        if summ is not None:
            return summ(self, clo, args, kwargs)
        return self.call_closure_body(clo, args, kwargs)

    def call_closure_body(self, clo, args, kwargs):
        try:
            loc = self.bind_args(clo, args, kwargs)
        except TypeError as te:
            raise PyRaise(te)
        fr = Frame(clo.parent, clo.globals, clo.qualname, clo.modname, clo.node, clo.cls)
        fr.locals = loc
        self.frame_depth += 1
        if self.frame_depth > 60:
            raise Unsupported('recursion too deep')
        try:
            if isinstance(clo.node, ast.Lambda):
                return self.eval(clo.node.body, fr)
            if clo.is_generator:
                fr.yields = []
                sig = self.exec_block(clo.node.body, fr)
                return iter(fr.yields)
            sig = self.exec_block(clo.node.body, fr)
            if isinstance(sig, _Return):
                return sig.value
            return None
        finally:
            self.frame_depth -= 1

    def is_pkg_function(self, f):
        return isinstance(f, types.FunctionType) and (f.__module__ or '').split('.')[0] == PKG

    def is_pkg_class(self, c):
        return isinstance(c, type) and (c.__module__ or '').split('.')[0] == PKG

    def lookup_class_attr(self, cls, name):
        for k in cls.__mro__:
            if name in k.__dict__:
                v = k.__dict__[name]
                if self.is_pkg_function(v):
                    return self.closure_for_native(v)
                return v
        return None

    def instantiate(self, cls, args, kwargs):
        if issubclass(cls, BaseException) or not self._class_has_source(cls):
            return cls(*args, **kwargs)
        if issubclass(cls, tuple):
            new = self.lookup_class_attr(cls, '__new__')
            if isinstance(new, staticmethod):
                new = new.__func__
            if isinstance(new, Closure) or self.is_pkg_function(new):
                return self.call_function(new, (cls,) + tuple(args), kwargs)
            return cls(*args, **kwargs)   # namedtuple etc.
        o = Obj(cls)
        init = self.lookup_class_attr(cls, '__init__')
        if isinstance(init, Closure):
            self.call_function(init, (o,) + tuple(args), kwargs)
        return o

    def _class_has_source(self, cls):
        try:
            mi = extract.get_module(cls.__module__)
        except Exception:
            return False
        return cls.__qualname__ in mi.classes and not hasattr(cls, '_fields')

    def call_function(self, f, args, kwargs):
        if isinstance(f, Closure):
            return self.call_closure(f, args, kwargs)
        if isinstance(f, BoundMethod):
            return self.call_function(f.func, (f.obj,) + tuple(args), kwargs)
        if isinstance(f, functools.partial):
            kw = dict(f.keywords)
            kw.update(kwargs)
            return self.call_function(f.func, tuple(f.args) + tuple(args), kw)
        if isinstance(f, staticmethod):
            return self.call_function(f.__func__, args, kwargs)
        if isinstance(f, types.MethodType) and self.is_pkg_function(f.__func__):
            return self.call_function(self.closure_for_native(f.__func__), (f.__self__,) + tuple(args), kwargs)
        if self.is_pkg_function(f):
            ns = self.native_summaries.get((f.__module__, f.__qualname__))
            if ns is not None:
                return ns(self, f, args, kwargs)
            return self.call_closure(self.closure_for_native(f), args, kwargs)
        if isinstance(f, type):
            if f is tuple.__class__:
                pass
            m = self.native_models.get(f)
            if m is not None:
                return m(*args, **kwargs)
            if self.is_pkg_class(f):
                return self.instantiate(f, args, kwargs)
            return self.native_call(f, args, kwargs)
        try:
            m = self.native_models.get(f)
        except TypeError:
            m = None
        if m is not None:
            return m(*args, **kwargs)
        # builtin bound methods
        slf = getattr(f, '__self__', None)
        if slf is not None and not isinstance(slf, types.ModuleType):
            mm = self.method_models.get((type(slf), getattr(f, '__name__', None)))
            if mm is not None:
                return mm(slf, *args, **kwargs)
        return self.native_call(f, args, kwargs)

    def native_call(self, f, args, kwargs):
        try:
            return f(*args, **kwargs)
        except INTERNAL:
            raise
        except StopIteration:
            raise
        except (TypeError, AttributeError) as ex:
            # a native (C / library) function that was handed a symbolic or abstract value fails because the interpreter has no model
            # of it - that is a limit of the verifier (undecided), not an exception of the program
            if _has_abstract(args) or _has_abstract(tuple(kwargs.values())) or _has_abstract((getattr(f, '__self__', None),)):
                raise Unsupported('native %s called with a symbolic / abstract argument: %s' % (getattr(f, '__qualname__', getattr(f, '__name__', f)), ex))
            raise PyRaise(ex)
        except Exception as ex:
            raise PyRaise(ex)

    # ------------------------------------------------------------------ statements
    def exec_block(self, stmts, fr):
        for s in stmts:
            sig = self.exec_stmt(s, fr)
            if sig is not None:
                return sig
        return None

    def exec_stmt(self, s, fr):
        m = getattr(self, 'x_' + type(s).__name__, None)
        if m is None:
            raise Unsupported('statement %s in %s' % (type(s).__name__, fr.qualname))
        return m(s, fr)

    def x_Expr(self, s, fr):
        v = s.value
        if isinstance(v, ast.Constant):
            return None
        if isinstance(v, ast.Yield):
            if fr.yields is None:
                raise Unsupported('yield outside generator frame')
            val = self.eval(v.value, fr) if v.value is not None else None
            hook = getattr(self, 'yield_hook', None)
            if hook is not None:
                hook(self, val)         # ghost view of the yielded sequence (contracts over generators with symbolic trip counts)
            else:
                fr.yields.append(val)
            return None
        self.eval(v, fr)
        return None

    def x_Pass(self, s, fr):
        return None

    def x_Assign(self, s, fr):
        v = self.eval(s.value, fr)
        for t in s.targets:
            self.assign(t, v, fr)
        return None

    def x_AnnAssign(self, s, fr):
        if s.value is not None:
            self.assign(s.target, self.eval(s.value, fr), fr)
        return None

    def x_AugAssign(self, s, fr):
        t = s.target
        if isinstance(t, ast.Name):
            cur = self.load_name(t.id, fr)
            new = self.binop(s.op, cur, self.eval(s.value, fr), inplace=True)
            fr.locals[t.id] = new
        elif isinstance(t, ast.Subscript):
            obj = self.eval(t.value, fr)
            idx = self.eval_index(t.slice, fr)
            cur = self.subscript(obj, idx)
            new = self.binop(s.op, cur, self.eval(s.value, fr), inplace=True)
            self.store_subscript(obj, idx, new)
        elif isinstance(t, ast.Attribute):
            obj = self.eval(t.value, fr)
            cur = self.getattr(obj, t.attr)
            new = self.binop(s.op, cur, self.eval(s.value, fr), inplace=True)
            self.setattr(obj, t.attr, new)
        else:
            raise Unsupported('augassign target')
        return None

    def assign(self, t, v, fr):
        if isinstance(t, ast.Name):
            fr.locals[t.id] = v
        elif isinstance(t, (ast.Tuple, ast.List)):
            if isinstance(v, (SSeq, SBits)):
                raise Unsupported('unpacking symbolic sequence')
            vals = list(v.items) if isinstance(v, (TupObj, VBytearray)) else list(v)
            star = [i for i, e in enumerate(t.elts) if isinstance(e, ast.Starred)]
            if star:
                raise Unsupported('starred assignment')
            if len(vals) != len(t.elts):
                raise PyRaise(ValueError('not enough / too many values to unpack'))
            for e, x in zip(t.elts, vals):
                self.assign(e, x, fr)
        elif isinstance(t, ast.Subscript):
            obj = self.eval(t.value, fr)
            idx = self.eval_index(t.slice, fr)
            self.store_subscript(obj, idx, v)
        elif isinstance(t, ast.Attribute):
            obj = self.eval(t.value, fr)
            self.setattr(obj, t.attr, v)
        else:
            raise Unsupported('assignment target %s' % type(t).__name__)

    def x_Delete(self, s, fr):
        for t in s.targets:
            if isinstance(t, ast.Name):
                del fr.locals[t.id]
            elif isinstance(t, ast.Subscript):
                obj = self.eval(t.value, fr)
                idx = self.eval_index(t.slice, fr)
                self.note_mutation(obj)
                try:
                    del obj[idx]
                except INTERNAL:
                    raise
                except Exception as ex:
                    raise PyRaise(ex)
            else:
                raise Unsupported('del target')
        return None

    def x_Return(self, s, fr):
        return _Return(self.eval(s.value, fr) if s.value is not None else None)

    def x_Break(self, s, fr):
        return _BREAK

    def x_Continue(self, s, fr):
        return _CONTINUE

    def x_If(self, s, fr):
        t = self.eval(s.test, fr)
        if isinstance(t, GFNonZero):
            return self.gf_guarded_if(s, fr, t)
        if self.truth(t):
            return self.exec_block(s.body, fr)
        return self.exec_block(s.orelse, fr)

    def gf_guarded_if(self, s, fr, t):
        """`if x != 0: body` on a GF-linear form x: the body is executed once under the
        guard; every store it performs must change a cell by a multiple of x, so that
        for data with x == 0 the merged state coincides with skipping the body."""
        if s.orelse:
            raise Unsupported('guarded GF branch with else')
        if getattr(self, 'gf_guard', None) is not None:
            raise Unsupported('nested guarded GF branch')
        self.gf_guard = t.form
        try:
            sig = self.exec_block(s.body, fr)
        finally:
            self.gf_guard = None
        if sig is not None:
            raise Unsupported('control transfer out of guarded GF branch')
        return None

    def x_Assert(self, s, fr):
        if not self.truth(self.eval(s.test, fr)):
            raise PyRaise(AssertionError())
        return None

    def x_Raise(self, s, fr):
        if s.exc is None:
            raise Unsupported('bare raise')
        e = self.eval(s.exc, fr)
        if isinstance(e, type):
            e = e()
        raise PyRaise(e)

    def x_With(self, s, fr):
        """with statement (context managers): __enter__ / body / __exit__; an exception of the body is passed to __exit__
        and suppressed iff it returns a true value"""
        if len(s.items) != 1:
            inner = ast.With(items=s.items[1:], body=s.body)
            ast.copy_location(inner, s)
            outer = ast.With(items=s.items[:1], body=[inner])
            ast.copy_location(outer, s)
            return self.x_With(outer, fr)
        item = s.items[0]
        mgr = self.eval(item.context_expr, fr)
        enter = self.getattr(mgr, '__enter__')
        exit_ = self.getattr(mgr, '__exit__')
        val = self.call_function(enter, (), {})
        if item.optional_vars is not None:
            self.assign(item.optional_vars, val, fr)
        try:
            sig = self.exec_block(s.body, fr)
        except PyRaise as pr:
            if self.truth(self.call_function(exit_, (type(pr.exc), pr.exc, None), {})):
                return None
            raise
        self.call_function(exit_, (None, None, None), {})
        return sig

    def x_Try(self, s, fr):
        try:
            try:
                sig = self.exec_block(s.body, fr)
            except PyRaise as pr:
                for h in s.handlers:
                    if h.type is None:
                        match = True
                    else:
                        t = self.eval(h.type, fr)
                        match = isinstance(pr.exc, t)
                    if match:
                        if h.name:
                            fr.locals[h.name] = pr.exc
                        return self.exec_block(h.body, fr)
                raise
            else:
                if sig is None and s.orelse:
                    sig = self.exec_block(s.orelse, fr)
                return sig
        finally:
            if s.finalbody:
                fsig = self.exec_block(s.finalbody, fr)
                if fsig is not None:
                    return fsig

    def x_FunctionDef(self, s, fr):
        for d in s.decorator_list:
            # functools.wraps(f) only copies metadata onto the wrapper: modelled as the identity decorator
            ok = isinstance(d, ast.Call) and self.eval(d.func, fr) is functools.wraps
            if not ok:
                raise Unsupported('decorated nested function')
        fr.locals[s.name] = self.make_closure(s, fr, fr.qualname + '.<locals>.' + s.name)
        return None

    def make_closure(self, node, fr, qualname):
        a = node.args
        defaults = tuple(self.eval(d, fr) for d in a.defaults)
        kwdefaults = {p.arg: self.eval(d, fr) for p, d in zip(a.kwonlyargs, a.kw_defaults) if d is not None}
        return Closure(node, fr, fr.globals, qualname, fr.modname, defaults, kwdefaults)

    def x_Import(self, s, fr):
        for al in s.names:
            mod = __import__(al.name)
            fr.locals[al.asname or al.name.split('.')[0]] = mod if not al.asname else sys.modules[al.name]
        return None

    def x_ImportFrom(self, s, fr):
        import importlib
        if s.level:
            base = fr.modname.rsplit('.', s.level)[0] if '.' in fr.modname else fr.modname
            modname = base + ('.' + s.module if s.module else '')
        else:
            modname = s.module
        mod = importlib.import_module(modname)
        for al in s.names:
            try:
                v = getattr(mod, al.name)
            except AttributeError:
                v = importlib.import_module(modname + '.' + al.name)
            fr.locals[al.asname or al.name] = v
        return None

    def x_Global(self, s, fr):
        raise Unsupported('global statement')

    def x_Nonlocal(self, s, fr):
        raise Unsupported('nonlocal statement')

    # ---- loops
    def loop_key(self, fr, node):
        fn = fr.func_node
        if fn is None:
            return None
        ords = self.loop_ordinals.get(id(fn))
        if ords is None:
            ords = {id(n): i + 1 for i, n in enumerate(extract.loops_of(fn))}
            self.loop_ordinals[id(fn)] = ords
        o = ords.get(id(node))
        if o is None:
            return None
        return (fr.modname + ':' + fr.qualname, o)

    def x_For(self, s, fr):
        itv = self.eval(s.iter, fr)
        key = self.loop_key(fr, s)
        spec = self.loopspecs.get(key) if key else None
        if spec is not None:
            if isinstance(itv, Obj):
                itv = self.make_iter(itv)
            return self.cut_for(s, fr, itv, spec, key)
        if isinstance(itv, Obj):
            itv = self.make_iter(itv)
        if isinstance(itv, CountedList):
            return self.fold_counted(s, fr, itv)
        if isinstance(itv, SRange) and isinstance(itv.start, int) and itv.step == 1:
            # small symbolic trip count (like comprehensions): fork on its value, complete up to the stated limit, else unsupported
            itv = range(itv.start, itv.start + self.concretize(itv.count(), 0, 16))
        if isinstance(itv, (SRange, SSeq, SBits, SRepeat, OpaqueSeq, OpaqueIter, SLazySeq)):
            raise Unsupported('loop %r over symbolic-length iterable without invariant' % (key,))
        it = self.make_iter(itv)
        while True:
            try:
                v = next(it)
            except StopIteration:
                break
            except INTERNAL:
                raise
            except Exception as ex:
                raise PyRaise(ex)
            self.assign(s.target, v, fr)
            sig = self.exec_block(s.body, fr)
            if sig is _BREAK:
                return None
            if sig is _CONTINUE or sig is None:
                continue
            return sig
        if s.orelse:
            return self.exec_block(s.orelse, fr)
        return None

    def fold_counted(self, s, fr, cl):
        """for x in <list abstracted by its multiset>: body.  Supported when the body is an order-insensitive additive fold: for every
        value v the body, started from arbitrary accumulator values, changes each integer accumulator by an amount that does not depend
        on the accumulators, takes no branch on symbolic data and leaves the loop normally; then  acc_after = acc_before + count(v) * delta(v).
        Anything else is unsupported (undecided), never guessed."""
        if s.orelse:
            raise Unsupported('for/else over abstracted list')
        names = sorted(set(extract.assigned_names(s.body)))
        targets = set(extract.assigned_names([ast.Assign(targets=[s.target], value=ast.Constant(value=None))]))
        accs = [n for n in names if n not in targets]
        for n in accs:
            if n not in fr.locals or isinstance(fr.locals[n], bool) or not isinstance(fr.locals[n], (int, SInt)):
                raise Unsupported('loop over abstracted list assigns %r which is not an integer accumulator' % n)
        total = {n: fr.locals[n] for n in accs}
        for v, cnt in cl.counts.items():
            if isinstance(cnt, int) and cnt <= 0:
                continue
            probe = {n: fresh_int('acc0_' + n) for n in accs}
            for n in accs:
                fr.locals[n] = probe[n]
            self.assign(s.target, v, fr)
            # a branch on the accumulators would make iterations differ: forbidden (branches on loop-invariant symbols only split the path)
            saved_probe = getattr(self, '_fold_probe_names', None)
            self._fold_probe_names = (saved_probe or set()) | {probe[n].e.decl().name() for n in accs}
            try:
                sig = self.exec_block(s.body, fr)
            except PyRaise:
                # the body raises for this value: it raises iff such an element exists
                self._fold_probe_names = saved_probe
                if self.decide(cnt > 0):
                    raise
                continue
            finally:
                self._fold_probe_names = saved_probe
            if sig is not None and sig is not _CONTINUE:
                raise Unsupported('break / return inside a loop over an abstracted list')
            patoms = set()
            for n in accs:
                patoms |= set(probe[n].lin)
            for n in accs:
                delta = fr.locals[n] - probe[n]
                if isinstance(delta, SInt) and (set(delta.lin) & patoms):
                    raise Unsupported('loop over abstracted list: update of %r is not an additive fold' % n)
                c = cnt if isinstance(cnt, int) else s_max(cnt, 0)
                total[n] = total[n] + c * delta
        for n in accs:
            fr.locals[n] = total[n]
        for t in targets:
            fr.locals[t] = _Havocked(t)
        return None

    def make_iter(self, v):
        if isinstance(v, SSeq):
            return SIter(v, 0)
        if isinstance(v, OpaqueSeq):
            return OpaqueIter(v)
        if isinstance(v, OpaqueIter):
            return v
        if isinstance(v, Obj):
            m = self.lookup_class_attr(v.cls, '__iter__')
            if m is None:
                raise PyRaise(TypeError('object is not iterable'))
            return self.call_function(m, (v,), {})
        if isinstance(v, (SBits, SRepeat, SRange, CountedList)):
            raise Unsupported('iteration over symbolic-length value')
        if hasattr(v, '__next__'):
            return v
        try:
            return iter(v)
        except TypeError as te:
            raise PyRaise(te)

    def x_While(self, s, fr):
        key = self.loop_key(fr, s)
        spec = self.loopspecs.get(key) if key else None
        if spec is not None:
            return self.cut_while(s, fr, spec, key)
        n = 0
        while self.truth(self.eval(s.test, fr)):
            n += 1
            if n > 100000:
                raise Unsupported('while loop bound')
            sig = self.exec_block(s.body, fr)
            if sig is _BREAK:
                return None
            if sig is _CONTINUE or sig is None:
                continue
            return sig
        if s.orelse:
            return self.exec_block(s.orelse, fr)
        return None

    def _havoc_locals(self, body, fr, spec, extra=()):
        names = set(extract.assigned_names(body)) | set(spec.extra_havoc_names) | set(extra)
        for nme in sorted(names):
            if nme not in fr.locals:
                continue
            v = fr.locals[nme]
            if isinstance(v, (bool, SBool)):
                fr.locals[nme] = fresh_bool('h_' + nme)
            elif isinstance(v, (int, SInt)):
                fr.locals[nme] = fresh_int('h_' + nme)
            elif v is None or isinstance(v, (str, bytes, tuple, float)):
                # immutable non-integer value rebound in the loop: must be handled by spec.havoc
                fr.locals[nme] = _Havocked(nme)
            # mutable objects rebound / mutated: spec.havoc is responsible

    def _spec_inv(self, spec, ctx):
        """invariant clauses; a contract that names a local variable the code no longer has does not attach: undecided, not a crash"""
        try:
            return spec.inv(ctx)
        except KeyError as ex:
            raise Unsupported('loop contract no longer attaches to %s: local %s does not exist' % (ctx.frame.qualname, ex))

    def cut_for(self, s, fr, itv, spec, key):
        tag = 'loop%d' % key[1]
        fname = key[0].split(':')[1]
        if isinstance(itv, range):
            itv = SRange(itv.start, itv.stop, itv.step) if itv.step > 0 else None
            if itv is None:
                raise Unsupported('cut of descending range')
        if isinstance(itv, SRange):
            N = itv.count()
            elem = itv.at
        elif isinstance(itv, SRepeat):
            N = itv.length()
            elem = lambda k: itv.value
        elif isinstance(itv, (SSeq, OpaqueSeq, OpaqueIter, SLazySeq)):
            N = itv.length
            elem = itv.at
        elif isinstance(itv, (list, tuple, VBytearray)):
            items = list(itv.items) if isinstance(itv, VBytearray) else list(itv)
            N = len(items)
            elem = lambda k: self.select_concrete_list(items, k)
        else:
            raise Unsupported('cut loop over %s' % type(itv).__name__)
        entry = dict(fr.locals)
        ctx0 = LoopCtx(self, fr, 0, entry, itv)
        for nme, c in self._spec_inv(spec, ctx0):
            self.oblige('%s.%s.inv-establish.%s' % (fname, tag, nme), c, kind='inv-establish')
        k = self.fresh_int('k_' + tag, 0, None)
        self.assume(k <= N)
        self._havoc_locals(s.body, fr, spec, extra=extract.assigned_names([ast.Assign(targets=[s.target], value=None)]) if False else ())
        # loop target is rebound at each iteration
        ctx = LoopCtx(self, fr, k, entry, itv)
        self.loop_k[key] = k
        self.inputs['loop_counter_%s_%d' % (key[0].split(':')[1], key[1])] = k
        if spec.havoc:
            spec.havoc(ctx)
        self.add_index_term(k)
        for nme, c in self._spec_inv(spec, ctx):
            self.assume(c if (is_sym(c) or isinstance(c, QForall)) else bool(c))
        if self.decide(k < N):
            self.assign(s.target, elem(k), fr)
            if getattr(spec, 'pre_body', None):
                spec.pre_body(ctx)
            sig = self.exec_block(s.body, fr)
            if sig is _BREAK:
                return None
            if isinstance(sig, _Return):
                return sig
            ctx1 = LoopCtx(self, fr, k + 1, entry, itv)
            ab = getattr(spec, 'after_body', None)
            if ab is not None:
                for nme, c in ab(ctx1):
                    self.oblige(nme, c, kind='post')
            for nme, c in self._spec_inv(spec, ctx1):
                self.oblige('%s.%s.inv-preserve.%s' % (fname, tag, nme), c, kind='inv-preserve')
            raise PathEnd()
        # exit: k == N; loop variable keeps its last value (if any iteration ran)
        if getattr(spec, 'on_exit', None):
            spec.on_exit(ctx)
        if s.orelse:
            return self.exec_block(s.orelse, fr)
        return None

    def cut_while(self, s, fr, spec, key):
        tag = 'loop%d' % key[1]
        fname = key[0].split(':')[1]
        entry = dict(fr.locals)
        ctx0 = LoopCtx(self, fr, 0, entry, None)
        for nme, c in self._spec_inv(spec, ctx0):
            self.oblige('%s.%s.inv-establish.%s' % (fname, tag, nme), c, kind='inv-establish')
        self._havoc_locals(s.body, fr, spec)
        k = self.fresh_int('k_' + tag, 0, None)
        ctx = LoopCtx(self, fr, k, entry, None)
        if spec.havoc:
            spec.havoc(ctx)
        for nme, c in self._spec_inv(spec, ctx):
            self.assume(c if (is_sym(c) or isinstance(c, QForall)) else bool(c))
        if self.truth(self.eval(s.test, fr)):
            v0 = spec.variant(ctx) if spec.variant else None
            if getattr(spec, 'pre_body', None):
                spec.pre_body(ctx)
            sig = self.exec_block(s.body, fr)
            if sig is _BREAK:
                return None
            if isinstance(sig, _Return):
                return sig
            ctx1 = LoopCtx(self, fr, k + 1, entry, None)
            for nme, c in self._spec_inv(spec, ctx1):
                self.oblige('%s.%s.inv-preserve.%s' % (fname, tag, nme), c, kind='inv-preserve')
            if spec.variant:
                v1 = spec.variant(ctx1)
                self.oblige('%s.%s.variant' % (fname, tag), s_and(v0 >= 0, v1 < v0), kind='variant')
            raise PathEnd()
        if getattr(spec, 'on_exit', None):
            spec.on_exit(ctx)
        if s.orelse:
            return self.exec_block(s.orelse, fr)
        return None

    # ------------------------------------------------------------------ expressions
    def eval(self, n, fr):
        m = getattr(self, 'e_' + type(n).__name__, None)
        if m is None:
            raise Unsupported('expression %s in %s' % (type(n).__name__, fr.qualname))
        try:
            return m(n, fr)
        except INTERNAL:
            raise
        except StopIteration as si:
            raise PyRaise(si)
        except RecursionError:
            raise
        except Exception as ex:
            raise PyRaise(ex)

    def e_Constant(self, n, fr):
        return n.value

    def load_name(self, name, fr):
        f = fr
        while f is not None:
            if name in f.locals:
                v = f.locals[name]
                if isinstance(v, _Havocked):
                    raise Unsupported('use of havocked non-integer local %r' % name)
                return v
            f = f.parent
        g = fr.globals
        if name in g:
            return g[name]
        if hasattr(builtins, name):
            return getattr(builtins, name)
        root = fr
        while root.parent is not None:
            root = root.parent
        if id(root) in getattr(self, 'extracted_roots', ()):
            # a nested helper that was extracted from its enclosing function for a kernel proof reads a variable of that function which the
            # contract does not supply: the contract does not attach (undecided), the program has no NameError
            raise Unsupported('contract does not attach: extracted helper %s reads %r from its enclosing function' % (fr.qualname, name))
        raise PyRaise(NameError("name %r is not defined" % name))

    def e_Name(self, n, fr):
        return self.load_name(n.id, fr)

    def e_Attribute(self, n, fr):
        return self.getattr(self.eval(n.value, fr), n.attr)

    def getattr(self, obj, attr):
        if isinstance(obj, Obj):
            if attr in obj.attrs:
                return obj.attrs[attr]
            v = self.lookup_class_attr(obj.cls, attr)
            if v is None:
                raise PyRaise(AttributeError('%s has no attribute %r' % (obj.cls.__name__, attr)))
            if isinstance(v, Closure):
                return BoundMethod(obj, v)
            if isinstance(v, property):
                return self.call_function(v.fget, (obj,), {})
            if isinstance(v, types.MemberDescriptorType):
                raise PyRaise(AttributeError(attr))
            return v
        if isinstance(obj, TupObj):
            v = self.lookup_class_attr(obj.cls, attr)
            if v is None:
                raise PyRaise(AttributeError(attr))
            if isinstance(v, Closure):
                return BoundMethod(obj, v)
            if isinstance(v, property):
                fget = v.fget
                if isinstance(fget, operator.itemgetter):
                    return fget(obj.items)
                return self.call_function(fget, (obj,), {})
            return v
        if isinstance(obj, SuperProxy):
            mro = obj.obj.__mro__ if isinstance(obj.obj, type) else type(obj.obj).__mro__
            idx = mro.index(obj.cls)
            for k in mro[idx + 1:]:
                if attr in k.__dict__:
                    v = k.__dict__[attr]
                    if attr == '__new__' and k is tuple:
                        return _tuple_new
                    if self.is_pkg_function(v):
                        return BoundMethod(obj.obj, self.closure_for_native(v))
                    return getattr(super(obj.cls, obj.obj), attr)
            raise PyRaise(AttributeError(attr))
        if isinstance(obj, (T.StrTok, T.Rope)):
            return self.text_method(obj, attr)
        if isinstance(obj, (SInt, SBool)):
            raise Unsupported('attribute %r of symbolic scalar' % attr)
        if isinstance(obj, (SSeq, SBits, VBytearray)):
            mm = self.method_models.get((type(obj), attr))
            if mm is not None:
                return functools.partial(mm, obj)
            if isinstance(obj, VBytearray) and hasattr(obj, attr):
                return getattr(obj, attr)
            raise Unsupported('attribute %r of %s' % (attr, type(obj).__name__))
        if obj is tuple and attr == '__new__':
            return _tuple_new
        if isinstance(obj, CountedList):
            if attr == 'count':
                return obj.count
            raise Unsupported('attribute %r of abstracted list' % attr)
        return getattr(obj, attr)

    def text_method(self, obj, attr):
        """methods of opaque text used by segno.helpers"""
        if attr == 'upper':
            return lambda: T.wrap('upper', obj)
        if attr == 'translate':
            def translate(table):
                names = getattr(self, 'escape_tables', {})
                nm = names.get(id(table))
                if nm is None:
                    raise Unsupported('translate with an unknown table')
                return T.wrap('esc', obj, nm)
            return translate
        if attr == 'encode':
            return lambda codec='utf-8', errors='strict': T.wrap('enc', obj, codec)
        if attr == 'replace':
            def replace(old, new, *a):
                if old in ('\r', '\n') and '\r' not in new and '\n' not in new:
                    return T.wrap('nolinebreak', obj) if not (isinstance(obj, T.Rope) and all(
                        (not isinstance(p, str)) and p.kind == 'nolinebreak' for p in obj.ps)) else obj
                raise Unsupported('replace on opaque text')
            return replace
        if attr in ('strftime', 'isoformat', 'year'):
            raise PyRaise(AttributeError("'str' object has no attribute %r" % attr))
        raise Unsupported('method %r of opaque text' % attr)

    def setattr(self, obj, attr, v):
        if isinstance(obj, Obj):
            self.note_mutation(obj)
            obj.attrs[attr] = v
            return
        if isinstance(obj, types.ModuleType) or isinstance(obj, type):
            self.modified_globals.append((obj, attr))
            raise Unsupported('store to module / class attribute %r' % attr)
        if isinstance(obj, (SSeq, SBits, VBytearray, TupObj)):
            raise PyRaise(AttributeError(attr))
        self.note_mutation(obj)
        setattr(obj, attr, v)

    # frame tracking for C15: objects allocated during the current exploration
    def note_mutation(self, obj):
        cb = getattr(self, 'mutation_hook', None)
        if cb is not None:
            cb(obj)

    def eval_index(self, sl, fr):
        if isinstance(sl, ast.Slice):
            lo = self.eval(sl.lower, fr) if sl.lower is not None else None
            hi = self.eval(sl.upper, fr) if sl.upper is not None else None
            st = self.eval(sl.step, fr) if sl.step is not None else None
            return slice(lo, hi, st)
        if isinstance(sl, ast.Tuple):
            return tuple(self.eval(e, fr) for e in sl.elts)
        return self.eval(sl, fr)

    def e_Subscript(self, n, fr):
        obj = self.eval(n.value, fr)
        idx = self.eval_index(n.slice, fr)
        return self.subscript(obj, idx)

    def subscript(self, obj, idx):
        if isinstance(obj, Obj):
            m = self.lookup_class_attr(obj.cls, '__getitem__')
            if m is None:
                raise PyRaise(TypeError('object is not subscriptable'))
            return self.call_function(m, (obj, idx), {})
        if isinstance(obj, TupObj):
            obj = obj.items
        if isinstance(idx, (GFLin, GFLog)):
            return self.gf_lookup(obj, idx)
        if isinstance(idx, SInt):
            if isinstance(obj, (SSeq, SBits, VBytearray, SLazySeq)):
                return obj[idx]
            if isinstance(obj, SRepeat):
                n_ = obj.length()
                if self.decide(idx < 0):
                    idx = idx + n_
                if not self.decide(s_and(idx >= 0, idx < n_)):
                    raise PyRaise(IndexError('list index out of range'))
                return obj.value
            if isinstance(obj, (list, tuple, bytes, bytearray, range)):
                return self.select_concrete_list(list(obj), idx)
            if isinstance(obj, dict):
                for k in obj:
                    if isinstance(k, int) and not isinstance(k, bool) and self.decide(idx == k):
                        return obj[k]
                raise KeyError('symbolic key')
            raise Unsupported('symbolic index into %s' % type(obj).__name__)
        if isinstance(idx, SBool):
            return self.subscript(obj, SInt(_z(idx), 0, 1))
        if isinstance(idx, slice) and any(isinstance(x, SInt) for x in (idx.start, idx.stop, idx.step)):
            if isinstance(obj, (SSeq,)):
                return obj[idx]
            if isinstance(obj, (VBytearray, list, tuple, bytes)):
                return self._sym_slice_concrete(obj, idx)
            raise Unsupported('symbolic slice of %s' % type(obj).__name__)
        return obj[idx]

    def gf_lookup(self, obj, idx):
        tabs = getattr(self, 'gf_tables', None)
        if not tabs:
            raise Unsupported('GF table lookup without registered tables')
        if isinstance(idx, GFLin):
            if obj is not tabs['log']:
                raise Unsupported('GF linear form used as index of an unknown table')
            g = getattr(self, 'gf_guard', None)
            if g is None or not (g == idx):
                raise Unsupported('LOG[x] outside the branch guarded by x != 0')
            return GFLog(idx, 0)
        if obj is not tabs['exp']:
            raise Unsupported('LOG value used as index of an unknown table')
        self.gf_used_shifts.add(idx.add)
        from spec import gf as F
        if not 0 <= idx.add < 255:
            raise Unsupported('EXP[LOG[x] + g] with g outside 0..254')
        return idx.form.scale(F.alpha_pow(idx.add))

    def _sym_slice_concrete(self, obj, idx):
        """slice with symbolic bounds of a concrete-length sequence: fork on the bounds"""
        n = len(obj)

        def conc(v, default):
            if v is None:
                return default
            if isinstance(v, SInt):
                # clamp semantics: enumerate feasible values in [-n-1, n+1]
                for c in range(0, n + 1):
                    if self.decide(v == c):
                        return c
                if self.decide(v > n):
                    return n
                raise Unsupported('negative symbolic slice bound')
            return v
        if idx.step not in (None, 1):
            raise Unsupported('slice step')
        a = conc(idx.start, 0)
        b = conc(idx.stop, n)
        return obj[a:b]

    def store_subscript(self, obj, idx, v):
        if isinstance(obj, Obj):
            m = self.lookup_class_attr(obj.cls, '__setitem__')
            if m is None:
                raise PyRaise(TypeError('object does not support item assignment'))
            return self.call_function(m, (obj, idx, v), {})
        if isinstance(obj, (tuple, TupObj, bytes, str, SSeq)) and not isinstance(obj, SMutSeq):
            raise PyRaise(TypeError('object does not support item assignment'))
        self.note_mutation(obj)
        g = getattr(self, 'gf_guard', None)
        if g is not None:
            if not isinstance(obj, VBytearray) or isinstance(idx, slice):
                raise Unsupported('store other than a byte cell under a GF guard')
            old = obj.items[idx]
            delta = v ^ old
            if not (isinstance(delta, int) and delta == 0):
                if not isinstance(delta, GFLin) or delta.proportional_factor(g) is None:
                    raise Unsupported('store under GF guard is not a multiple of the guard')
        if isinstance(obj, bytearray) and is_sym(v):
            raise Unsupported('symbolic store into native bytearray')
        if isinstance(idx, (SInt, SBool)) and isinstance(obj, (list, dict, bytearray)):
            raise Unsupported('symbolic index store into native container')
        obj[idx] = v

    _BINOPS = {
        ast.Add: operator.add, ast.Sub: operator.sub, ast.Mult: operator.mul,
        ast.FloorDiv: operator.floordiv, ast.Mod: operator.mod, ast.Pow: operator.pow,
        ast.LShift: operator.lshift, ast.RShift: operator.rshift, ast.BitOr: operator.or_,
        ast.BitXor: operator.xor, ast.BitAnd: operator.and_, ast.Div: operator.truediv,
    }
    _IBINOPS = {
        ast.Add: operator.iadd, ast.Sub: operator.isub, ast.Mult: operator.imul,
        ast.FloorDiv: operator.ifloordiv, ast.Mod: operator.imod, ast.Pow: operator.ipow,
        ast.LShift: operator.ilshift, ast.RShift: operator.irshift, ast.BitOr: operator.ior,
        ast.BitXor: operator.ixor, ast.BitAnd: operator.iand, ast.Div: operator.itruediv,
    }

    def binop(self, op, a, b, inplace=False):
        t = type(op)
        if t is ast.Mult:
            # [v] * n with symbolic n
            for x, y in ((a, b), (b, a)):
                if isinstance(x, list) and isinstance(y, SInt):
                    if len(x) == 1 and isinstance(x[0], int):
                        return SRepeat(x[0], y)
                    raise Unsupported('list * symbolic int')
                if isinstance(x, (bytes, str)) and isinstance(y, SInt):
                    if isinstance(x, bytes) and len(x) == 1:
                        return SRepeat(x[0], y)
                    raise Unsupported('bytes * symbolic int')
        if t in (ast.FloorDiv, ast.Mod) and isinstance(a, (int, SInt)) and isinstance(b, SInt):
            raise Unsupported('division by symbolic value')
        if t in (ast.FloorDiv, ast.Mod) and isinstance(a, SInt) and isinstance(b, int) and b <= 0:
            if b == 0:
                raise PyRaise(ZeroDivisionError('integer division or modulo by zero'))
            raise Unsupported('division by negative constant')
        if t is ast.Div and (is_sym(a) or is_sym(b)):
            if isinstance(a, SInt) and isinstance(b, int) and not isinstance(b, bool) and b > 0:
                return SRatio(a, b)
            raise Unsupported('true division of symbolic value')
        if t is ast.Pow and (is_sym(a) or is_sym(b)):
            if isinstance(b, int) and b == 2:
                return a * a
            raise Unsupported('** on symbolic value')
        f = (self._IBINOPS if inplace else self._BINOPS).get(t)
        if f is None:
            raise Unsupported('operator %s' % t.__name__)
        if inplace and isinstance(a, (list, bytearray, VBytearray)):
            self.note_mutation(a)
        return f(a, b)

    def e_BinOp(self, n, fr):
        return self.binop(n.op, self.eval(n.left, fr), self.eval(n.right, fr))

    def e_UnaryOp(self, n, fr):
        v = self.eval(n.operand, fr)
        if isinstance(n.op, ast.Not):
            if isinstance(v, SQuant):
                return not self.decide(v)
            if isinstance(v, SBool):
                return s_not(v)
            if isinstance(v, SInt):
                return v == 0
            return not self.truth(v)
        if isinstance(n.op, ast.USub):
            return -v
        if isinstance(n.op, ast.UAdd):
            return +v
        if isinstance(n.op, ast.Invert):
            if is_sym(v):
                return -v - 1
            return ~v
        raise Unsupported('unary op')

    def e_BoolOp(self, n, fr):
        is_and = isinstance(n.op, ast.And)
        vals = n.values
        v = None
        for i, sub in enumerate(vals):
            v = self.eval(sub, fr)
            last = (i == len(vals) - 1)
            if last:
                return v
            if isinstance(v, (SBool,)) or (isinstance(v, SInt)):
                rest = vals[i + 1:]
                if isinstance(v, SBool) and all(_is_pure(r) for r in rest):
                    acc = [v]
                    ok = True
                    for r in rest:
                        rv = self.eval(r, fr)
                        if not isinstance(rv, (bool, SBool)):
                            ok = False
                            break
                        acc.append(rv)
                    if ok:
                        return s_and(*acc) if is_and else s_or(*acc)
                    raise Unsupported('non-boolean operand in merged boolean expression')
                t = self.decide(v)
                if is_and and not t:
                    return False if isinstance(v, SBool) else 0
                if (not is_and) and t:
                    if isinstance(v, SBool):
                        return True
                    return v
                continue
            t = self.truth(v)
            if is_and and not t:
                return v
            if (not is_and) and t:
                return v
        return v

    def compare_op(self, op, a, b):
        t = type(op)
        if t is ast.Is:
            return self._identical(a, b)
        if t is ast.IsNot:
            return not self._identical(a, b)
        if t in (ast.In, ast.NotIn):
            r = self.contains(b, a)
            return r if t is ast.In else s_not(r)
        if t in (ast.Eq, ast.NotEq) and (isinstance(a, T.StrTok) or isinstance(b, T.StrTok)):
            x, y = (a, b) if isinstance(a, T.StrTok) else (b, a)
            if isinstance(y, str):
                r = x.eq_const(y)
            elif y is None or isinstance(y, (int, float, tuple, list)):
                r = False
            elif y is x:
                r = True
            else:
                raise Unsupported('comparison of opaque texts')
            return r if t is ast.Eq else s_not(r)
        if isinstance(a, TupObj):
            a = a.items
        if isinstance(b, TupObj):
            b = b.items
        if isinstance(a, tuple) and isinstance(b, tuple) and t in (ast.Eq, ast.NotEq) and \
                (any(is_sym(x) for x in a) or any(is_sym(x) for x in b)):
            r = False if len(a) != len(b) else s_and(*[self.compare_op(ast.Eq(), x, y) for x, y in zip(a, b)])
            return r if t is ast.Eq else s_not(r)
        if t is ast.Eq:
            return a == b
        if t is ast.NotEq:
            return a != b
        if t is ast.Lt:
            return a < b
        if t is ast.LtE:
            return a <= b
        if t is ast.Gt:
            return a > b
        if t is ast.GtE:
            return a >= b
        raise Unsupported('comparison')

    def _identical(self, a, b):
        if is_sym(a) or is_sym(b):
            if a is None or b is None:
                return False
            if isinstance(a, (bool, SBool)) and isinstance(b, (bool, SBool)):
                return a == b
            raise Unsupported('identity comparison of symbolic values')
        return a is b

    def contains(self, cont, x):
        if isinstance(cont, TupObj):
            cont = cont.items
        if isinstance(x, SInt) and isinstance(cont, range):
            if cont.step > 0:
                r = s_and(x >= cont.start, x < cont.stop)
                if cont.step != 1:
                    r = s_and(r, (x - cont.start) % cont.step == 0)
                return r
        if is_sym(x):
            if isinstance(cont, (tuple, list, range, set, frozenset)) or hasattr(cont, 'keys') or \
                    isinstance(cont, type({}.values())):
                items = list(cont)
                if len(items) > 300:
                    raise Unsupported('membership of symbolic value in large container')
                return s_or(*[self.compare_op(ast.Eq(), x, c) for c in items])
            raise Unsupported('symbolic membership in %s' % type(cont).__name__)
        if isinstance(cont, (tuple, list)) and any(is_sym(c) for c in cont):
            return s_or(*[self.compare_op(ast.Eq(), x, c) for c in cont])
        if isinstance(cont, Obj):
            raise Unsupported('membership in object')
        return x in cont

    def e_Compare(self, n, fr):
        left = self.eval(n.left, fr)
        acc = []
        for op, rn in zip(n.ops, n.comparators):
            right = self.eval(rn, fr)
            r = self.compare_op(op, left, right)
            if isinstance(r, bool) or not is_sym(r):
                if not r:
                    if len(n.ops) == 1:
                        return r
                    return False
            else:
                acc.append(r)
            left = right
        if not acc:
            return True if len(n.ops) > 1 else r
        return s_and(*acc)

    def e_IfExp(self, n, fr):
        c = self.eval(n.test, fr)
        if isinstance(c, (SBool, SInt)) and _is_pure(n.body) and _is_pure(n.orelse):
            a = self.eval(n.body, fr)
            b = self.eval(n.orelse, fr)
            if isinstance(a, (int, SInt, SBool)) and isinstance(b, (int, SInt, SBool)):
                return s_ite(c, a, b)
            return a if self.decide(c) else b
        if self.truth(c):
            return self.eval(n.body, fr)
        return self.eval(n.orelse, fr)

    def e_Tuple(self, n, fr):
        return tuple(self._elts(n.elts, fr))

    def e_List(self, n, fr):
        return list(self._elts(n.elts, fr))

    def e_Set(self, n, fr):
        return set(self._elts(n.elts, fr))

    def _elts(self, elts, fr):
        out = []
        for e in elts:
            if isinstance(e, ast.Starred):
                out.extend(self.iterate(self.eval(e.value, fr)))
            else:
                out.append(self.eval(e, fr))
        return out

    def iterate(self, v):
        it = self.make_iter(v)
        out = []
        while True:
            try:
                out.append(next(it))
            except StopIteration:
                return out

    def e_Dict(self, n, fr):
        d = {}
        for k, v in zip(n.keys, n.values):
            if k is None:
                d.update(self.eval(v, fr))
            else:
                d[self.eval(k, fr)] = self.eval(v, fr)
        return d

    def e_Lambda(self, n, fr):
        return self.make_closure(n, fr, fr.qualname + '.<locals>.<lambda>')

    def e_JoinedStr(self, n, fr):
        parts = []
        for v in n.values:
            if isinstance(v, ast.Constant):
                parts.append(v.value)
            else:
                val = self.eval(v.value, fr)
                if T.is_text(val):
                    if v.conversion != -1 or v.format_spec is not None:
                        raise Unsupported('conversion / format spec on opaque text in f-string')
                    parts.append(val)
                    continue
                if is_sym(val) or isinstance(val, (SSeq, SBits, VBytearray, Obj, TupObj)):
                    parts.append('<sym>')
                else:
                    conv = {-1: '', 115: '!s', 114: '!r', 97: '!a'}[v.conversion]
                    spec = ''
                    if v.format_spec is not None:
                        spec = self.e_JoinedStr(v.format_spec, fr)
                    parts.append(('{0%s:%s}' % (conv, spec)).format(val))
        if any(T.is_text(p) for p in parts):
            return T.Rope([q for p in parts for q in T._pieces_of(p)])
        return ''.join(parts)

    def e_Starred(self, n, fr):
        raise Unsupported('starred expression')

    # ---- comprehensions (evaluated eagerly; generator expressions become iterators
    # over the eagerly computed list - sound for the side-effect-free generators of segno)
    def _comp(self, gens, fr, emit):
        def rec(i, cfr):
            if i == len(gens):
                emit(cfr)
                return
            g = gens[i]
            itv = self.eval(g.iter, cfr)
            if isinstance(itv, CountedList):
                raise _CountedComp(itv)
            if isinstance(itv, SRange) and isinstance(itv.start, int) and itv.step == 1:
                # small symbolic trip count: fork on its value (complete up to the stated limit, else unsupported)
                itv = range(itv.start, itv.start + self.concretize(itv.count(), 0, 16))
            if isinstance(itv, (SRange, SSeq, SBits, SRepeat)):
                raise Unsupported('comprehension over symbolic-length iterable in %s' % fr.qualname)
            it = self.make_iter(itv)
            while True:
                try:
                    v = next(it)
                except StopIteration:
                    break
                self.assign(g.target, v, cfr)
                ok = True
                for cond in g.ifs:
                    if not self.truth(self.eval(cond, cfr)):
                        ok = False
                        break
                if ok:
                    rec(i + 1, cfr)
        cfr = Frame(fr, fr.globals, fr.qualname, fr.modname, fr.func_node, fr.cls)
        rec(0, cfr)

    def e_ListComp(self, n, fr):
        out = []
        try:
            self._comp(n.generators, fr, lambda cfr: out.append(self.eval(n.elt, cfr)))
        except _CountedComp as cc:
            return self._counted_comp(n, fr, cc.cl)
        return out

    def e_GeneratorExp(self, n, fr):
        if len(n.generators) == 1 and not n.generators[0].ifs and not n.generators[0].is_async:
            g = n.generators[0]
            if _is_pure(g.iter):
                itv = self.eval(g.iter, fr)
                if isinstance(itv, SRange) and not isinstance(itv.start, int):
                    # (elt for x in range(symbolic, symbolic)): element k is computed on demand
                    def elem(k, itv=itv, g=g, n=n, fr=fr):
                        cfr = Frame(fr, fr.globals, fr.qualname, fr.modname, fr.func_node, fr.cls)
                        self.assign(g.target, itv.at(k), cfr)
                        return self.eval(n.elt, cfr)
                    lz = SLazySeq(itv.count(), elem, kind='generator')
                    lz.node, lz.target, lz.range, lz.frame = n, g.target, itv, fr
                    return lz
        r = self.e_ListComp(n, fr)
        if isinstance(r, CountedImage):
            return r
        return iter(r)

    def _counted_comp(self, n, fr, cl):
        """[f(x) for x in CountedList] -> CountedImage: value f(v) with multiplicity count[v]"""
        if len(n.generators) != 1:
            raise Unsupported('comprehension shape over abstracted list')
        g = n.generators[0]
        pairs = []
        for v, cnt in cl.counts.items():
            cfr = Frame(fr, fr.globals, fr.qualname, fr.modname, fr.func_node, fr.cls)
            self.assign(g.target, v, cfr)
            keep = True
            for cond in g.ifs:
                c = self.eval(cond, cfr)
                if is_sym(c):
                    raise Unsupported('symbolic filter over abstracted list')
                if not self.truth(c):
                    keep = False
                    break
            if not keep:
                continue
            try:
                val = self.eval(n.elt, cfr)
                pairs.append((val, cnt, None))
            except PyRaise as pr:
                pairs.append((None, cnt, pr.exc))
        return CountedImage(pairs)

    def e_SetComp(self, n, fr):
        out = set()
        self._comp(n.generators, fr, lambda cfr: out.add(self.eval(n.elt, cfr)))
        return out

    def e_DictComp(self, n, fr):
        out = {}

        def emit(cfr):
            out[self.eval(n.key, cfr)] = self.eval(n.value, cfr)
        self._comp(n.generators, fr, emit)
        return out

    # ---- calls
    def e_Call(self, n, fr):
        fn = n.func
        if isinstance(fn, ast.Name) and fn.id == 'super' and not n.args:
            first = fr.func_node.args.args[0].arg
            return SuperProxy(fr.cls, fr.locals[first])
        f = self.eval(fn, fr)
        args = []
        for a in n.args:
            if isinstance(a, ast.Starred):
                args.extend(self.iterate(self.eval(a.value, fr)))
            else:
                args.append(self.eval(a, fr))
        kwargs = {}
        for kw in n.keywords:
            if kw.arg is None:
                kwargs.update(self.eval(kw.value, fr))
            else:
                kwargs[kw.arg] = self.eval(kw.value, fr)
        return self.call_function(f, tuple(args), kwargs)


def _has_abstract(vals, depth=0):
    from . import strings as _T
    for v in vals:
        if isinstance(v, (SInt, SBool, SQuant, SRatio, SSeq, SBits, SRepeat, SLazySeq, VBytearray, Obj, TupObj, CountedList, OpaqueSeq, OpaqueElem,
                          OpaqueIter, FieldBuf, GFLin, GFLog, _T.StrTok, _T.Rope, Closure)):
            return True
        if depth < 2 and isinstance(v, (tuple, list)) and _has_abstract(v, depth + 1):
            return True
    return False


def _mentions(e, names):
    """does the z3 term mention an uninterpreted constant with one of the names"""
    seen = set()
    stack = [e]
    while stack:
        t = stack.pop()
        i = t.get_id()
        if i in seen:
            continue
        seen.add(i)
        if z3.is_const(t) and t.decl().kind() == z3.Z3_OP_UNINTERPRETED:
            if t.decl().name() in names:
                return True
        else:
            stack.extend(t.children())
    return False


class _Havocked:
    def __init__(self, name):
        self.name = name


class _CountedComp(Exception):
    def __init__(self, cl):
        self.cl = cl


class CountedImage:
    """image of a CountedList under a function: list of (value, multiplicity, exc)"""

    def __init__(self, pairs):
        self.pairs = pairs

    def __iter__(self):
        raise Unsupported('iteration over abstracted list')


def _tuple_new(cls, items=()):
    items = tuple(items)
    if cls is tuple:
        return items
    return TupObj(cls, items)


# ---------------------------------------------------------------------- builtin models
def _build_models(I):
    M = {}

    def m_len(x):
        if isinstance(x, (VBytearray, TupObj)):
            return len(x.items)
        if isinstance(x, FieldBuf):
            return x.bitlen
        if isinstance(x, (SSeq, SBits, OpaqueSeq)):
            return x.length
        if isinstance(x, SRepeat):
            return x.length()
        if isinstance(x, CountedList):
            return x.total()
        if isinstance(x, Obj):
            m = I.lookup_class_attr(x.cls, '__len__')
            if m is None:
                raise PyRaise(TypeError('object has no len()'))
            return I.call_function(m, (x,), {})
        if isinstance(x, (SInt, SBool)):
            raise PyRaise(TypeError("object of type 'int' has no len()"))
        return len(x)
    M[len] = m_len

    def m_range(*a):
        if any(isinstance(x, SInt) for x in a):
            if len(a) == 1:
                return SRange(0, a[0], 1)
            if len(a) == 2:
                return SRange(a[0], a[1], 1)
            return SRange(a[0], a[1], a[2])
        return range(*a)
    M[range] = m_range

    def _fold(vals, f):
        it = iter(vals)
        try:
            acc = next(it)
        except StopIteration:
            raise PyRaise(ValueError('arg is an empty sequence'))
        for v in it:
            acc = f(acc, v)
        return acc

    def _minmax(native, sf):
        def m(*a, **kw):
            if len(a) == 1 and isinstance(a[0], CountedImage) and not kw:
                return _counted_minmax(I, a[0], sf)
            if len(a) == 1 and not kw:
                vals = I.iterate(a[0])
                if any(is_sym(v) for v in vals):
                    return _fold(vals, sf)
                return native(vals)
            if kw:
                if 'key' in kw and len(a) == 1:
                    vals = I.iterate(a[0])
                    keys = [I.call_function(kw['key'], (v,), {}) for v in vals]
                    if any(is_sym(k) for k in keys):
                        raise Unsupported('min/max with symbolic key')
                    if not vals:
                        if 'default' in kw:
                            return kw['default']
                        raise PyRaise(ValueError('arg is an empty sequence'))
                    best = 0
                    for i in range(1, len(vals)):
                        if (native is max and keys[i] > keys[best]) or (native is min and keys[i] < keys[best]):
                            best = i
                    return vals[best]
                return native(*a, **kw)
            if any(is_sym(v) for v in a):
                return _fold(a, sf)
            return native(*a)
        return m
    M[min] = _minmax(min, s_min)
    M[max] = _minmax(max, s_max)

    def m_sum(it, start=0):
        if isinstance(it, CountedImage):
            acc = start
            for val, cnt, exc in it.pairs:
                if exc is not None:
                    # evaluating the element raises whenever such an element exists
                    if I.decide(cnt > 0):
                        raise PyRaise(exc)
                    continue
                acc = acc + val * cnt
            return acc
        acc = start
        for v in I.iterate(it):
            acc = acc + v
        return acc
    M[sum] = m_sum

    def m_any(it):
        if isinstance(it, SSeq):
            # any(s) == not (all cells are zero): decided as a bounded universal statement
            off = it.off
            return not I.decide_quant(SQuant(it.length, lambda k: it.raw_abs(off + k) == 0, name='allzero'))
        if isinstance(it, CountedImage):
            # order-insensitive: some element with multiplicity > 0 is true
            acc = []
            for val, cnt, exc in it.pairs:
                if exc is not None:
                    raise Unsupported('any() over abstracted list whose element expression raises')
                t = val if isinstance(val, SBool) else ((val != 0) if isinstance(val, SInt) else bool(val))
                acc.append(s_and(cnt > 0, t))
            return s_or(*acc) if acc else False
        vals = I.iterate(it)
        acc = []
        for v in vals:
            if isinstance(v, SBool):
                acc.append(v)
            elif isinstance(v, SInt):
                acc.append(v != 0)
            elif I.truth(v):
                return True
        return s_or(*acc) if acc else False
    M[any] = m_any

    def m_all(it):
        if isinstance(it, CountedImage):
            acc = []
            for val, cnt, exc in it.pairs:
                if exc is not None:
                    raise Unsupported('all() over abstracted list whose element expression raises')
                t = val if isinstance(val, SBool) else ((val != 0) if isinstance(val, SInt) else bool(val))
                acc.append(s_or(cnt <= 0, t))
            return s_and(*acc) if acc else True
        vals = I.iterate(it)
        acc = []
        for v in vals:
            if isinstance(v, SBool):
                acc.append(v)
            elif isinstance(v, SInt):
                acc.append(v != 0)
            elif not I.truth(v):
                return False
        return s_and(*acc) if acc else True
    M[all] = m_all

    def m_int(x=0, base=None):
        if isinstance(x, SInt):
            return x
        if isinstance(x, SBool):
            return SInt(_z(x), 0, 1)
        if isinstance(x, SDigits):
            if base != 2:
                raise Unsupported('int(symbolic digits) base %r' % (base,))
            acc = 0
            for d in x.digits:
                if is_sym(d):
                    if not (d.lo is not None and d.hi is not None and d.lo >= 0 and d.hi <= 1):
                        I.oblige('int-base2-digit', s_and(d >= 0, d <= 1), kind='safety')
                acc = acc * 2 + d
            return acc
        if isinstance(x, (VBytearray, SSeq)):
            return _int_of_bytes(I, x, base)
        if base is None:
            return int(x)
        return int(x, base)
    M[int] = m_int

    def m_str(x=''):
        if isinstance(x, (T.StrTok, T.Rope)):
            return x
        if isinstance(x, SInt):
            if x.lo is not None and x.hi is not None and 0 <= x.lo and x.hi <= 9:
                return SDigits([x])
            raise Unsupported('str() of symbolic int')
        if isinstance(x, SBool):
            raise Unsupported('str() of symbolic bool')
        if isinstance(x, (VBytearray, SSeq, SBits, Obj, TupObj)):
            raise Unsupported('str() of %s' % type(x).__name__)
        return str(x)
    M[str] = m_str

    def m_bool(x=False):
        if isinstance(x, SBool):
            return x
        if isinstance(x, SInt):
            return x != 0
        return I.truth(x)
    M[bool] = m_bool

    def m_abs(x):
        return abs(x)
    M[abs] = m_abs

    def m_divmod(a, b):
        if is_sym(a) or is_sym(b):
            if isinstance(b, SInt):
                # small symbolic divisor: fork on its value
                b = I.concretize(b, -1, 17)
            if b == 0:
                raise PyRaise(ZeroDivisionError('integer division or modulo by zero'))
            if b < 0:
                raise Unsupported('divmod by negative constant')
            return (a // b, a % b)
        return divmod(a, b)
    M[divmod] = m_divmod

    def m_isinstance(v, t):
        ts = t if isinstance(t, tuple) else (t,)
        for tt in ts:
            if _isinst(v, tt):
                return True
        return False
    M[isinstance] = m_isinstance

    def m_iter(v, *a):
        if a:
            raise Unsupported('iter with sentinel')
        return I.make_iter(v)
    M[iter] = m_iter

    def m_next(it, *default):
        try:
            return next(it)
        except StopIteration:
            if default:
                return default[0]
            raise PyRaise(StopIteration())
    M[next] = m_next

    def m_bytearray(x=(), *a):
        if a:
            raise Unsupported('bytearray(str, encoding)')
        if isinstance(x, SInt):
            if I.decide(x < 0):
                raise PyRaise(ValueError('negative count'))
            return SMutSeq(z3.K(z3.IntSort(), z3.IntVal(0)), x, 0, 0, 255, 'bytearray')
        if isinstance(x, int):
            return VBytearray([0] * x)
        if isinstance(x, (SSeq, SBits, SRepeat)):
            raise Unsupported('bytearray(symbolic-length sequence)')
        b = VBytearray()
        b.extend(I.iterate(x))
        return b
    M[bytearray] = m_bytearray

    def m_bytes(x=(), *a):
        if a or isinstance(x, str):
            return bytes(x, *a)
        if isinstance(x, (VBytearray,)):
            if any(is_sym(i) for i in x.items):
                return VBytes(x.items)
            return bytes(x.items)
        if isinstance(x, SSeq):
            return x
        if isinstance(x, int) and not is_sym(x):
            return bytes(x)
        vals = I.iterate(x)
        if any(is_sym(i) for i in vals):
            b = VBytes()
            for i in vals:
                b.items.append(b._check_byte(i))
            return b
        return bytes(vals)
    M[bytes] = m_bytes

    def m_tuple(x=()):
        if isinstance(x, tuple):
            return x
        if isinstance(x, SLazySeq):
            lz = SLazySeq(x.length, x.elem, kind='tuple')
            for a in ('block_count', 'block_len', 'block_elem'):
                if hasattr(x, a):
                    setattr(lz, a, getattr(x, a))
            return lz
        return tuple(I.iterate(x))
    M[tuple] = m_tuple

    def m_list(x=()):
        return list(I.iterate(x))
    M[list] = m_list

    def m_map(f, *its):
        cols = [I.iterate(it) for it in its]
        return iter([I.call_function(f, xs, {}) for xs in zip(*cols)])
    M[map] = m_map

    def m_filter(f, it):
        out = []
        for v in I.iterate(it):
            if I.truth(v if f is None else I.call_function(f, (v,), {})):
                out.append(v)
        return iter(out)
    M[filter] = m_filter

    def m_enumerate(it, start=0):
        return enumerate(I.iterate(it), start)
    M[enumerate] = m_enumerate

    def m_zip(*its):
        return zip(*[I.iterate(it) for it in its])
    M[zip] = m_zip

    def m_reversed(x):
        if isinstance(x, (VBytearray, TupObj)):
            return iter(list(reversed(x.items)))
        return reversed(x)
    M[reversed] = m_reversed

    def m_sorted(it, **kw):
        vals = I.iterate(it)
        if any(is_sym(v) for v in vals):
            raise Unsupported('sorted of symbolic values')
        return sorted(vals, **kw)
    M[sorted] = m_sorted

    def m_float(x=0.0):
        if is_sym(x):
            raise Unsupported('float of symbolic value')
        return float(x)
    M[float] = m_float

    def m_ceil(x):
        if isinstance(x, SRatio):
            return x.ceil()
        if is_sym(x):
            raise Unsupported('ceil of symbolic value')
        return math.ceil(x)
    M[math.ceil] = m_ceil

    def m_reduce(f, it, *init):
        vals = I.iterate(it)
        if init:
            acc = init[0]
        else:
            if not vals:
                raise PyRaise(TypeError('reduce() of empty iterable with no initial value'))
            acc, vals = vals[0], vals[1:]
        for v in vals:
            acc = I.call_function(f, (acc, v), {})
        return acc
    M[functools.reduce] = m_reduce

    def m_chain_from_iterable(its):
        if isinstance(its, SLazySeq) and its.kind == 'generator':
            # chain.from_iterable(repeat(E(x), c) for x in range(..)) with c independent of x:
            # the concatenation has length N * c and element p is E(x_(p // c))
            elt = its.node.elt
            tnames = {n_.id for n_ in ast.walk(its.target) if isinstance(n_, ast.Name)}
            if isinstance(elt, ast.Call) and not elt.keywords and len(elt.args) == 2 and I.eval(elt.func, its.frame) is itertools.repeat \
                    and not any(isinstance(n_, ast.Name) and n_.id in tnames for n_ in ast.walk(elt.args[1])) and _is_pure(elt.args[1]):
                c = I.eval(elt.args[1], its.frame)
                if isinstance(c, SInt) and I.decide(c < 0):
                    c = 0
                gen = its

                def block_elem(q):
                    cfr = Frame(gen.frame, gen.frame.globals, gen.frame.qualname, gen.frame.modname, gen.frame.func_node, gen.frame.cls)
                    I.assign(gen.target, gen.range.at(q), cfr)
                    return I.eval(elt.args[0], cfr)

                def elem(p):
                    if isinstance(c, int) and c > 0:
                        return block_elem(p // c)
                    raise Unsupported('element of a concatenation of symbolic-length repeats by absolute position (use block_elem)')
                lz = SLazySeq(its.length * c, elem, kind='iterator')
                lz.block_count, lz.block_len, lz.block_elem = its.length, c, block_elem
                return lz
            raise Unsupported('chain.from_iterable over a lazy generator of unknown shape')
        out = []
        for it in I.iterate(its):
            out.extend(I.iterate(it))
        return iter(out)
    M[itertools.chain.from_iterable] = m_chain_from_iterable

    def m_chain(*its):
        out = []
        for it in its:
            out.extend(I.iterate(it))
        return iter(out)
    M[itertools.chain] = m_chain

    def m_islice(it, *a):
        if any(is_sym(x) for x in a):
            raise Unsupported('islice with symbolic bound')
        if isinstance(it, (list, tuple, VBytearray)):
            it = iter(it)
        return iter(list(itertools.islice(it, *a)))
    M[itertools.islice] = m_islice

    def m_zip_longest(*its, fillvalue=None):
        cols = []
        for it in its:
            if hasattr(it, '__next__'):
                cols.append(it)
            else:
                cols.append(I.make_iter(it))
        return itertools.zip_longest(*cols, fillvalue=fillvalue)
    M[itertools.zip_longest] = m_zip_longest

    def m_repeat(v, *n):
        if n and is_sym(n[0]):
            return SRepeat(v, n[0])
        return itertools.repeat(v, *n)
    M[itertools.repeat] = m_repeat

    def m_product(*its, repeat=1):
        return itertools.product(*[I.iterate(it) for it in its], repeat=repeat)
    M[itertools.product] = m_product

    def m_partial(f, *a, **kw):
        return functools.partial(_CallableProxy(f) if not callable(f) else f, *a, **kw)
    M[functools.partial] = m_partial

    def m_xor(a, b):
        return a ^ b
    M[operator.xor] = m_xor
    M[operator.lt] = lambda a, b: a < b
    M[operator.gt] = lambda a, b: a > b
    return M


class _CallableProxy:
    def __init__(self, f):
        self.f = f

    def __call__(self, *a, **k):
        return CUR[0].call_function(self.f, a, k)


def _isinst(v, t):
    if isinstance(v, (T.StrTok, T.Rope)):
        return t in (str, object)
    if isinstance(v, SInt):
        return t in (int, object)
    if isinstance(v, SBool):
        return t in (bool, int, object)
    if isinstance(v, VBytes):
        return t in (bytes, object)
    if isinstance(v, VBytearray):
        return t in (bytearray, object)
    if isinstance(v, SSeq):
        return t in (bytes, object)
    if isinstance(v, SBits):
        return t in (bytearray, object)
    if isinstance(v, SDigits):
        return t in (str, object)
    if isinstance(v, (Obj,)):
        return isinstance(t, type) and issubclass(v.cls, t)
    if isinstance(v, TupObj):
        return isinstance(t, type) and issubclass(v.cls, t)
    return isinstance(v, t)


def _counted_minmax(I, img, sf):
    """max/min over the image of an abstracted list: fold over the values whose
    multiplicity is positive (fork on emptiness of each class)."""
    acc = None
    for val, cnt, exc in img.pairs:
        if I.decide(cnt > 0):
            if exc is not None:
                raise PyRaise(exc)
            acc = val if acc is None else sf(acc, val)
    if acc is None:
        raise PyRaise(ValueError('max() arg is an empty sequence'))
    return acc


def _int_of_bytes(I, x, base):
    """int(b'123') for digit-only content (precondition checked as obligation path)"""
    if base not in (None, 10):
        raise Unsupported('int(bytes, base)')
    if isinstance(x, VBytearray):
        items = x.items
    else:
        n = x.length
        if is_sym(n):
            cnt = None
            for c in range(0, 5):
                if I.decide(n == c):
                    cnt = c
                    break
            if cnt is None:
                raise Unsupported('int() of symbolic-length bytes longer than 4')
        else:
            cnt = n
        items = [x.at(i) for i in range(cnt)]
    if not items:
        raise PyRaise(ValueError("invalid literal for int() with base 10: b''"))
    acc = 0
    alld = s_and(*[s_and(d >= 48, d <= 57) for d in items])
    if alld is not True:
        if alld is False or not I.decide(alld):
            # non-digit content: CPython accepts sign / whitespace / underscores in
            # some positions; not modelled
            raise Unsupported('int() of bytes that are not all ASCII digits')
    for d in items:
        acc = acc * 10 + (d - 48)
    return acc


def charclass_of_pattern(pat):
    """{'set': byte values, 'min': 0|1} for a compiled pattern of the shape ^[set]+\\Z or ^[set]*\\Z"""
    import re
    try:
        import re._parser as sp
        import re._constants as sc
    except ImportError:       # Python < 3.11
        import sre_parse as sp
        import sre_constants as sc
    if pat.flags & ~(re.UNICODE | re.ASCII):
        raise Unsupported('regular expression flags %r' % pat.flags)
    items = list(sp.parse(pat.pattern, pat.flags))
    if len(items) != 3 or items[0] != (sc.AT, sc.AT_BEGINNING) or items[2] != (sc.AT, sc.AT_END_STRING):
        raise Unsupported('regular expression shape %r' % (pat.pattern,))
    op, arg = items[1]
    if op not in (sc.MAX_REPEAT,):
        raise Unsupported('regular expression shape %r' % (pat.pattern,))
    lo, hi, sub = arg
    if hi != sc.MAXREPEAT or lo not in (0, 1) or len(sub) != 1:
        raise Unsupported('regular expression repeat %r' % (pat.pattern,))
    sop, sarg = sub[0]
    chars = set()
    if sop == sc.LITERAL:
        chars.add(sarg)
    elif sop == sc.IN:
        for kind, val in sarg:
            if kind == sc.LITERAL:
                chars.add(val)
            elif kind == sc.RANGE:
                chars.update(range(val[0], val[1] + 1))
            else:
                raise Unsupported('regular expression class item %r' % (kind,))
    else:
        raise Unsupported('regular expression shape %r' % (pat.pattern,))
    return dict(set=chars, min=lo)


def _build_method_models(I):
    MM = {}

    def bytes_find(self, sub, *a):
        if isinstance(sub, SInt):
            if a:
                raise Unsupported('bytes.find(symbolic, start)')
            # first index of byte value sub in concrete bytes, -1 if absent
            res = -1
            for i in reversed(range(len(self))):
                res = s_ite(sub == self[i], i, res)
            if isinstance(res, SInt):
                res.lo, res.hi = -1, len(self) - 1
            return res
        if isinstance(sub, (VBytearray,)):
            if len(sub.items) == 1:
                return bytes_find(self, sub.items[0], *a)
            raise Unsupported('bytes.find(symbolic bytes)')
        if isinstance(sub, SSeq):
            ln = sub.length
            if is_sym(ln):
                if I.decide(ln == 1):
                    return bytes_find(self, sub.at(0), *a)
                raise Unsupported('bytes.find(symbolic-length bytes)')
            if ln == 1:
                return bytes_find(self, sub.at(0), *a)
            raise Unsupported('bytes.find(symbolic bytes)')
        return self.find(sub, *a)
    MM[(bytes, 'find')] = bytes_find

    def sseq_find(self, sub, start=0, *a):
        """s.find(pattern[, start]) of a symbolic-length sequence with a concrete pattern: the least position
        >= start at which the pattern occurs, -1 if there is none (axiomatised, quantifier over the skipped positions)"""
        if a:
            raise Unsupported('find with end')
        pat = list(sub.items) if isinstance(sub, VBytearray) else list(sub)
        if not pat or any(is_sym(x) for x in pat):
            raise Unsupported('find of symbolic / empty pattern')
        m = len(pat)
        n = self.length
        off = self.off
        if isinstance(start, (SInt, int)) and (start < 0) is not False:
            if (start < 0) is True or I.decide(start < 0):
                raise Unsupported('find with negative start')

        def match(k):
            return s_and(*[self.raw_abs(off + k + t) == pat[t] for t in range(m)])
        r = I.fresh_int('find', -1, None)
        I.assume(s_or(r == -1, s_and(r >= start, r + m <= n, match(r))))
        I.assume(QForall(lambda k: s_implies(s_and(k >= start, k + m <= n, s_or(r == -1, k < r)), s_not(match(k))), 'find_skipped'))
        I.add_index_term(r)
        return r
    MM[(SSeq, 'find')] = sseq_find
    MM[(SMutSeq, 'find')] = sseq_find

    def str_join(self, it):
        vals = I.iterate(it)
        if any(T.is_text(v) for v in vals):
            return T.join(self, vals)
        if any(isinstance(v, SDigits) for v in vals):
            if self != '':
                raise Unsupported('join with separator of symbolic digits')
            ds = []
            for v in vals:
                if isinstance(v, SDigits):
                    ds.extend(v.digits)
                elif isinstance(v, str) and v.isdigit():
                    ds.extend(int(c) for c in v)
                else:
                    raise Unsupported('join of mixed symbolic strings')
            return SDigits(ds)
        return self.join(vals)
    MM[(str, 'join')] = str_join

    def str_format(self, *a, **kw):
        if any(T.is_text(v) for v in a) or any(T.is_text(v) for v in kw.values()):
            if kw:
                raise Unsupported('keyword format fields with opaque text')
            return T.format_positional(self, a)
        return self.format(*a, **kw)
    MM[(str, 'format')] = str_format

    def list_index(self, x, *a):
        if is_sym(x):
            for i, v in enumerate(self):
                if I.decide(v == x):
                    return i
            raise ValueError('x not in list')
        return self.index(x, *a)
    MM[(list, 'index')] = list_index

    def list_append(self, x):
        I.note_mutation(self)
        self.append(x)
    MM[(list, 'append')] = list_append

    def list_pop(self, *a):
        I.note_mutation(self)
        return self.pop(*a)
    MM[(list, 'pop')] = list_pop

    def list_extend(self, it):
        I.note_mutation(self)
        self.extend(I.iterate(it))
    MM[(list, 'extend')] = list_extend

    def dict_get(self, k, *d):
        if is_sym(k):
            raise Unsupported('dict.get(symbolic)')
        return self.get(k, *d)
    MM[(dict, 'get')] = dict_get

    def sseq_isdigit(self):
        return self.isdigit()
    MM[(SSeq, 'isdigit')] = sseq_isdigit

    import re as _re

    def pattern_match(self, data, *a):
        """re.Pattern.match on symbolic bytes: only the shape ^[set]+\\Z / ^[set]*\\Z is
        given semantics, read mechanically from the compiled pattern object"""
        if isinstance(data, (T.StrTok, T.Rope)):
            if not isinstance(data, T.StrTok):
                raise Unsupported('regular expression on composite opaque text')
            import z3 as _z3
            return SBool(_z3.Bool('matches_%s_%d' % (data.name, abs(hash(self.pattern)) % 100000)))
        if not isinstance(data, (SSeq, VBytearray)):
            return self.match(data, *a)
        if a:
            raise Unsupported('Pattern.match with pos')
        cls = charclass_of_pattern(self)
        if isinstance(data, VBytearray):
            data_len = len(data.items)
            at = lambda k: data.items[k] if isinstance(k, int) else I.select_concrete_list(data.items, k)
            if data_len < cls['min']:
                return None
            return s_and(*[s_or(*[x == c for c in sorted(cls['set'])]) for x in data.items]) or None
        body = lambda k: s_or(*[data.raw_abs(data.off + k) == c for c in sorted(cls['set'])])
        return SQuant(data.length, body, nonempty=cls['min'] >= 1, name='regex')
    MM[(_re.Pattern, 'match')] = pattern_match

    def sbits_extend(self, it):
        I.note_mutation(self)
        if isinstance(it, (SRepeat, SBits, SSeq)):
            return self.extend(it)
        return self.extend(I.iterate(it))
    MM[(SBits, 'extend')] = sbits_extend

    def vba_extend(self, it):
        I.note_mutation(self)
        if isinstance(it, (SRepeat, SSeq, SBits)):
            raise Unsupported('extend of concrete-length bytearray by symbolic-length sequence')
        return self.extend(I.iterate(it))
    MM[(VBytearray, 'extend')] = vba_extend

    def vba_append(self, v):
        I.note_mutation(self)
        return self.append(v)
    MM[(VBytearray, 'append')] = vba_append

    def vba_pop(self, *a):
        I.note_mutation(self)
        return self.pop(*a)
    MM[(VBytearray, 'pop')] = vba_pop
    return MM
