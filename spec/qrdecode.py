"""ISO/IEC 18004:2015 reference decoder for QR Code (versions 1-40) and Micro QR
Code (M1-M4) module matrices.

Written from the standard (reference decode algorithm, clause 12 and the clauses
it refers to: 6.3 symbol structure, 7.3-7.4 data encodation, 7.5 error
correction, 7.6 final message, 7.7 placement, 7.8 masking, 7.9 format
information, 7.10 version information, clause 8 structured append; Hanzi mode
from GB/T 18284-2000).  Tables and geometry come from the harness' own
specification modules spec.iso, spec.layout and spec.gf; nothing is imported
from segno and nothing is modelled after segno's encoder.

The decoder works on an ideal module matrix (sequence of rows of 0/1 ints, 1 =
dark, no quiet zone).  It is strict: everything that deviates from the standard
is collected in ``Decoded.problems`` - decode() itself never raises.

The only deliberately tolerated place is the filler that follows the last
segment (terminator, zero bits to the codeword boundary, pad codewords): a
reader never interprets those bits, so violations are reported in
``Decoded.terminator_and_padding`` ('tail_ok' False, details in 'tail_errors')
and NOT in ``problems``.

Version numbering is the one of spec.iso: M1..M4 = -3..0, QR 1..40 = 1..40.
"""
from . import iso, layout, gf

__all__ = ['Segment', 'Decoded', 'decode', 'corrupt_and_decode', 'expected_payload',
           'rs_correct', 'ALPHANUMERIC_TABLE']

# ISO Table 5: encoding/decoding table for alphanumeric mode (value = index)
ALPHANUMERIC_TABLE = '0123456789ABCDEFGHIJKLMNOPQRSTUVWXYZ $%*+-./:'
assert len(ALPHANUMERIC_TABLE) == 45

# ISO 7.4.10: pad codewords 11101100 and 00010001 alternately
PAD_CODEWORDS = (0b11101100, 0b00010001)

DATA_MODES = ('numeric', 'alphanumeric', 'byte', 'kanji', 'hanzi')

# ISO Table 2 (QR Code symbols), 4-bit mode indicators
_QR_MODES = {
    0b0001: 'numeric',
    0b0010: 'alphanumeric',
    0b0100: 'byte',
    0b1000: 'kanji',
    0b1101: 'hanzi',               # GB/T 18284-2000
    0b0111: 'eci',
    0b0011: 'structured_append',
    0b0101: 'fnc1_first',          # FNC1 in first position (7.4.8.2)
    0b1001: 'fnc1_second',         # FNC1 in second position (7.4.8.3), + 8 bit application indicator
}
assert all(_QR_MODES[iso.MODE_INDICATOR[m]] == m for m in iso.MODE_INDICATOR)
assert _QR_MODES[iso.MODE_ECI] == 'eci' and _QR_MODES[iso.MODE_SA] == 'structured_append'

_MICRO_MODES = dict((val, name) for name, val in iso.MICRO_MODE_INDICATOR.items())

_HALF = (iso.M1, iso.M3)     # versions whose final data codeword is 4 bits long


class Segment(object):
    """One segment of the data bit stream.

    mode        'numeric', 'alphanumeric', 'byte', 'kanji', 'hanzi', 'eci',
                'structured_append' (and, for completeness of ISO Table 2,
                'fnc1_first' / 'fnc1_second', which segno never emits)
    char_count  value of the character count indicator (0 for header-only segments)
    data        numeric: ASCII digits; alphanumeric: ASCII characters; byte: raw
                bytes; kanji: Shift JIS double bytes; hanzi: GB2312 double bytes;
                header-only segments: b''
    eci         'eci' segment: the assignment number; data segment: the ECI
                assignment number in force or None
    bits        (start, end) bit offsets in the data bit stream, start = first bit
                of the mode indicator, end = one past the last bit of the segment
    data_start  offset of the first data bit (after mode indicator / subset / count)
    subset      hanzi: value of the 4-bit subset indicator, else None
    value       'structured_append': (position, total, parity); 'fnc1_second':
                application indicator; else None
    """
    __slots__ = ('mode', 'char_count', 'data', 'eci', 'bits', 'data_start', 'subset', 'value')

    def __init__(self, mode, char_count, data, eci, bits, data_start=None, subset=None, value=None):
        self.mode = mode
        self.char_count = char_count
        self.data = data
        self.eci = eci
        self.bits = bits
        self.data_start = bits[0] if data_start is None else data_start
        self.subset = subset
        self.value = value

    def is_data(self):
        return self.mode in DATA_MODES

    def __repr__(self):
        return 'Segment(%s, count=%d, data=%r, eci=%r, bits=%r)' % (
            self.mode, self.char_count, self.data, self.eci, self.bits)


class Decoded(object):
    """Result of decode().  Attributes that could not be determined keep their
    initial value (None / empty); `problems` says why.

    version, is_micro, level, mask   read from the symbol (size, format information)
    format_copies / version_copies   raw 15-bit / 18-bit words of each copy
    codewords        all codewords in placement order after unmasking, exactly as
                     read (never corrected); the 4-bit codeword of M1/M3 is given as
                     its value shifted to the high nibble
    remainder_bits   the bits after the last codeword, after unmasking
    blocks           [(data codewords, ec codewords)] per RS block in ISO order
                     (after correction when correct_errors was requested)
    syndromes_ok     all syndromes of all blocks are zero AS READ
    block_syndromes_ok, errors_corrected, uncorrectable_blocks   per-block detail
    data_bits        data bit stream, len == iso.data_capacity_bits(version, level)
    segments         list of Segment
    sa               (m, n, parity): position m (1..16) of n (1..16) symbols, i.e.
                     the stored 4-bit fields + 1 as ISO clause 8 defines them;
                     sa_raw has the three fields exactly as stored
    payload          concatenated data of the numeric/alphanumeric/byte/kanji/hanzi segments
    end_of_data      bit offset after the last segment (None: parsing abandoned)
    terminator_and_padding   {'terminator_bits', 'padding_bits', 'pad_codewords',
                     'tail_ok', 'tail_errors', 'extra_zero_codeword'[, 'final_nibble']}
    problems         every violation of the standard found (each entry starts with
                     a class tag: size, module, function-pattern, format,
                     version-info, remainder, rs, stream, internal)
    """

    def __init__(self):
        self.size = None
        self.version = None            # iso numbering (M1..M4 = -3..0)
        self.is_micro = None
        self.level = None              # 'L','M','Q','H' or None (M1)
        self.mask = None               # data mask pattern reference as stored in the format information
        self.format_copies = []        # raw 15-bit words of each copy (QR: 2, Micro: 1)
        self.version_copies = []       # raw 18-bit words (v >= 7: lower left, upper right)
        self.codewords = []            # as read, placement order, after unmasking
        self.remainder_bits = []       # bits after the last codeword, after unmasking
        self.blocks = []               # [(data codewords, ec codewords)] (after correction if requested)
        self.syndromes_ok = False      # as read (before any correction)
        self.block_syndromes_ok = []   # per block, as read
        self.errors_corrected = []     # correct_errors: per block number of codewords corrected
        self.uncorrectable_blocks = []  # correct_errors: indices of blocks that could not be corrected
        self.data_bits = []
        self.segments = []
        self.sa = None                 # (position m 1..16, total n 1..16, parity) - ISO stores m-1 and n-1
        self.sa_raw = None             # the three fields exactly as stored (m-1, n-1, parity)
        self.payload = b''
        self.end_of_data = None        # offset of the first bit after the last segment
        self.terminator_and_padding = {}
        self.problems = []
        self.injected = None           # corrupt_and_decode: [(block, index in block, xor value)]

    @property
    def ok(self):
        return not self.problems

    @property
    def version_name(self):
        return None if self.version is None else iso.version_name(self.version)

    def __repr__(self):
        return 'Decoded(version=%r, level=%r, mask=%r, payload=%r, problems=%r)' % (
            self.version_name, self.level, self.mask, self.payload, self.problems)


# ------------------------------------------------------------------ geometry helpers
_order_cache = {}


def _placement_order(v):
    if v not in _order_cache:
        _order_cache[v] = layout.placement_order(v)
    return _order_cache[v]


def version_from_size(size):
    """ISO 6.1 / 6.3.2: 17+4v modules for QR version v, 9+2k for Micro Mk; None if
    the size is not a symbol size"""
    if size in (11, 13, 15, 17):
        return (size - 9) // 2 - 4
    if 21 <= size <= 177 and (size - 17) % 4 == 0:
        return (size - 17) // 4
    return None


def _block_shapes(v, level):
    """[(total, data)] per block in ISO order (shorter blocks first)"""
    out = []
    for nb, total, data in iso.block_structure(v, level):
        out.extend([(total, data)] * nb)
    return out


def _interleave_index(shapes):
    """ISO 7.6: the final message is data codeword 1 of block 1, of block 2, ...,
    data codeword 2 of block 1, ... (blocks that are exhausted are skipped), then
    the error correction codewords the same way.  Returns, per block, the list of
    positions in the final sequence of its data codewords and of its ec codewords."""
    data_idx = [[] for _ in shapes]
    ec_idx = [[] for _ in shapes]
    pos = 0
    for i in range(max(dat for tot, dat in shapes)):
        for b, (tot, dat) in enumerate(shapes):
            if i < dat:
                data_idx[b].append(pos)
                pos += 1
    for i in range(max(tot - dat for tot, dat in shapes)):
        for b, (tot, dat) in enumerate(shapes):
            if i < tot - dat:
                ec_idx[b].append(pos)
                pos += 1
    return data_idx, ec_idx


def _codeword_lengths(v, level):
    """bit length of every codeword in placement order (M1/M3: the last data
    codeword is 4 bits long, 7.4.10)"""
    shapes = _block_shapes(v, level)
    n = sum(tot for tot, dat in shapes)
    lengths = [8] * n
    if v in _HALF:
        lengths[shapes[0][1] - 1] = 4
    return lengths


def _format_table(v):
    """word -> (version or None, level, mask) for every valid format information.
    QR: level x mask (the word does not depend on the version).  Micro: the symbol
    number encodes version and level (Table 13)."""
    table = {}
    if v >= 1:
        for level in iso.LEVELS:
            for mask in range(layout.n_masks(v)):
                table[layout.format_word(v, level, mask)] = (None, level, mask)
    else:
        for mv in iso.MICRO:
            for level in iso.levels_of(mv):
                for mask in range(layout.n_masks(mv)):
                    table[layout.format_word(mv, level, mask)] = (mv, level, mask)
    return table


def _popcount(x):
    return bin(x).count('1')


# ------------------------------------------------------------------ Reed-Solomon decoding
def _poly_eval(poly, x):
    """poly[i] = coefficient of x^i"""
    y = 0
    for c in reversed(poly):
        y = gf.mul(y, x) ^ c
    return y


def rs_correct(codeword, n_ec, max_errors=None):
    """Correct up to max_errors (default floor(n_ec/2)) codeword errors in one
    RS block (first element = highest-degree coefficient, generator roots
    alpha^0 .. alpha^(n_ec-1)).

    Berlekamp-Massey (error locator), Chien search (error positions), Forney
    (error values); the result is accepted only if all syndromes of the corrected
    block are zero.  Returns (corrected list, [positions corrected]) or
    (None, reason string)."""
    cw = list(codeword)
    n = len(cw)
    if max_errors is None:
        max_errors = n_ec // 2
    S = gf.syndromes(cw, n_ec)
    if not any(S):
        return cw, []
    # Berlekamp-Massey: sigma(x) = prod (1 - X_k x), C[i] = coefficient of x^i
    C = [1]
    B = [1]
    L = 0
    m = 1
    b = 1
    for r in range(n_ec):
        delta = S[r]
        for i in range(1, L + 1):
            if i < len(C) and C[i]:
                delta ^= gf.mul(C[i], S[r - i])
        if delta == 0:
            m += 1
            continue
        coef = gf.mul(delta, gf.inv(b))
        T = list(C)
        if len(C) < len(B) + m:
            C = C + [0] * (len(B) + m - len(C))
        for i, bc in enumerate(B):
            if bc:
                C[i + m] ^= gf.mul(coef, bc)
        if 2 * L <= r:
            L = r + 1 - L
            B = T
            b = delta
            m = 1
        else:
            m += 1
    while len(C) > 1 and C[-1] == 0:
        C.pop()
    if len(C) - 1 != L:
        return None, 'error locator degree %d does not match register length %d' % (len(C) - 1, L)
    if L > max_errors:
        return None, 'more than %d errors' % max_errors
    # Chien search: error at list index k  <=>  locator X = alpha^(n-1-k)
    found = []
    for p in range(n):
        if _poly_eval(C, gf.alpha_pow((255 - p) % 255)) == 0:
            found.append(p)
    if len(found) != L:
        return None, 'error locator has %d roots inside the block, degree %d' % (len(found), L)
    # Forney: Omega(x) = S(x) sigma(x) mod x^n_ec;  e_k = X_k Omega(X_k^-1) / sigma'(X_k^-1)   (first root alpha^0)
    omega = [0] * n_ec
    for i in range(n_ec):
        acc = 0
        for j in range(min(i, L) + 1):
            if C[j] and S[i - j]:
                acc ^= gf.mul(C[j], S[i - j])
        omega[i] = acc
    deriv = [C[i] if i % 2 == 1 else 0 for i in range(1, len(C))]   # d/dx in characteristic 2
    positions = []
    for p in found:
        X = gf.alpha_pow(p)
        Xinv = gf.inv(X)
        den = _poly_eval(deriv, Xinv)
        if den == 0:
            return None, 'Forney denominator is zero'
        e = gf.mul(X, gf.mul(_poly_eval(omega, Xinv), gf.inv(den)))
        if e == 0:
            return None, 'Forney error value is zero'
        cw[n - 1 - p] ^= e
        positions.append(n - 1 - p)
    if any(gf.syndromes(cw, n_ec)):
        return None, 'syndromes not zero after correction'
    return cw, sorted(positions)


# ------------------------------------------------------------------ matrix reading
def _read_matrix(matrix, d):
    """-> square list of lists of 0/1 or None"""
    try:
        rows = [list(row) for row in matrix]
    except TypeError:
        d.problems.append('size: matrix is not a sequence of rows')
        return None
    n = len(rows)
    d.size = n
    if n == 0:
        d.problems.append('size: empty matrix')
        return None
    widths = sorted(set(len(r) for r in rows))
    if widths != [n]:
        d.problems.append('size: matrix is not square (%d rows, row lengths %s)' % (n, widths))
        return None
    bad = []
    grid = []
    for i, row in enumerate(rows):
        out = []
        for j, x in enumerate(row):
            if isinstance(x, int) and (x == 0 or x == 1):
                out.append(int(x))
            else:
                bad.append((i, j))
                try:
                    out.append(1 if x else 0)
                except Exception:
                    out.append(0)
        grid.append(out)
    if bad:
        d.problems.append('module: %d modules are not 0/1, first at %s' % (len(bad), bad[:5]))
    return grid


def _check_function_patterns(grid, v, d):
    fm = layout.function_map(v)
    wrong = {}
    for (i, j), (kind, value) in fm.items():
        if value is not None and grid[i][j] != value:
            wrong.setdefault(kind, []).append((i, j))
    for kind in (layout.FINDER_K, layout.SEPARATOR, layout.TIMING, layout.ALIGNMENT, layout.DARK):
        if kind in wrong:
            pos = sorted(wrong[kind])
            d.problems.append('function-pattern: %d wrong %s modules, first at %s' % (len(pos), kind, pos[:5]))


def _read_word(grid, positions):
    w = 0
    for b, (i, j) in enumerate(positions):
        w |= grid[i][j] << b
    return w


def _read_format(grid, v, d):
    """-> (level, mask) or None; sets d.format_copies"""
    copies = [c for c in layout.format_positions(v) if c]
    words = [_read_word(grid, c) for c in copies]
    d.format_copies = words
    table = _format_table(v)
    hits = [table.get(w) for w in words]
    for k, (w, h) in enumerate(zip(words, hits)):
        if h is None:
            d.problems.append('format: copy %d (%s) is not a format information codeword' % (
                k + 1, format(w, '015b')))
    valid = [h for h in hits if h is not None]
    if len(valid) == 2 and valid[0] != valid[1]:
        d.problems.append('format: the two copies disagree (%s / %s)' % (
            format(words[0], '015b'), format(words[1], '015b')))
    if valid:
        choice = valid[0]
    else:
        # fall back to the nearest codeword (BCH(15,5) corrects 3 bit errors) so that the rest can be parsed
        best = None
        for w in words:
            for cand, info in table.items():
                dist = _popcount(w ^ cand)
                if dist <= 3 and (best is None or dist < best[0]):
                    best = (dist, info)
        if best is None:
            d.problems.append('format: no format information codeword within Hamming distance 3; cannot decode')
            return None
        choice = best[1]
    fv, level, mask = choice
    if v < 1 and fv != v:
        d.problems.append('format: symbol number denotes %s-%s but the size is that of %s' % (
            iso.version_name(fv), level, iso.version_name(v)))
        if level not in iso.levels_of(v):
            d.problems.append('format: level %s is not defined for %s; cannot decode' % (level, iso.version_name(v)))
            d.mask = mask
            return None
    return level, mask


def _read_version_info(grid, v, d):
    expected = layout.golay18_6(v)
    words = [_read_word(grid, blk) for blk in layout.version_positions(v)]
    d.version_copies = words
    for k, w in enumerate(words):
        if w != expected:
            d.problems.append('version-info: copy %d (%s) is %s, expected %s for version %d' % (
                k + 1, ('lower left', 'upper right')[k], format(w, '018b'), format(expected, '018b'), v))


# ------------------------------------------------------------------ bit stream parsing
def _val(bits, pos, n):
    x = 0
    for k in range(pos, pos + n):
        x = (x << 1) | bits[k]
    return x


def _decode_numeric(bits, pos, count, problems):
    """7.4.3: groups of three digits in 10 bits, a final group of two digits in 7
    bits or of one digit in 4 bits"""
    out = bytearray()
    full, rest = divmod(count, 3)
    for g in range(full):
        x = _val(bits, pos, 10)
        if x > 999:
            problems.append('stream: numeric 10-bit group %d at bit %d has value %d > 999' % (g, pos, x))
            out += b'???'
        else:
            out += ('%03d' % x).encode('ascii')
        pos += 10
    if rest == 2:
        x = _val(bits, pos, 7)
        if x > 99:
            problems.append('stream: numeric 7-bit group at bit %d has value %d > 99' % (pos, x))
            out += b'??'
        else:
            out += ('%02d' % x).encode('ascii')
        pos += 7
    elif rest == 1:
        x = _val(bits, pos, 4)
        if x > 9:
            problems.append('stream: numeric 4-bit group at bit %d has value %d > 9' % (pos, x))
            out += b'?'
        else:
            out += ('%d' % x).encode('ascii')
        pos += 4
    return bytes(out), pos


def _decode_alphanumeric(bits, pos, count, problems):
    """7.4.4: pairs as 45*c1 + c2 in 11 bits, a final single character in 6 bits"""
    out = bytearray()
    pairs, rest = divmod(count, 2)
    for g in range(pairs):
        x = _val(bits, pos, 11)
        if x >= 45 * 45:
            problems.append('stream: alphanumeric 11-bit group %d at bit %d has value %d >= 2025' % (g, pos, x))
            out += b'??'
        else:
            out += (ALPHANUMERIC_TABLE[x // 45] + ALPHANUMERIC_TABLE[x % 45]).encode('ascii')
        pos += 11
    if rest:
        x = _val(bits, pos, 6)
        if x >= 45:
            problems.append('stream: alphanumeric 6-bit group at bit %d has value %d >= 45' % (pos, x))
            out += b'?'
        else:
            out += ALPHANUMERIC_TABLE[x].encode('ascii')
        pos += 6
    return bytes(out), pos


def kanji_from_13bit(x):
    """inverse of 7.4.6: the encoder subtracts 0x8140 (8140..9FFC) or 0xC140
    (E040..EBBF), then forms msb * 0xC0 + lsb.  -> (Shift JIS value, valid)"""
    w = ((x // 0xC0) << 8) | (x % 0xC0)
    sj = w + 0x8140 if w < 0x1F00 else w + 0xC140
    trail = sj & 0xFF
    valid = ((0x8140 <= sj <= 0x9FFC or 0xE040 <= sj <= 0xEBBF)
             and 0x40 <= trail <= 0xFC and trail != 0x7F)
    return sj, valid


def hanzi_from_13bit(x):
    """inverse of GB/T 18284-2000: the encoder subtracts 0xA1A1 (first byte
    A1..AA) or 0xA6A1 (first byte B0..FA), then forms msb * 0x60 + lsb.
    -> (GB2312 value, valid)"""
    w = ((x // 0x60) << 8) | (x % 0x60)
    gb = w + 0xA1A1 if (w >> 8) < 0x0A else w + 0xA6A1
    lead, trail = gb >> 8, gb & 0xFF
    valid = (0xA1 <= lead <= 0xAA or 0xB0 <= lead <= 0xFA) and 0xA1 <= trail <= 0xFE
    return gb, valid


def _decode_double_byte(bits, pos, count, problems, fn, name):
    out = bytearray()
    for g in range(count):
        x = _val(bits, pos, 13)
        value, valid = fn(x)
        if not valid:
            problems.append('stream: %s 13-bit value %d at bit %d gives %04X, not a character of the mode' % (
                name, x, pos, value))
        out.append((value >> 8) & 0xFF)
        out.append(value & 0xFF)
        pos += 13
    return bytes(out), pos


def _data_bit_length(mode, count):
    if mode == 'numeric':
        return 10 * (count // 3) + (0, 4, 7)[count % 3]
    if mode == 'alphanumeric':
        return 11 * (count // 2) + 6 * (count % 2)
    if mode == 'byte':
        return 8 * count
    return 13 * count       # kanji, hanzi


def _parse_stream(d, v, bits):
    """Splits the data bit stream into segments (ISO 7.4, clause 8).  Returns the
    offset of the first bit after the last segment, or None if parsing had to be
    abandoned (the reason is then in d.problems)."""
    cap = len(bits)
    problems = d.problems
    micro = v < 1
    mlen = iso.mode_indicator_len(v)
    tlen = iso.terminator_len(v)
    pos = 0
    eci = None
    while True:
        left = cap - pos
        start = pos
        if micro:
            # 7.4.9: terminator of 3/5/7/9 zero bits, omitted / shortened if the capacity is reached.
            # (A segment header is never shorter than the terminator, so nothing else fits.)
            if left < tlen or not any(bits[pos:pos + tlen]):
                return pos
            mi = _val(bits, pos, mlen) if mlen else 0
            pos += mlen
            mode = _MICRO_MODES.get(mi)
        else:
            if left < 4:
                return pos
            mi = _val(bits, pos, 4)
            if mi == 0:
                return pos
            pos += 4
            mode = _QR_MODES.get(mi)
        if mode is None:
            problems.append('stream: undefined mode indicator %s at bit %d' % (format(mi, '0%db' % max(mlen, 1)), start))
            return None
        # ---- header-only segments (QR only)
        if mode == 'eci':
            if cap - pos < 8:
                problems.append('stream: ECI designator at bit %d exceeds the stream' % pos)
                return None
            first = _val(bits, pos, 8)
            if first & 0x80 == 0:
                n, lo, hi = 8, 0, 127
                value = first
            elif first & 0xC0 == 0x80:
                n, lo, hi = 16, 128, 16383
                value = None
            elif first & 0xE0 == 0xC0:
                n, lo, hi = 24, 16384, 999999
                value = None
            else:
                problems.append('stream: ECI designator at bit %d starts with %s (undefined form)' % (
                    pos, format(first, '08b')))
                return None
            if cap - pos < n:
                problems.append('stream: %d-bit ECI designator at bit %d exceeds the stream' % (n, pos))
                return None
            if value is None:
                value = _val(bits, pos, n) & ((1 << (n - n // 8)) - 1)
            if not lo <= value <= hi:
                problems.append('stream: ECI assignment number %d at bit %d is outside %d..%d of the %d-bit form' % (
                    value, pos, lo, hi, n))
            pos += n
            eci = value
            d.segments.append(Segment('eci', 0, b'', value, (start, pos), data_start=start + 4))
            continue
        if mode == 'structured_append':
            if cap - pos < 16:
                problems.append('stream: structured append header at bit %d exceeds the stream' % start)
                return None
            raw = (_val(bits, pos, 4), _val(bits, pos + 4, 4), _val(bits, pos + 8, 8))
            pos += 16
            value = (raw[0] + 1, raw[1] + 1, raw[2])
            d.segments.append(Segment('structured_append', 0, b'', None, (start, pos),
                                      data_start=start + 4, value=value))
            if start == 0:
                d.sa = value
                d.sa_raw = raw
            else:
                problems.append('stream: structured append header at bit %d is not at the start of the stream' % start)
            if raw[0] > raw[1]:
                problems.append('stream: structured append position %d exceeds the total %d' % (value[0], value[1]))
            continue
        if mode == 'fnc1_first':
            d.segments.append(Segment('fnc1_first', 0, b'', None, (start, pos), data_start=pos))
            continue
        if mode == 'fnc1_second':
            if cap - pos < 8:
                problems.append('stream: FNC1 application indicator at bit %d exceeds the stream' % pos)
                return None
            value = _val(bits, pos, 8)
            pos += 8
            d.segments.append(Segment('fnc1_second', 0, b'', None, (start, pos), data_start=start + 4, value=value))
            continue
        # ---- data segments
        subset = None
        if mode == 'hanzi':
            if cap - pos < 4:
                problems.append('stream: hanzi subset indicator at bit %d exceeds the stream' % pos)
                return None
            subset = _val(bits, pos, 4)
            pos += 4
            if subset != 1:
                problems.append('stream: hanzi subset indicator %s at bit %d is not 0001 (GB2312)' % (
                    format(subset, '04b'), pos - 4))
        clen = iso.cci_len(mode, v)
        if clen is None:
            problems.append('stream: mode %s (indicator at bit %d) is not available in %s' % (
                mode, start, iso.version_name(v)))
            return None
        if cap - pos < clen:
            problems.append('stream: character count indicator of the %s segment at bit %d exceeds the stream' % (
                mode, start))
            return None
        count = _val(bits, pos, clen)
        pos += clen
        need = _data_bit_length(mode, count)
        if cap - pos < need:
            problems.append('stream: %s segment at bit %d: count %d needs %d bits, only %d left' % (
                mode, start, count, need, cap - pos))
            return None
        data_start = pos
        if mode == 'numeric':
            data, pos = _decode_numeric(bits, pos, count, problems)
        elif mode == 'alphanumeric':
            data, pos = _decode_alphanumeric(bits, pos, count, problems)
        elif mode == 'byte':
            data = bytes(bytearray(_val(bits, pos + 8 * k, 8) for k in range(count)))
            pos += 8 * count
        elif mode == 'kanji':
            data, pos = _decode_double_byte(bits, pos, count, problems, kanji_from_13bit, 'kanji')
        else:
            data, pos = _decode_double_byte(bits, pos, count, problems, hanzi_from_13bit, 'hanzi')
        d.segments.append(Segment(mode, count, data, eci, (start, pos), data_start=data_start, subset=subset))


def expected_tail(v, end, cap):
    """ISO 7.4.9 / 7.4.10: the bits that follow the last segment (which ends at
    bit offset `end`) in a stream of `cap` bits: terminator (4 zero bits for QR,
    3/5/7/9 for M1..M4, shortened at capacity), zero bits up to the codeword
    boundary if not already on one, then 11101100 / 00010001 alternately; the
    final 4-bit codeword of M1/M3 is 0000.
    -> (list of bits, terminator length, number of padding bits)"""
    t = min(cap - end, iso.terminator_len(v))
    l1 = end + t
    l2 = min(l1 + (-l1) % 8, cap)
    out = [0] * (l2 - end)
    for j in range(l2, cap):
        q, r = divmod(j - l2, 8)
        out.append((PAD_CODEWORDS[q % 2] >> (7 - r)) & 1)
    if v in _HALF:
        for j in range(max(cap - 4, end), cap):
            out[j - end] = 0
    return out, t, l2 - l1


def _check_tail(v, bits, end):
    cap = len(bits)
    exp, t, padding = expected_tail(v, end, cap)
    actual = bits[end:]
    l2 = end + t + padding
    pads = []
    j = l2
    limit = cap - 4 if v in _HALF else cap
    while j + 8 <= limit:
        pads.append(_val(bits, j, 8))
        j += 8
    info = {'terminator_bits': t, 'padding_bits': padding, 'pad_codewords': pads,
            'tail_ok': actual == exp, 'tail_errors': [], 'extra_zero_codeword': False}
    if v in _HALF:
        info['final_nibble'] = _val(bits, cap - 4, 4) if cap - 4 >= l2 else None
    if actual != exp:
        errs = info['tail_errors']
        if any(bits[end:end + t]):
            errs.append('terminator bits are not zero')
        if any(bits[end + t:l2]):
            errs.append('bits between terminator and codeword boundary are not zero')
        want = [PAD_CODEWORDS[k % 2] for k in range(len(pads))]
        if pads != want:
            k = [a == b for a, b in zip(pads, want)].index(False)
            errs.append('pad codeword %d of %d is %s, expected %s' % (
                k + 1, len(pads), format(pads[k], '08b'), format(want[k], '08b')))
        if v in _HALF and info['final_nibble']:
            errs.append('final 4-bit codeword is %s, expected 0000' % format(info['final_nibble'], '04b'))
        # recognised deviation: the terminated stream is codeword aligned, yet a codeword
        # 00000000 precedes the (otherwise regular) pad codeword sequence
        if padding == 0 and (end + t) % 8 == 0 and pads and pads[0] == 0:
            rest = pads[1:]
            if rest == [PAD_CODEWORDS[k % 2] for k in range(len(rest))] and not any(bits[end:l2]) \
                    and not (v in _HALF and info['final_nibble']):
                info['extra_zero_codeword'] = True
    return info


# ------------------------------------------------------------------ decode
def decode(matrix, correct_errors=False):
    """Decode a module matrix (sequence of rows of 0/1, no quiet zone).  Never
    raises; see Decoded.problems."""
    d = Decoded()
    try:
        _decode(matrix, correct_errors, d)
    except Exception as exc:      # safety net: decode() must not raise on any input
        d.problems.append('internal: decoder raised %s: %s' % (type(exc).__name__, exc))
    return d


def _decode(matrix, correct_errors, d):
    grid = _read_matrix(matrix, d)
    if grid is None:
        return
    size = len(grid)
    v = version_from_size(size)
    if v is None:
        d.problems.append('size: %d x %d is neither 17+4v (v = 1..40) nor 9+2k (k = 1..4)' % (size, size))
        return
    d.version = v
    d.is_micro = v < 1
    # function patterns (6.3.3 - 6.3.8, 7.9.1 dark module)
    _check_function_patterns(grid, v, d)
    # version information (7.10)
    if v >= 7:
        _read_version_info(grid, v, d)
    # format information (7.9)
    fmt = _read_format(grid, v, d)
    if fmt is None:
        return
    level, mask = fmt
    d.level = level
    d.mask = mask
    # release the data mask (7.8) and read the encoding region in placement order (7.7)
    order = _placement_order(v)
    stream = [grid[i][j] ^ (1 if layout.mask_condition_for(v, mask, i, j) else 0) for (i, j) in order]
    lengths = _codeword_lengths(v, level)
    if sum(lengths) + iso.remainder_bits(v) != len(stream):
        d.problems.append('internal: encoding region has %d modules, codewords + remainder need %d' % (
            len(stream), sum(lengths) + iso.remainder_bits(v)))
        return
    codewords = []
    pos = 0
    for n in lengths:
        x = _val(stream, pos, n)
        codewords.append(x << (8 - n))       # the 4-bit codeword: value in the high nibble, low nibble 0
        pos += n
    d.codewords = codewords
    d.remainder_bits = stream[pos:]
    if any(d.remainder_bits):
        d.problems.append('remainder: remainder bits are %s after unmasking, expected all zero' % (
            ''.join(map(str, d.remainder_bits))))
    # de-interleave (7.6) and check the blocks (7.5)
    shapes = _block_shapes(v, level)
    data_idx, ec_idx = _interleave_index(shapes)
    blocks = []
    all_ok = True
    for b, (tot, dat) in enumerate(shapes):
        data = [codewords[k] for k in data_idx[b]]
        ec = [codewords[k] for k in ec_idx[b]]
        n_ec = tot - dat
        ok = not any(gf.syndromes(data + ec, n_ec))
        d.block_syndromes_ok.append(ok)
        all_ok = all_ok and ok
        if not ok:
            fixed = None
            if correct_errors:
                fixed, info = rs_correct(data + ec, n_ec)
                if fixed is not None and v in _HALF and fixed[dat - 1] & 0x0F:
                    fixed, info = None, 'correction touches the four bits that the final 4-bit data codeword does not have'
                if fixed is None:
                    d.uncorrectable_blocks.append(b)
                    d.errors_corrected.append(0)
                    d.problems.append('rs: block %d of %d cannot be corrected (%s)' % (b + 1, len(shapes), info))
                else:
                    d.errors_corrected.append(len(info))
                    data, ec = fixed[:dat], fixed[dat:]
            else:
                d.problems.append('rs: block %d of %d has non-zero syndromes' % (b + 1, len(shapes)))
        elif correct_errors:
            d.errors_corrected.append(0)
        blocks.append((data, ec))
    d.blocks = blocks
    d.syndromes_ok = all_ok
    # data bit stream (7.4.10): data codewords of block 1, block 2, ...
    bits = []
    for data, ec in blocks:
        for x in data:
            for k in range(7, -1, -1):
                bits.append((x >> k) & 1)
    if v in _HALF:
        del bits[-4:]
    d.data_bits = bits
    if len(bits) != iso.data_capacity_bits(v, level):
        d.problems.append('internal: %d data bits, capacity is %d' % (len(bits), iso.data_capacity_bits(v, level)))
    # segments
    end = _parse_stream(d, v, bits)
    d.payload = b''.join(s.data for s in d.segments if s.mode in DATA_MODES)
    d.end_of_data = end
    if end is None:
        d.terminator_and_padding = {'terminator_bits': 0, 'padding_bits': 0, 'pad_codewords': [],
                                    'tail_ok': False, 'tail_errors': ['segment parsing abandoned'],
                                    'extra_zero_codeword': False}
    else:
        d.terminator_and_padding = _check_tail(v, bits, end)


# ------------------------------------------------------------------ error injection
def corrupt_and_decode(matrix, n_errors_per_block, rng):
    """Flip n_errors_per_block codewords (None: floor(ec/2)) at random distinct
    positions of every RS block to random different values, in the unmasked
    codeword sequence; rebuild the encoding region of a copy of the matrix from the
    altered sequence (interleaved order, data mask re-applied, remainder bits kept)
    and decode it with correct_errors=True.  The injected errors are in .injected."""
    base = decode(matrix)
    if not base.blocks or base.version is None or base.mask is None:
        return base
    v, level, mask = base.version, base.level, base.mask
    shapes = _block_shapes(v, level)
    data_idx, ec_idx = _interleave_index(shapes)
    codewords = list(base.codewords)
    injected = []
    for b, (tot, dat) in enumerate(shapes):
        n = (tot - dat) // 2 if n_errors_per_block is None else n_errors_per_block
        n = max(0, min(n, tot))
        idx = data_idx[b] + ec_idx[b]
        for k in sorted(rng.sample(range(tot), n)):
            if v in _HALF and k == dat - 1:
                x = rng.randrange(1, 16) << 4      # this codeword has four bits only
            else:
                x = rng.randrange(1, 256)
            codewords[idx[k]] ^= x
            injected.append((b, k, x))
    lengths = _codeword_lengths(v, level)
    stream = []
    for x, n in zip(codewords, lengths):
        for k in range(7, 7 - n, -1):
            stream.append((x >> k) & 1)
    stream.extend(base.remainder_bits)
    grid = [[1 if x else 0 for x in row] for row in matrix]
    for bit, (i, j) in zip(stream, _placement_order(v)):
        grid[i][j] = bit ^ (1 if layout.mask_condition_for(v, mask, i, j) else 0)
    d = decode(grid, correct_errors=True)
    d.injected = injected
    return d


# ------------------------------------------------------------------ property C01: expected payload
def _part_payload(content, mode, encoding):
    if isinstance(content, (bytes, bytearray)):
        return bytes(content)
    if isinstance(content, int):
        return str(content).encode('ascii')
    text = str(content)
    mode = mode.lower() if isinstance(mode, str) else mode
    if mode == 'hanzi':
        return text.encode('gb2312')
    if mode == 'kanji':
        return text.encode('shift_jis')        # Kanji mode is defined on Shift JIS values (7.4.6)
    if encoding is not None:
        return text.encode(encoding)
    for enc in ('iso-8859-1', 'shift_jis', 'utf-8'):
        try:
            return text.encode(enc)
        except UnicodeError:
            pass
    raise ValueError('content cannot be encoded')


def expected_payload(content, mode=None, encoding=None):
    """The bytes property C01 demands a reference decoder to recover: bytes
    unchanged; an integer as its decimal digits; text in `encoding` if given, else
    in the first of ISO-8859-1, Shift JIS, UTF-8 that can represent it (GB2312 for
    mode 'hanzi', Shift JIS for mode 'kanji').  A list / tuple is a sequence of
    parts, each either a content or a tuple (content[, mode[, encoding]]) whose
    None entries fall back to the global mode / encoding; the result is the
    concatenation in order."""
    if isinstance(content, (list, tuple)):
        out = []
        for item in content:
            c, m, e = item, mode, encoding
            if isinstance(item, tuple):
                c = item[0]
                if len(item) > 1:
                    m = item[1] or mode
                if len(item) > 2:
                    e = item[2] or encoding
            out.append(_part_payload(c, m, e))
        return b''.join(out)
    return _part_payload(content, mode, encoding)
