"""Specification functions written from ISO/IEC 18004:2015 and from the property
statements in /verif/properties.jsonl.  Nothing here is derived from segno's
code or tables; segno's tables are *compared against* these by ground lemmas.

All functions are polymorphic: they run on Python ints (native replay, bounded
stand-ins) and on pyvc symbolic values (verification conditions) through the
helpers ite/land/lor/lnot/implies imported from spec.logic.
"""
from .logic import ite, land, lor, lnot, implies, smin, smax

# ---------------------------------------------------------------- versions / levels
# Abstract versions: Micro M1..M4 are -3..0, QR 1..40 are 1..40 (order of the
# property statement: M1 < M2 < M3 < M4 < 1 < ... < 40).  That segno uses the same
# integers is a representation lemma checked against consts (C04.repr.*).
M1, M2, M3, M4 = -3, -2, -1, 0
MICRO = (M1, M2, M3, M4)
QR_VERSIONS = tuple(range(1, 41))
ALL_VERSIONS = MICRO + QR_VERSIONS
VERSION_NAMES = {M1: 'M1', M2: 'M2', M3: 'M3', M4: 'M4'}

LEVELS = ('L', 'M', 'Q', 'H')          # increasing strength
LEVEL_ORDER = {'L': 0, 'M': 1, 'Q': 2, 'H': 3}
# ISO Table 12: level indicator bits in the format information
LEVEL_BITS = {'L': 0b01, 'M': 0b00, 'Q': 0b11, 'H': 0b10}

# modes (ISO Table 2 mode indicators for QR; GB/T 18284 for Hanzi)
NUMERIC, ALNUM, BYTE, KANJI, HANZI = 'numeric', 'alphanumeric', 'byte', 'kanji', 'hanzi'
MODES = (NUMERIC, ALNUM, BYTE, KANJI, HANZI)
MODE_INDICATOR = {NUMERIC: 0b0001, ALNUM: 0b0010, BYTE: 0b0100, KANJI: 0b1000, HANZI: 0b1101}
MODE_ECI = 0b0111
MODE_SA = 0b0011
MICRO_MODE_INDICATOR = {NUMERIC: 0, ALNUM: 1, BYTE: 2, KANJI: 3}


def version_name(v):
    return VERSION_NAMES.get(v, v)


def is_micro(v):
    return v < 1


def levels_of(v):
    """error correction levels defined for version v (ISO Table 7/9); M1 has none
    (error detection only), represented by None."""
    if v == M1:
        return (None,)
    if v in (M2, M3):
        return ('L', 'M')
    if v == M4:
        return ('L', 'M', 'Q')
    return LEVELS


def symbol_size(v):
    """ISO 6.1: 21..177 modules (17+4v), Micro 11..17 (9+2k)"""
    return 17 + 4 * v if v >= 1 else 9 + 2 * (v + 4)


def mode_indicator_len(v):
    """ISO Table 2: 4 bits for QR; 0,1,2,3 for M1..M4"""
    return 4 if v >= 1 else v + 3


def cci_len(mode, v):
    """ISO Table 3: number of bits of the character count indicator; None if the
    mode is not available in version v."""
    if v >= 1:
        r = 0 if v <= 9 else (1 if v <= 26 else 2)
        return {NUMERIC: (10, 12, 14), ALNUM: (9, 11, 13), BYTE: (8, 16, 16),
                KANJI: (8, 10, 12), HANZI: (8, 10, 12)}[mode][r]
    k = v + 3   # 0..3 for M1..M4
    return {NUMERIC: (3, 4, 5, 6), ALNUM: (None, 3, 4, 5), BYTE: (None, None, 4, 5),
            KANJI: (None, None, 3, 4), HANZI: (None, None, None, None)}[mode][k]


def mode_available(mode, v):
    return cci_len(mode, v) is not None


def terminator_len(v):
    """ISO 7.4.9 / Table 2"""
    return 4 if v >= 1 else {M1: 3, M2: 5, M3: 7, M4: 9}[v]


# ---------------------------------------------------------------- Table 9 (compact, independent form)
# error correction codewords per block, index = version (1..40)
_ECC_PER_BLOCK = {
    'L': (7, 10, 15, 20, 26, 18, 20, 24, 30, 18, 20, 24, 26, 30, 22, 24, 28, 30, 28, 28,
          28, 28, 30, 30, 26, 28, 30, 30, 30, 30, 30, 30, 30, 30, 30, 30, 30, 30, 30, 30),
    'M': (10, 16, 26, 18, 24, 16, 18, 22, 22, 26, 30, 22, 22, 24, 24, 28, 28, 26, 26, 26,
          26, 28, 28, 28, 28, 28, 28, 28, 28, 28, 28, 28, 28, 28, 28, 28, 28, 28, 28, 28),
    'Q': (13, 22, 18, 26, 18, 24, 18, 22, 20, 24, 28, 26, 24, 20, 30, 24, 28, 28, 26, 30,
          28, 30, 30, 30, 30, 28, 30, 30, 30, 30, 30, 30, 30, 30, 30, 30, 30, 30, 30, 30),
    'H': (17, 28, 22, 16, 22, 28, 26, 26, 24, 28, 24, 28, 22, 24, 24, 30, 28, 28, 26, 28,
          30, 24, 30, 30, 30, 30, 30, 30, 30, 30, 30, 30, 30, 30, 30, 30, 30, 30, 30, 30),
}
_NUM_BLOCKS = {
    'L': (1, 1, 1, 1, 1, 2, 2, 2, 2, 4, 4, 4, 4, 4, 6, 6, 6, 6, 7, 8,
          8, 9, 9, 10, 12, 12, 12, 13, 14, 15, 16, 17, 18, 19, 19, 20, 21, 22, 24, 25),
    'M': (1, 1, 1, 2, 2, 4, 4, 4, 5, 5, 5, 8, 9, 9, 10, 10, 11, 13, 14, 16,
          17, 17, 18, 20, 21, 23, 25, 26, 28, 29, 31, 33, 35, 37, 38, 40, 43, 45, 47, 49),
    'Q': (1, 1, 2, 2, 4, 4, 6, 6, 8, 8, 8, 10, 12, 16, 12, 17, 16, 18, 21, 20,
          23, 23, 25, 27, 29, 34, 34, 35, 38, 40, 43, 45, 48, 51, 53, 56, 59, 62, 65, 68),
    'H': (1, 1, 2, 4, 4, 4, 5, 6, 8, 8, 11, 11, 16, 16, 18, 16, 19, 21, 25, 25,
          25, 34, 30, 32, 35, 37, 40, 42, 45, 48, 51, 54, 57, 60, 63, 66, 70, 74, 77, 81),
}
# Micro QR (ISO Table 9): (total codewords, data codewords); M1/M3 last data codeword is 4 bits
_MICRO_BLOCKS = {
    (M1, None): (5, 3), (M2, 'L'): (10, 5), (M2, 'M'): (10, 4),
    (M3, 'L'): (17, 11), (M3, 'M'): (17, 9),
    (M4, 'L'): (24, 16), (M4, 'M'): (24, 14), (M4, 'Q'): (24, 10),
}


def num_alignment_coords(v):
    return 0 if v == 1 else v // 7 + 2


def raw_data_modules(v):
    """number of modules of the encoding region (data + ec + remainder bits), QR v>=1:
    size^2 - finders/separators (3*64) - timing - alignment - format (31) - version (36)"""
    size = symbol_size(v)
    n = size * size
    n -= 3 * 64                 # finder patterns incl. separators
    n -= 2 * (size - 16)        # timing patterns
    n -= 31                     # format information (2 x 15) + dark module
    if v >= 2:
        a = num_alignment_coords(v)
        n -= (a * a - 3) * 25   # alignment patterns (corners with finders excluded)
        n += 2 * (a - 2) * 5    # timing modules counted twice under alignment patterns
    if v >= 7:
        n -= 36                 # version information
    return n


def micro_data_modules(v):
    size = symbol_size(v)
    # finder + separator 64, timing 2*(size-8), format 15
    return size * size - 64 - 2 * (size - 8) - 15


def block_structure(v, level):
    """ISO Table 9: list of (number_of_blocks, total_codewords, data_codewords),
    shorter blocks first."""
    if v < 1:
        total, data = _MICRO_BLOCKS[(v, level)]
        return [(1, total, data)]
    ec = _ECC_PER_BLOCK[level][v - 1]
    nb = _NUM_BLOCKS[level][v - 1]
    total = raw_data_modules(v) // 8
    short = total // nb
    n_long = total % nb
    out = []
    if nb - n_long:
        out.append((nb - n_long, short, short - ec))
    if n_long:
        out.append((n_long, short + 1, short + 1 - ec))
    return out


def remainder_bits(v):
    if v < 1:
        return 0
    return raw_data_modules(v) % 8


def data_capacity_bits(v, level):
    """ISO Table 7: number of data bits"""
    bits = 8 * sum(nb * data for nb, total, data in block_structure(v, level))
    if v in (M1, M3):
        bits -= 4
    return bits


def total_codewords(v, level):
    return sum(nb * total for nb, total, data in block_structure(v, level))


# ---------------------------------------------------------------- C04: need / fit / first fit
class Parts:
    """Abstract content: multiset of parts.

    count[mode]   number of parts in that mode (for BYTE: both kinds together)
    n_eci         number of byte-mode parts whose encoding is not ISO-8859-1
    payload       total number of payload bits of all parts
    """

    def __init__(self, count, n_eci, payload):
        self.count = count
        self.n_eci = n_eci
        self.payload = payload

    def n_parts(self):
        t = 0
        for m in MODES:
            t = t + self.count[m]
        return t


def need_bits(v, parts, eci, is_sa=False):
    """bits needed in version v (property C04: mode indicator, character count
    indicator and payload bits of every part, plus ECI header (4+8) per byte part
    not in ISO-8859-1 when eci, plus Hanzi subset indicator (4), plus the
    Structured Append header (20)).  Only meaningful if every present mode is
    available in v."""
    t = parts.payload
    for m in MODES:
        c = cci_len(m, v)
        if c is None:
            continue
        t = t + parts.count[m] * (mode_indicator_len(v) + c)
    t = t + 4 * parts.count[HANZI]
    if eci:
        t = t + 12 * parts.n_eci
    if is_sa:
        t = t + 20
    return t


def modes_available(v, parts):
    conds = []
    for m in MODES:
        if not mode_available(m, v):
            conds.append(parts.count[m] == 0)
    return land(*conds)


def admissible(v, micro, eci, level):
    """C04: Micro versions only if micro is not False and no eci is requested; QR
    versions only if micro is not True; M1 only when no error level is requested;
    the level must be defined for the version."""
    if v < 1:
        if micro is False or eci:
            return False
        if v == M1:
            return level is None
        return (level or 'L') in levels_of(v)
    if micro is True:
        return False
    return True


def effective_level(v, level):
    """default L; none for M1"""
    if v == M1:
        return None
    return level or 'L'


def fits(v, parts, level, eci, micro, is_sa=False):
    if not admissible(v, micro, eci, level):
        return False
    lv = effective_level(v, level)
    return land(modes_available(v, parts), need_bits(v, parts, eci, is_sa) <= data_capacity_bits(v, lv))


NONE_FITS = 99


def first_fit(parts, level, eci, micro, is_sa=False):
    """first version in M1 < ... < M4 < 1 < ... < 40 that fits, NONE_FITS if none"""
    res = NONE_FITS
    for v in reversed(ALL_VERSIONS):
        res = ite(fits(v, parts, level, eci, micro, is_sa), v, res)
    return res


# ---------------------------------------------------------------- C05: boosting
def boosted_level(v, level, parts, eci, is_sa=False):
    """highest level >= requested defined for v whose capacity holds the content"""
    if level is None:
        return None
    best = level
    cand = [l for l in levels_of(v) if l is not None and LEVEL_ORDER[l] > LEVEL_ORDER[level]]
    need = need_bits(v, parts, eci, is_sa)
    # highest fitting: scan upwards, keep the last that fits
    res_order = LEVEL_ORDER[level]
    for l in cand:
        res_order = ite(need <= data_capacity_bits(v, l), LEVEL_ORDER[l], res_order)
    return res_order   # as order index 0..3 (symbolic-friendly)


# ---------------------------------------------------------------- C13: terminator / padding (ISO 7.4.9, 7.4.10)
PAD_CODEWORDS = ((1, 1, 1, 0, 1, 1, 0, 0), (0, 0, 0, 1, 0, 0, 0, 1))   # 11101100, 00010001


def pad_bit(parity, r):
    """bit r (0 = most significant) of the pad codeword with index parity (0: 11101100, 1: 00010001)"""
    res = 0
    for par in (0, 1):
        for k in range(8):
            res = ite(land(parity == par, r == k), PAD_CODEWORDS[par][k], res)
    return res


def terminated_length(v, level, length):
    cap = data_capacity_bits(v, level)
    return length + smin(cap - length, terminator_len(v))


def padded_length(v, level, length):
    """length after terminator and the zero bits up to the next codeword boundary
    (the final codeword of M1/M3 is 4 bits long, so the capacity is a boundary too)"""
    cap = data_capacity_bits(v, level)
    l1 = terminated_length(v, level, length)
    return smin(l1 + (-l1) % 8, cap)


def stream_bit_after_data(v, level, length, j):
    """ISO value of bit j (length <= j < capacity) of the data bit stream whose
    segments end at `length`: terminator and boundary padding are zero, then pad
    codewords 11101100 / 00010001 alternately, the final 4-bit codeword of M1/M3 is 0000."""
    cap = data_capacity_bits(v, level)
    l2 = padded_length(v, level, length)
    q = (j - l2) // 8
    r = (j - l2) % 8
    bit = ite(j < l2, 0, pad_bit(q % 2, r))
    if v in (M1, M3):
        bit = ite(j >= cap - 4, 0, bit)
    return bit
