"""Independent readers for the raster and text output formats written by segno.

Everything in this module is written from the *format specifications*

  * PNG      - RFC 2083 / W3C "Portable Network Graphics (PNG) Specification"
  * PBM      - Netpbm pbm(5): plain "P1" and raw "P4"
  * PPM      - Netpbm ppm(5): raw "P6"
  * PAM      - Netpbm pam(5): "P7"
  * XBM      - X11 bitmap(1) / XReadBitmapFile C source format
  * XPM      - "XPM Manual", version 3 (Arnaud Le Hors)
  * TXT      - rows of the characters '0' / '1'
  * terminal - ECMA-48 / ANSI X3.64 "Select Graphic Rendition" control sequences
               and the Unicode block elements U+2580, U+2584, U+2588

and NOT from segno's writer code.  This module never imports segno.  Only the
Python standard library is used; the code runs under Python 3.11 and 3.12.

The readers are used as postconditions of the serialisers:

    "the file is well-formed and pixel (x, y) has the dark colour exactly when
     module (y div s - b, x div s - b) is dark, the light colour otherwise,
     including the quiet zone".

No reader raises on malformed input (except ``read_txt`` which raises
``ValueError`` by contract); every violation is appended to
``Raster.problems`` and whatever could be parsed is returned.  The two
terminal readers return a bare grid; cells they cannot interpret are returned
as ``-1`` (which ``check_grid`` reports), see their documentation.
"""
import re
import struct
import zlib
import binascii

__all__ = ['Raster', 'read_png', 'read_pbm', 'read_pam', 'read_ppm', 'read_xbm',
           'read_xpm', 'read_txt', 'read_ansi_terminal', 'read_compact_terminal',
           'check_modules', 'check_grid']

BLACK = (0, 0, 0, 255)
WHITE = (255, 255, 255, 255)

# Upper bound of pixels any reader is willing to materialise (guards against
# absurd declared dimensions in corrupted headers; far above any QR output).
_MAX_PIXELS = 64 * 1024 * 1024
# If the amount of raster data contradicts the declared dimensions (already a
# reported problem) the pixels are still decoded as far as possible - unless the
# declared image has more pixels than this (a damaged header must not make the
# reader allocate gigabytes for data that does not exist).
_MAX_PIXELS_INCONSISTENT = 1 << 20


def _skip_inconsistent(r, width, height):
    if width * height > _MAX_PIXELS_INCONSISTENT:
        r.problems.append('pixels not decoded: raster data inconsistent with the declared '
                          '%dx%d pixels' % (width, height))
        return True
    return False


class Raster:
    """Decoded image.

    width, height : int
    pixels        : list[list[tuple[int, int, int, int]]], pixels[y][x] = (r, g, b, a),
                    every component 0..255, a == 0 fully transparent, 255 opaque
    problems      : list[str], every well-formedness violation found (empty = well-formed)
    info          : dict, format specific extras
    """

    def __init__(self, width=0, height=0, pixels=None, problems=None, info=None):
        self.width = width
        self.height = height
        self.pixels = pixels if pixels is not None else []
        self.problems = problems if problems is not None else []
        self.info = info if info is not None else {}

    def __repr__(self):
        return '<Raster %dx%d problems=%d info=%r>' % (self.width, self.height,
                                                      len(self.problems), self.info)


def _as_bytes(data, raster, what):
    """Coerce the reader input to bytes without raising."""
    if isinstance(data, (bytes, bytearray, memoryview)):
        return bytes(data)
    if isinstance(data, str):
        raster.problems.append('%s: expected bytes, got str (encoded as latin-1)' % what)
        return data.encode('latin-1', 'replace')
    raster.problems.append('%s: expected bytes, got %s' % (what, type(data).__name__))
    return b''


def _as_text(text, raster, what):
    """Coerce the reader input to str without raising (bytes -> latin-1, lossless)."""
    if isinstance(text, str):
        return text
    if isinstance(text, (bytes, bytearray, memoryview)):
        return bytes(text).decode('latin-1')
    raster.problems.append('%s: expected str or bytes, got %s' % (what, type(text).__name__))
    return ''


def _scale255(v, maxval):
    """Scale sample v in 0..maxval to 0..255 (round half up)."""
    if maxval == 255:
        return v
    return (v * 255 * 2 + maxval) // (2 * maxval)


# =============================================================================
# PNG
# =============================================================================

_PNG_SIGNATURE = b'\x89PNG\r\n\x1a\n'

# PNG spec, table 11.1: allowed combinations of colour type and bit depth
_PNG_ALLOWED_DEPTHS = {
    0: (1, 2, 4, 8, 16),   # greyscale
    2: (8, 16),            # truecolour
    3: (1, 2, 4, 8),       # indexed colour
    4: (8, 16),            # greyscale with alpha
    6: (8, 16),            # truecolour with alpha
}
_PNG_CHANNELS = {0: 1, 2: 3, 3: 1, 4: 2, 6: 4}

# Chunks defined by the PNG specification (critical + ancillary).  Unknown
# ancillary chunks are legal and skipped; unknown critical chunks are an error.
_PNG_KNOWN_ANCILLARY = (b'cHRM', b'gAMA', b'iCCP', b'sBIT', b'sRGB', b'bKGD', b'hIST',
                        b'tRNS', b'pHYs', b'sPLT', b'tIME', b'iTXt', b'tEXt', b'zTXt',
                        b'eXIf', b'cICP', b'acTL', b'fcTL', b'fdAT', b'mDCV', b'cLLI')
# ancillary chunks which must precede the first IDAT
_PNG_BEFORE_IDAT = (b'cHRM', b'gAMA', b'iCCP', b'sBIT', b'sRGB', b'bKGD', b'hIST',
                    b'tRNS', b'pHYs', b'sPLT', b'cICP', b'mDCV', b'cLLI')
# ancillary chunks which must precede PLTE (if PLTE is present)
_PNG_BEFORE_PLTE = (b'cHRM', b'gAMA', b'iCCP', b'sBIT', b'sRGB', b'cICP', b'mDCV', b'cLLI')
# chunks which must follow PLTE (if PLTE is present)
_PNG_AFTER_PLTE = (b'bKGD', b'hIST', b'tRNS')
# chunks which may occur at most once
_PNG_SINGLETON = (b'IHDR', b'PLTE', b'IEND', b'cHRM', b'gAMA', b'iCCP', b'sBIT', b'sRGB',
                  b'bKGD', b'hIST', b'tRNS', b'pHYs', b'tIME', b'eXIf', b'cICP')

# Adam7 interlacing: (x start, y start, x step, y step) of the seven passes
_ADAM7 = ((0, 0, 8, 8), (4, 0, 8, 8), (0, 4, 4, 8), (2, 0, 4, 4),
          (0, 2, 2, 4), (1, 0, 2, 2), (0, 1, 1, 2))


def _png_chunks(data, problems):
    """Split the byte stream after the signature into chunks.

    Returns a list of (type, data, offset).  Verifies the layout
    length / type / data / CRC and the CRC-32 (ISO 3309, computed over type and
    data) of every chunk.
    """
    chunks = []
    pos = 8
    n = len(data)
    while pos < n:
        if n - pos < 12:
            problems.append('chunk at offset %d: only %d bytes left, a chunk needs at least 12'
                            % (pos, n - pos))
            break
        length, = struct.unpack('>I', data[pos:pos + 4])
        ctype = data[pos + 4:pos + 8]
        name = ctype.decode('latin-1')
        if length > 0x7fffffff:
            problems.append('chunk %r at offset %d: length %d exceeds 2^31-1' % (name, pos, length))
        if not all((65 <= c <= 90) or (97 <= c <= 122) for c in ctype):
            problems.append('chunk at offset %d: type %r is not four ASCII letters' % (pos, ctype))
        elif not (65 <= ctype[2] <= 90):
            problems.append('chunk %r at offset %d: reserved bit (case of third letter) is set'
                            % (name, pos))
        end = pos + 8 + length
        if end + 4 > n:
            problems.append('chunk %r at offset %d: declared length %d but only %d bytes of '
                            'data+CRC remain (truncated file)' % (name, pos, length, n - pos - 8))
            # keep what is there (without a CRC) so that later stages can still look at it
            chunks.append((ctype, data[pos + 8:n], pos))
            break
        cdata = data[pos + 8:end]
        crc_stored, = struct.unpack('>I', data[end:end + 4])
        crc_calc = binascii.crc32(ctype + cdata) & 0xffffffff
        if crc_stored != crc_calc:
            problems.append('chunk %r at offset %d: CRC mismatch (stored %08x, computed %08x)'
                            % (name, pos, crc_stored, crc_calc))
        chunks.append((ctype, cdata, pos))
        pos = end + 4
    return chunks


def _paeth(a, b, c):
    p = a + b - c
    pa = abs(p - a)
    pb = abs(p - b)
    pc = abs(p - c)
    if pa <= pb and pa <= pc:
        return a
    if pb <= pc:
        return b
    return c


def _png_unfilter(raw, pos, rows, rowbytes, bpp, problems, label):
    """Reconstruct ``rows`` scanlines of ``rowbytes`` bytes starting at raw[pos].

    bpp = number of bytes per complete pixel, rounded up to 1 (PNG spec 9.2).
    Returns (list of bytearray scanlines, new position).  Missing data is
    treated as zero bytes (a problem has been reported by the size check).
    """
    out = []
    prev = bytearray(rowbytes)
    for y in range(rows):
        if pos >= len(raw):
            out.append(bytearray(rowbytes))
            prev = out[-1]
            continue
        ftype = raw[pos]
        line = bytearray(raw[pos + 1:pos + 1 + rowbytes])
        pos += 1 + rowbytes
        if len(line) < rowbytes:
            line.extend(bytes(rowbytes - len(line)))
        if ftype == 0:
            pass
        elif ftype == 1:      # Sub
            for i in range(bpp, rowbytes):
                line[i] = (line[i] + line[i - bpp]) & 0xff
        elif ftype == 2:      # Up
            for i in range(rowbytes):
                line[i] = (line[i] + prev[i]) & 0xff
        elif ftype == 3:      # Average
            for i in range(rowbytes):
                a = line[i - bpp] if i >= bpp else 0
                line[i] = (line[i] + ((a + prev[i]) >> 1)) & 0xff
        elif ftype == 4:      # Paeth
            for i in range(rowbytes):
                a = line[i - bpp] if i >= bpp else 0
                c = prev[i - bpp] if i >= bpp else 0
                line[i] = (line[i] + _paeth(a, prev[i], c)) & 0xff
        else:
            if len(problems) < 50:
                problems.append('%sscanline %d: illegal filter type %d (must be 0..4)'
                                % (label, y, ftype))
        out.append(line)
        prev = line
    return out, pos


def _png_samples(line, count, depth):
    """Unpack ``count`` samples of ``depth`` bits from a reconstructed scanline."""
    if depth == 8:
        return list(line[:count])
    if depth == 16:
        return [(line[2 * i] << 8) | line[2 * i + 1] for i in range(count)]
    res = []
    mask = (1 << depth) - 1
    per_byte = 8 // depth
    for i in range(count):
        byte = line[i // per_byte]
        shift = 8 - depth * (i % per_byte + 1)     # leftmost pixel in the high-order bits
        res.append((byte >> shift) & mask)
    return res


def read_png(data):
    """Decode a PNG datastream, checking its well-formedness (see module docstring).

    info keys: 'bit_depth', 'colour_type', 'interlace', 'chunks' (type names in
    file order), 'palette' (list of (r, g, b)), 'trns' (raw tRNS payload
    interpretation), 'phys' ((x, y, unit)), 'dpi' ((x_dpi, y_dpi) floats, only if
    the pHYs unit is the metre), 'idat_chunks', 'decompressed_size',
    'expected_size'.
    """
    r = Raster()
    problems = r.problems
    info = r.info
    data = _as_bytes(data, r, 'PNG')
    if data[:8] != _PNG_SIGNATURE:
        problems.append('PNG signature missing or damaged: %r' % data[:8])
        if len(data) < 8:
            return r
        # try to continue: a damaged signature does not prevent parsing chunks
    chunks = _png_chunks(data, problems)
    info['chunks'] = [c[0].decode('latin-1') for c in chunks]
    if not chunks:
        problems.append('no chunks found')
        return r

    # ---- chunk order and multiplicity -------------------------------------------------
    names = [c[0] for c in chunks]
    if names[0] != b'IHDR':
        problems.append('first chunk is %r, must be IHDR' % names[0].decode('latin-1'))
    if names[-1] != b'IEND':
        problems.append('last chunk is %r, must be IEND' % names[-1].decode('latin-1'))
    for nm in _PNG_SINGLETON:
        if names.count(nm) > 1:
            problems.append('chunk %s occurs %d times, at most one allowed'
                            % (nm.decode(), names.count(nm)))
    if b'IEND' in names and names.index(b'IEND') != len(names) - 1:
        problems.append('IEND is not the last chunk')
    idat_idx = [i for i, nm in enumerate(names) if nm == b'IDAT']
    if not idat_idx:
        problems.append('no IDAT chunk')
    elif idat_idx != list(range(idat_idx[0], idat_idx[0] + len(idat_idx))):
        problems.append('IDAT chunks are not consecutive')
    info['idat_chunks'] = len(idat_idx)
    first_idat = idat_idx[0] if idat_idx else len(names)
    plte_pos = names.index(b'PLTE') if b'PLTE' in names else None
    if plte_pos is not None and plte_pos > first_idat:
        problems.append('PLTE after IDAT')
    for i, nm in enumerate(names):
        dn = nm.decode('latin-1')
        if nm in (b'IHDR', b'PLTE', b'IDAT', b'IEND'):
            continue
        if 65 <= nm[0] <= 90:
            problems.append('unknown critical chunk %r' % dn)
            continue
        if nm in _PNG_BEFORE_IDAT and i > first_idat:
            problems.append('chunk %s must precede IDAT' % dn)
        if plte_pos is not None:
            if nm in _PNG_BEFORE_PLTE and i > plte_pos:
                problems.append('chunk %s must precede PLTE' % dn)
            if nm in _PNG_AFTER_PLTE and i < plte_pos:
                problems.append('chunk %s must follow PLTE' % dn)

    # ---- IHDR ------------------------------------------------------------------------
    ihdr = None
    for ctype, cdata, _ in chunks:
        if ctype == b'IHDR':
            ihdr = cdata
            break
    if ihdr is None:
        problems.append('no IHDR chunk')
        return r
    if len(ihdr) != 13:
        problems.append('IHDR length is %d, must be 13' % len(ihdr))
        if len(ihdr) < 13:
            return r
    width, height, depth, ctype_, compression, filter_method, interlace = \
        struct.unpack('>IIBBBBB', ihdr[:13])
    r.width, r.height = width, height
    info.update(bit_depth=depth, colour_type=ctype_, interlace=interlace,
                compression=compression, filter_method=filter_method)
    fatal = False
    if width == 0 or height == 0:
        problems.append('IHDR: zero dimension %dx%d' % (width, height))
        fatal = True
    if width > 0x7fffffff or height > 0x7fffffff:
        problems.append('IHDR: dimension exceeds 2^31-1')
        fatal = True
    if ctype_ not in _PNG_ALLOWED_DEPTHS:
        problems.append('IHDR: illegal colour type %d' % ctype_)
        fatal = True
    elif depth not in _PNG_ALLOWED_DEPTHS[ctype_]:
        problems.append('IHDR: bit depth %d not allowed for colour type %d' % (depth, ctype_))
        fatal = True
    if compression != 0:
        problems.append('IHDR: compression method %d, only 0 is defined' % compression)
        fatal = True
    if filter_method != 0:
        problems.append('IHDR: filter method %d, only 0 is defined' % filter_method)
        fatal = True
    if interlace not in (0, 1):
        problems.append('IHDR: interlace method %d, only 0 and 1 are defined' % interlace)
        fatal = True
    if not fatal and width * height > _MAX_PIXELS:
        problems.append('unsupported: image of %dx%d pixels is too large for this reader'
                        % (width, height))
        fatal = True

    # ---- PLTE ------------------------------------------------------------------------
    palette = None
    for ct, cdata, _ in chunks:
        if ct == b'PLTE':
            if len(cdata) % 3 != 0:
                problems.append('PLTE length %d is not a multiple of 3' % len(cdata))
            n = len(cdata) // 3
            if n < 1 or n > 256:
                problems.append('PLTE has %d entries, must be 1..256' % n)
            palette = [tuple(cdata[3 * i:3 * i + 3]) for i in range(n)]
            break
    if palette is not None:
        info['palette'] = palette
        if ctype_ in (0, 4):
            problems.append('PLTE must not appear for colour type %d' % ctype_)
        if ctype_ == 3 and depth in (1, 2, 4, 8) and len(palette) > (1 << depth):
            problems.append('PLTE has %d entries, more than 2^bitdepth = %d'
                            % (len(palette), 1 << depth))
    elif ctype_ == 3:
        problems.append('colour type 3 requires a PLTE chunk')

    # ---- tRNS ------------------------------------------------------------------------
    trns_alpha = None      # colour type 3: list of alpha values
    trns_colour = None     # colour type 0: (grey,), colour type 2: (r, g, b); raw samples
    for ct, cdata, _ in chunks:
        if ct != b'tRNS':
            continue
        if ctype_ == 3:
            if palette is not None and len(cdata) > len(palette):
                problems.append('tRNS has %d entries, more than the %d palette entries'
                                % (len(cdata), len(palette)))
            if len(cdata) == 0:
                problems.append('tRNS is empty')
            trns_alpha = list(cdata)
            info['trns'] = trns_alpha
        elif ctype_ == 0:
            if len(cdata) != 2:
                problems.append('tRNS length %d, must be 2 for colour type 0' % len(cdata))
            else:
                v, = struct.unpack('>H', cdata)
                if depth in _PNG_ALLOWED_DEPTHS[0] and v >= (1 << depth):
                    problems.append('tRNS grey sample %d exceeds bit depth %d' % (v, depth))
                trns_colour = (v,)
                info['trns'] = trns_colour
        elif ctype_ == 2:
            if len(cdata) != 6:
                problems.append('tRNS length %d, must be 6 for colour type 2' % len(cdata))
            else:
                trns_colour = struct.unpack('>HHH', cdata)
                if depth in _PNG_ALLOWED_DEPTHS[2] and any(v >= (1 << depth) for v in trns_colour):
                    problems.append('tRNS sample exceeds bit depth %d: %r' % (depth, trns_colour))
                info['trns'] = trns_colour
        elif ctype_ in (4, 6):
            problems.append('tRNS must not appear for colour type %d' % ctype_)
        break

    # ---- pHYs ------------------------------------------------------------------------
    for ct, cdata, _ in chunks:
        if ct == b'pHYs':
            if len(cdata) != 9:
                problems.append('pHYs length %d, must be 9' % len(cdata))
            else:
                px, py, unit = struct.unpack('>IIB', cdata)
                info['phys'] = (px, py, unit)
                if unit not in (0, 1):
                    problems.append('pHYs unit specifier %d, must be 0 or 1' % unit)
                if px > 0x7fffffff or py > 0x7fffffff:
                    problems.append('pHYs value exceeds 2^31-1')
                if unit == 1:
                    # pixels per metre -> pixels per inch (1 inch = 0.0254 m exactly)
                    info['dpi'] = (px * 0.0254, py * 0.0254)
            break

    # ---- IEND ------------------------------------------------------------------------
    for ct, cdata, _ in chunks:
        if ct == b'IEND' and len(cdata) != 0:
            problems.append('IEND carries %d data bytes, must be empty' % len(cdata))

    if fatal:
        return r

    # ---- IDAT: concatenate, inflate --------------------------------------------------
    zdata = b''.join(cdata for ct, cdata, _ in chunks if ct == b'IDAT')
    raw = b''
    if idat_idx:
        if len(zdata) >= 2:
            cmf, flg = zdata[0], zdata[1]
            if cmf & 0x0f != 8:
                problems.append('zlib: compression method %d, must be 8 (deflate)' % (cmf & 0x0f))
            elif (cmf >> 4) > 7:
                problems.append('zlib: window size exponent %d exceeds 7 (32K)' % (cmf >> 4))
            if ((cmf << 8) | flg) % 31 != 0:
                problems.append('zlib: header check bits (FCHECK) wrong')
            if flg & 0x20:
                problems.append('zlib: preset dictionary flag set, not allowed in PNG')
        d = zlib.decompressobj()
        try:
            raw = d.decompress(zdata)
            raw += d.flush()
            if not d.eof:
                problems.append('zlib: compressed stream in IDAT is truncated '
                                '(end of stream / Adler-32 not reached)')
            if d.unused_data:
                problems.append('zlib: %d bytes of garbage after the end of the compressed stream'
                                % len(d.unused_data))
        except zlib.error as ex:
            problems.append('zlib: cannot decompress IDAT: %s' % ex)
            # salvage what a fresh decompressor yields before the error
            raw = _inflate_prefix(zdata)

    # ---- expected size ---------------------------------------------------------------
    channels = _PNG_CHANNELS[ctype_]
    bits_pp = channels * depth
    bpp = max(1, bits_pp // 8)
    if interlace == 0:
        passes = [(0, 0, 1, 1, width, height)]
    else:
        passes = []
        for xs, ys, dx, dy in _ADAM7:
            pw = (width - xs + dx - 1) // dx if width > xs else 0
            ph = (height - ys + dy - 1) // dy if height > ys else 0
            if pw and ph:
                passes.append((xs, ys, dx, dy, pw, ph))
    expected = sum(ph * (1 + (pw * bits_pp + 7) // 8) for _, _, _, _, pw, ph in passes)
    info['decompressed_size'] = len(raw)
    info['expected_size'] = expected
    if len(raw) != expected:
        problems.append('decompressed image data is %d bytes, expected exactly %d '
                        '(height * (1 + ceil(width * %d / 8)))' % (len(raw), expected, bits_pp))
        if _skip_inconsistent(r, width, height):
            return r

    # ---- reconstruct scanlines, build pixels -----------------------------------------
    pixels = [[(0, 0, 0, 0)] * width for _ in range(height)]
    pos = 0
    index_problems = 0
    maxsample = (1 << depth) - 1
    for pno, (xs, ys, dx, dy, pw, ph) in enumerate(passes):
        rowbytes = (pw * bits_pp + 7) // 8
        label = 'pass %d ' % (pno + 1) if interlace else ''
        lines, pos = _png_unfilter(raw, pos, ph, rowbytes, bpp, problems, label)
        for j, line in enumerate(lines):
            samples = _png_samples(line, pw * channels, depth)
            y = ys + j * dy
            row = pixels[y]
            for i in range(pw):
                s = samples[i * channels:(i + 1) * channels]
                if ctype_ == 3:
                    idx = s[0]
                    if palette is None or idx >= len(palette):
                        index_problems += 1
                        if index_problems <= 5:
                            problems.append('pixel (%d, %d): palette index %d out of range '
                                            '(palette has %d entries)'
                                            % (xs + i * dx, y, idx, len(palette or ())))
                        px = (0, 0, 0, 0)
                    else:
                        a = trns_alpha[idx] if trns_alpha is not None and idx < len(trns_alpha) else 255
                        px = palette[idx] + (a,)
                elif ctype_ == 0:
                    g = _scale255(s[0], maxsample)
                    a = 0 if trns_colour is not None and (s[0],) == tuple(trns_colour) else 255
                    px = (g, g, g, a)
                elif ctype_ == 2:
                    a = 0 if trns_colour is not None and tuple(s) == tuple(trns_colour) else 255
                    px = (_scale255(s[0], maxsample), _scale255(s[1], maxsample),
                          _scale255(s[2], maxsample), a)
                elif ctype_ == 4:
                    g = _scale255(s[0], maxsample)
                    px = (g, g, g, _scale255(s[1], maxsample))
                else:
                    px = tuple(_scale255(v, maxsample) for v in s)
                row[xs + i * dx] = px
    if index_problems > 5:
        problems.append('%d pixels with a palette index out of range in total' % index_problems)
    r.pixels = pixels
    return r


def _inflate_prefix(zdata):
    """Best effort: return the bytes which decompress before a zlib error occurs."""
    d = zlib.decompressobj()
    out = []
    for i in range(0, len(zdata), 64):
        try:
            out.append(d.decompress(zdata[i:i + 64]))
        except zlib.error:
            break
    return b''.join(out)


# =============================================================================
# Netpbm: PBM (P1, P4), PPM (P6), PAM (P7)
# =============================================================================

_PNM_WHITE = b' \t\n\v\f\r'


class _PnmHeader:
    """Tokeniser for the PBM / PGM / PPM header.

    pbm(5): the header consists of the magic number and decimal ASCII numbers
    separated by white space (blanks, TABs, CRs, LFs, VT, FF).  "Before the
    whitespace character that delimits the raster, any characters from a '#'
    through the next carriage return or newline character, is a comment and is
    ignored."  Exactly like the reference implementation, a comment (including
    its line end) counts as one white space character, so a comment may also
    end a token.
    """

    def __init__(self, data, pos):
        self.data = data
        self.pos = pos

    def getc(self):
        """Next header character with comments folded into their line end; None at EOF."""
        d = self.data
        if self.pos >= len(d):
            return None
        c = d[self.pos]
        self.pos += 1
        if c == 0x23:   # '#'
            while self.pos < len(d) and d[self.pos] not in (0x0a, 0x0d):
                self.pos += 1
            if self.pos >= len(d):
                return None
            c = d[self.pos]
            self.pos += 1
        return c

    def number(self, what, problems):
        """Read an unsigned decimal number and consume the ONE delimiter after it.

        Returns None on failure (problem recorded).
        """
        c = self.getc()
        while c is not None and c in _PNM_WHITE:
            c = self.getc()
        if c is None:
            problems.append('header: end of file where %s was expected' % what)
            return None
        digits = []
        while c is not None and 0x30 <= c <= 0x39:
            digits.append(c)
            c = self.getc()
        if not digits:
            problems.append('header: %s: unexpected character %r' % (what, bytes([c])))
            return None
        if c is None:
            problems.append('header: end of file directly after %s' % what)
        elif c not in _PNM_WHITE:
            problems.append('header: %s is followed by %r instead of white space'
                            % (what, bytes([c])))
        return int(bytes(digits))


def _pnm_dims_ok(r, width, height):
    if width is None or height is None:
        return False
    r.width, r.height = width, height
    if width == 0 or height == 0:
        r.problems.append('zero dimension %dx%d' % (width, height))
        return False
    if width * height > _MAX_PIXELS:
        r.problems.append('unsupported: image of %dx%d pixels is too large for this reader'
                          % (width, height))
        return False
    return True


def read_pbm(data):
    """Read a Netpbm portable bitmap, plain (P1) or raw (P4).

    1 = black (0, 0, 0, 255), 0 = white (255, 255, 255, 255).
    P4: each row is ceil(width / 8) bytes, most significant bit = leftmost
    pixel; the padding bits at the row end are "don't care" (their values are
    recorded in info['nonzero_padding'] only).  P1: one character '0' / '1' per
    pixel, white space between pixels optional.  Anything but white space after
    the raster is reported (this reader expects exactly one image per file).

    info keys: 'format' ('P1' / 'P4'), 'nonzero_padding' (P4).
    """
    r = Raster()
    problems = r.problems
    data = _as_bytes(data, r, 'PBM')
    magic = data[:2]
    if magic not in (b'P1', b'P4'):
        problems.append('magic number is %r, expected P1 or P4' % magic)
        return r
    r.info['format'] = magic.decode()
    hdr = _PnmHeader(data, 2)
    if len(data) > 2 and data[2] not in _PNM_WHITE and data[2] != 0x23:
        problems.append('magic number is not followed by white space')
    width = hdr.number('width', problems)
    height = hdr.number('height', problems) if width is not None else None
    if not _pnm_dims_ok(r, width, height):
        return r
    pos = hdr.pos
    if magic == b'P4':
        rowbytes = (width + 7) // 8
        need = rowbytes * height
        body = data[pos:pos + need]
        if len(data) - pos != need:
            problems.append('raster is %d bytes, expected exactly %d (%d rows of %d bytes)'
                            % (len(data) - pos, need, height, rowbytes))
            if _skip_inconsistent(r, width, height):
                return r
        if len(body) < need:
            body = body + bytes(need - len(body))
        pixels = []
        nonzero_padding = False
        padbits = rowbytes * 8 - width
        for y in range(height):
            line = body[y * rowbytes:(y + 1) * rowbytes]
            pixels.append([BLACK if (line[x >> 3] >> (7 - (x & 7))) & 1 else WHITE
                           for x in range(width)])
            if padbits and line[-1] & ((1 << padbits) - 1):
                nonzero_padding = True
        r.info['nonzero_padding'] = nonzero_padding
        r.pixels = pixels
        return r
    # P1
    bits = []
    bad = 0
    need = width * height
    extra = 0
    in_comment = False
    for c in data[pos:]:
        # the plain format is read character-wise by the reference implementation
        # with the same comment rule as the header, so '#' ... end of line is
        # skipped in the raster as well (noted in info['raster_comments'])
        if in_comment:
            in_comment = c not in (0x0a, 0x0d)
            continue
        if c == 0x23:
            in_comment = True
            r.info['raster_comments'] = True
            continue
        if c in _PNM_WHITE:
            continue
        if c == 0x30 or c == 0x31:
            if len(bits) < need:
                bits.append(c - 0x30)
            else:
                extra += 1
        else:
            bad += 1
            if bad <= 5:
                problems.append('raster: illegal character %r' % bytes([c]))
    if bad > 5:
        problems.append('raster: %d illegal characters in total' % bad)
    if len(bits) != need or extra:
        problems.append('raster has %d pixels, expected exactly %d' % (len(bits) + extra, need))
        if _skip_inconsistent(r, width, height):
            return r
    bits.extend([0] * (need - len(bits)))
    r.pixels = [[BLACK if bits[y * width + x] else WHITE for x in range(width)]
                for y in range(height)]
    return r


def read_ppm(data):
    """Read a Netpbm portable pixmap in the raw format (P6), maxval <= 255.

    Header: P6, width, height, maxval (1..65535), ONE white space character,
    then height * width * 3 samples (R, G, B), one byte each for maxval < 256.
    maxval > 255 (two-byte samples) is reported as 'unsupported'.
    Samples are scaled to 0..255 by maxval; alpha is always 255.

    info keys: 'format', 'maxval'.
    """
    r = Raster()
    problems = r.problems
    data = _as_bytes(data, r, 'PPM')
    magic = data[:2]
    if magic != b'P6':
        problems.append('magic number is %r, expected P6' % magic)
        return r
    r.info['format'] = 'P6'
    if len(data) > 2 and data[2] not in _PNM_WHITE and data[2] != 0x23:
        problems.append('magic number is not followed by white space')
    hdr = _PnmHeader(data, 2)
    width = hdr.number('width', problems)
    height = hdr.number('height', problems) if width is not None else None
    maxval = hdr.number('maxval', problems) if height is not None else None
    if maxval is None:
        if width is not None and height is not None:
            r.width, r.height = width, height
        return r
    r.info['maxval'] = maxval
    if not _pnm_dims_ok(r, width, height):
        return r
    if maxval < 1 or maxval > 65535:
        problems.append('maxval %d out of range 1..65535' % maxval)
        return r
    if maxval > 255:
        problems.append('unsupported: maxval %d > 255 (two-byte samples)' % maxval)
        return r
    pos = hdr.pos
    need = width * height * 3
    body = data[pos:pos + need]
    if len(data) - pos != need:
        problems.append('raster is %d bytes, expected exactly %d (%d x %d x 3)'
                        % (len(data) - pos, need, width, height))
        if _skip_inconsistent(r, width, height):
            return r
    if len(body) < need:
        body = body + bytes(need - len(body))
    over = 0
    pixels = []
    for y in range(height):
        row = []
        base = y * width * 3
        for x in range(width):
            rr, gg, bb = body[base + 3 * x], body[base + 3 * x + 1], body[base + 3 * x + 2]
            if rr > maxval or gg > maxval or bb > maxval:
                over += 1
                if over <= 5:
                    problems.append('pixel (%d, %d): sample exceeds maxval %d: %r'
                                    % (x, y, maxval, (rr, gg, bb)))
                rr, gg, bb = min(rr, maxval), min(gg, maxval), min(bb, maxval)
            row.append((_scale255(rr, maxval), _scale255(gg, maxval), _scale255(bb, maxval), 255))
        pixels.append(row)
    if over > 5:
        problems.append('%d pixels with a sample exceeding maxval in total' % over)
    r.pixels = pixels
    return r


# pam(5): defined tuple types -> (depth, maxval constraint)
_PAM_TUPLTYPES = {
    'BLACKANDWHITE': 1, 'GRAYSCALE': 1, 'RGB': 3,
    'BLACKANDWHITE_ALPHA': 2, 'GRAYSCALE_ALPHA': 2, 'RGB_ALPHA': 4,
}


def read_pam(data):
    """Read a Netpbm portable arbitrary map (P7).

    Header (pam(5)): first line "P7", then one item per line, terminated by a
    line "ENDHDR": WIDTH, HEIGHT, DEPTH, MAXVAL (all required, each once) and
    TUPLTYPE (optional, may be repeated: values are concatenated with a blank).
    Lines starting with '#' are comments, empty lines are ignored.  The raster
    follows the newline of ENDHDR immediately: HEIGHT * WIDTH tuples of DEPTH
    samples, one byte per sample if MAXVAL < 256, else two bytes (MSB first).

    Tuple types understood: BLACKANDWHITE (depth 1, maxval 1; 1 = WHITE,
    0 = BLACK - the opposite of PBM), GRAYSCALE (depth 1), RGB (depth 3) and
    the _ALPHA variants with one more plane (maxval = opaque, 0 = transparent).
    All samples are scaled to 0..255 by maxval.

    info keys: 'width', 'height', 'depth', 'maxval', 'tupltype'.
    """
    r = Raster()
    problems = r.problems
    data = _as_bytes(data, r, 'PAM')
    if data[:3] != b'P7\n':
        problems.append('file does not start with the line "P7": %r' % data[:3])
        if data[:2] != b'P7':
            return r
    pos = data.find(b'\n') + 1 if b'\n' in data else len(data)
    fields = {}
    tupltype = []
    ended = False
    while pos < len(data):
        nl = data.find(b'\n', pos)
        if nl < 0:
            problems.append('header: unterminated line at offset %d (no ENDHDR seen)' % pos)
            pos = len(data)
            break
        line = data[pos:nl]
        pos = nl + 1
        if line.startswith(b'#'):
            continue
        text = line.decode('latin-1').strip()
        if not text:
            continue
        parts = text.split(None, 1)
        key = parts[0]
        value = parts[1].strip() if len(parts) > 1 else ''
        if key == 'ENDHDR':
            if value:
                problems.append('header: ENDHDR line carries extra text %r' % value)
            ended = True
            break
        if key in ('WIDTH', 'HEIGHT', 'DEPTH', 'MAXVAL'):
            if key in fields:
                problems.append('header: %s given more than once' % key)
            if not re.fullmatch(r'[0-9]+', value):
                problems.append('header: %s value %r is not an unsigned decimal number'
                                % (key, value))
            else:
                fields[key] = int(value)
        elif key == 'TUPLTYPE':
            if not value:
                problems.append('header: TUPLTYPE without a value')
            tupltype.append(value)
        else:
            problems.append('header: unknown header line %r' % text[:40])
    if not ended:
        problems.append('header: ENDHDR missing')
    for key in ('WIDTH', 'HEIGHT', 'DEPTH', 'MAXVAL'):
        if key not in fields:
            problems.append('header: %s missing' % key)
    tt = ' '.join(tupltype)
    r.info.update(width=fields.get('WIDTH'), height=fields.get('HEIGHT'),
                  depth=fields.get('DEPTH'), maxval=fields.get('MAXVAL'), tupltype=tt)
    if any(key not in fields for key in ('WIDTH', 'HEIGHT', 'DEPTH', 'MAXVAL')):
        return r
    width, height, depth, maxval = (fields['WIDTH'], fields['HEIGHT'],
                                    fields['DEPTH'], fields['MAXVAL'])
    if not _pnm_dims_ok(r, width, height):
        return r
    if maxval < 1 or maxval > 65535:
        problems.append('MAXVAL %d out of range 1..65535' % maxval)
        return r
    if depth < 1:
        problems.append('DEPTH %d must be at least 1' % depth)
        return r
    # interpretation of the planes
    if tt in _PAM_TUPLTYPES:
        if depth != _PAM_TUPLTYPES[tt]:
            problems.append('TUPLTYPE %s requires DEPTH %d, found %d'
                            % (tt, _PAM_TUPLTYPES[tt], depth))
            return r
        if tt.startswith('BLACKANDWHITE') and maxval != 1:
            problems.append('TUPLTYPE %s requires MAXVAL 1, found %d' % (tt, maxval))
        if tt.startswith('GRAYSCALE') and maxval < 2:
            problems.append('TUPLTYPE %s requires MAXVAL >= 2, found %d' % (tt, maxval))
        kind = tt
    elif tt == '':
        # pam(5): without TUPLTYPE the meaning is unspecified; fall back to the
        # conventional interpretation by depth, but say so.
        kind = {1: 'GRAYSCALE', 2: 'GRAYSCALE_ALPHA', 3: 'RGB', 4: 'RGB_ALPHA'}.get(depth)
        problems.append('TUPLTYPE missing (interpreting DEPTH %d as %s)' % (depth, kind))
        if kind is None:
            return r
    else:
        problems.append('unsupported: TUPLTYPE %r' % tt)
        return r
    bps = 1 if maxval < 256 else 2
    need = width * height * depth * bps
    body = data[pos:pos + need]
    if len(data) - pos != need:
        problems.append('raster is %d bytes, expected exactly %d (%d x %d x %d x %d)'
                        % (len(data) - pos, need, width, height, depth, bps))
        if _skip_inconsistent(r, width, height):
            return r
    if len(body) < need:
        body = body + bytes(need - len(body))
    colour_planes = 3 if kind.startswith('RGB') else 1
    has_alpha = kind.endswith('_ALPHA')
    over = 0
    pixels = []
    i = 0
    for y in range(height):
        row = []
        for x in range(width):
            s = []
            for _ in range(depth):
                if bps == 1:
                    v = body[i]
                    i += 1
                else:
                    v = (body[i] << 8) | body[i + 1]
                    i += 2
                if v > maxval:
                    over += 1
                    if over <= 5:
                        problems.append('pixel (%d, %d): sample %d exceeds MAXVAL %d'
                                        % (x, y, v, maxval))
                    v = maxval
                s.append(_scale255(v, maxval))
            if colour_planes == 3:
                rgb = (s[0], s[1], s[2])
            else:
                rgb = (s[0], s[0], s[0])      # BLACKANDWHITE: 1 -> 255 = white, 0 -> black
            row.append(rgb + ((s[colour_planes],) if has_alpha else (255,)))
        pixels.append(row)
    if over > 5:
        problems.append('%d samples exceeding MAXVAL in total' % over)
    r.pixels = pixels
    return r


# =============================================================================
# C source formats: XBM and XPM 3
# =============================================================================

def _c_scan(text, problems):
    """Split C source into a list of ('code', str) / ('str', str) / ('comment', str).

    Handles /* ... */ and // comments and double quoted string literals with
    the escapes \\\\ and \\" (other escapes are kept verbatim and reported).
    """
    items = []
    i = 0
    n = len(text)
    code = []

    def flush():
        if code:
            items.append(('code', ''.join(code)))
            del code[:]

    while i < n:
        c = text[i]
        if text.startswith('/*', i):
            j = text.find('*/', i + 2)
            flush()
            if j < 0:
                problems.append('unterminated /* comment at offset %d' % i)
                items.append(('comment', text[i + 2:]))
                i = n
            else:
                items.append(('comment', text[i + 2:j]))
                i = j + 2
        elif text.startswith('//', i):
            j = text.find('\n', i)
            j = n if j < 0 else j
            flush()
            items.append(('comment', text[i + 2:j]))
            i = j
        elif c == '"':
            flush()
            i += 1
            buf = []
            closed = False
            while i < n:
                c = text[i]
                if c == '\\' and i + 1 < n:
                    e = text[i + 1]
                    if e in '"\\':
                        buf.append(e)
                    else:
                        problems.append('unsupported escape sequence \\%s in string literal' % e)
                        buf.append(c + e)
                    i += 2
                elif c == '"':
                    closed = True
                    i += 1
                    break
                elif c == '\n':
                    break
                else:
                    buf.append(c)
                    i += 1
            if not closed:
                problems.append('unterminated string literal')
            items.append(('str', ''.join(buf)))
        else:
            code.append(c)
            i += 1
    flush()
    return items


_C_INT = re.compile(r'[+-]?(0[xX][0-9a-fA-F]+|0[0-7]*|[1-9][0-9]*)\Z')


def _c_int(tok):
    """Value of a C integer literal (hex, octal, decimal) or None."""
    if not _C_INT.match(tok):
        return None
    neg = tok.startswith('-')
    t = tok.lstrip('+-')
    if t[:2] in ('0x', '0X'):
        v = int(t[2:], 16)
    elif len(t) > 1 and t[0] == '0':
        v = int(t, 8)
    else:
        v = int(t, 10)
    return -v if neg else v


def read_xbm(text):
    """Read an X11 bitmap (XBM, X11 flavour with 8-bit units).

    Accepted source (C comments allowed anywhere):

        #define <name>_width  <int>
        #define <name>_height <int>
        [#define <name>_x_hot <int>]   [#define <name>_y_hot <int>]
        static [const] [unsigned] char <name>_bits[] = { <int>, <int>, ... [,] };

    with C integer literals (0x.. hex as written by every XBM writer, octal and
    decimal are accepted as well).  <name> must be the same C identifier in all
    lines.  Each row consists of ceil(width / 8) bytes, the LEAST significant
    bit of a byte is the leftmost pixel, bit 1 = foreground = black
    (0, 0, 0, 255), bit 0 = white.  The number of bytes must be exactly
    ceil(width / 8) * height.  The padding bits at the end of a row are
    unspecified (info['nonzero_padding']).  The X10 variant (short units) is
    reported as unsupported.

    info keys: 'name', 'hotspot', 'nonzero_padding', 'bytes'.
    """
    r = Raster()
    problems = r.problems
    text = _as_text(text, r, 'XBM')
    items = _c_scan(text, problems)
    if any(kind == 'str' for kind, _ in items):
        problems.append('unexpected string literal in XBM source')
    src = ' '.join(v if kind == 'code' else ' ' for kind, v in items if kind != 'str')
    src = '\n'.join(ln.rstrip() for ln in src.replace('\r\n', '\n').replace('\r', '\n').split('\n'))
    defines = {}
    names = {}

    def take_define(m):
        ident, value = m.group(1), m.group(2)
        v = _c_int(value)
        if v is None or v < 0:
            problems.append('#define %s: value %r is not an unsigned integer literal' % (ident, value))
            return ' '
        for suffix in ('x_hot', 'y_hot', 'width', 'height'):
            if ident == suffix or ident.endswith('_' + suffix):
                if suffix in defines:
                    problems.append('#define for %s given more than once' % suffix)
                defines[suffix] = v
                names[suffix] = ident[:-len(suffix)].rstrip('_') if ident != suffix else ''
                return ' '
        problems.append('unexpected #define %s' % ident)
        return ' '

    rest = re.sub(r'(?m)^[ \t]*#[ \t]*define[ \t]+([A-Za-z_][A-Za-z_0-9]*)[ \t]+(\S+)[ \t]*$',
                  take_define, src)
    decl = re.compile(r'static\s+(?:const\s+)?((?:unsigned\s+|signed\s+)?)(char|short)\s+'
                      r'([A-Za-z_][A-Za-z_0-9]*)\s*\[\s*([0-9]*)\s*\]\s*=\s*\{([^{}]*)\}\s*;')
    m = decl.search(rest)
    for key in ('width', 'height'):
        if key not in defines:
            problems.append('#define <name>_%s missing' % key)
    if m is None:
        problems.append('array declaration "static [unsigned] char <name>_bits[] = { ... };" '
                        'not found')
        if 'width' in defines and 'height' in defines:
            r.width, r.height = defines['width'], defines['height']
        return r
    residue = (rest[:m.start()] + rest[m.end():]).strip()
    if residue:
        problems.append('unexpected text outside the defines and the array: %r' % residue[:40])
    arr_name = m.group(3)
    if m.group(2) == 'short':
        problems.append('unsupported: X10 bitmap format (array of short)')
    if arr_name != 'bits' and not arr_name.endswith('_bits'):
        problems.append('array name %r does not end with _bits' % arr_name)
    names['bits'] = arr_name[:-4].rstrip('_') if arr_name.endswith('bits') else arr_name
    if len(set(names.values())) > 1:
        problems.append('inconsistent name prefixes: %r' % (sorted(names.items()),))
    r.info['name'] = names.get('bits')
    if 'x_hot' in defines or 'y_hot' in defines:
        r.info['hotspot'] = (defines.get('x_hot'), defines.get('y_hot'))
        if not ('x_hot' in defines and 'y_hot' in defines):
            problems.append('only one of x_hot / y_hot defined')
    toks = [t.strip() for t in m.group(5).split(',')]
    if toks and toks[-1] == '':
        toks.pop()             # a trailing comma is legal C
    values = []
    for k, t in enumerate(toks):
        v = _c_int(t)
        if v is None:
            problems.append('array element %d: %r is not an integer literal' % (k, t))
            v = 0
        elif not (-128 <= v <= 255):
            problems.append('array element %d: value %s does not fit into a char' % (k, t))
            v &= 0xff
        values.append(v & 0xff)
    r.info['bytes'] = len(values)
    if m.group(4) and int(m.group(4)) != len(values):
        problems.append('declared array size %s but %d initialisers' % (m.group(4), len(values)))
    if 'width' not in defines or 'height' not in defines:
        return r
    width, height = defines['width'], defines['height']
    if not _pnm_dims_ok(r, width, height):
        return r
    if m.group(2) == 'short':
        return r
    rowbytes = (width + 7) // 8
    need = rowbytes * height
    if len(values) != need:
        problems.append('array has %d bytes, expected exactly %d (%d rows of %d bytes)'
                        % (len(values), need, height, rowbytes))
        if _skip_inconsistent(r, width, height):
            return r
    values.extend([0] * (need - len(values)))
    nonzero_padding = False
    padbits = rowbytes * 8 - width
    pixels = []
    for y in range(height):
        line = values[y * rowbytes:(y + 1) * rowbytes]
        pixels.append([BLACK if (line[x >> 3] >> (x & 7)) & 1 else WHITE for x in range(width)])
        if padbits and line[-1] >> (8 - padbits):
            nonzero_padding = True
    r.info['nonzero_padding'] = nonzero_padding
    r.pixels = pixels
    return r


# The few X11 colour names this reader understands (rgb.txt values).  Everything
# else is reported as unsupported rather than guessed.
_X11_NAMES = {
    'black': (0, 0, 0), 'white': (255, 255, 255), 'red': (255, 0, 0),
    'green': (0, 255, 0), 'blue': (0, 0, 255), 'yellow': (255, 255, 0),
    'cyan': (0, 255, 255), 'magenta': (255, 0, 255),
}
_XPM_KEYS = ('m', 's', 'g4', 'g', 'c')


def _xpm_colour(spec):
    """Parse an XPM colour value: returns (r, g, b, a) or a problem string."""
    if spec.lower() == 'none':
        return (0, 0, 0, 0)
    if spec.startswith('#'):
        h = spec[1:]
        if not re.fullmatch(r'[0-9a-fA-F]+', h) or len(h) not in (6, 12):
            return 'unsupported: colour %r (only #rrggbb / #rrrrggggbbbb are read)' % spec
        n = len(h) // 3
        comps = [int(h[k * n:(k + 1) * n], 16) for k in range(3)]
        if n == 4:
            comps = [v >> 8 for v in comps]
        return tuple(comps) + (255,)
    if spec.lower() in _X11_NAMES:
        return _X11_NAMES[spec.lower()] + (255,)
    return 'unsupported: colour %r' % spec


def read_xpm(text):
    """Read an X pixmap in the XPM 3 format.

    Accepted source:

        /* XPM */                                   <- must be the first thing in the file
        static [const] char * [const] <name>[] = {
        "<width> <height> <ncolors> <cpp> [<x_hot> <y_hot>] [XPMEXT]",   <- values
        "<cpp chars> {<key> <colour>}+",            <- ncolors colour lines
        "<width * cpp chars>",                      <- height pixel lines
        };

    Strings are separated by commas; C comments are allowed between them.
    Colour keys: m, s, g4, g, c; the value of key 'c' is used (falling back to
    g, g4, m).  Colour values: #rrggbb (also #rrrrggggbbbb, high bytes), the
    names in _X11_NAMES, and None (any case) = transparent -> (0, 0, 0, 0).
    Extensions (XPMEXT) are reported as unsupported.

    info keys: 'name', 'ncolors', 'cpp', 'colours' (dict chars -> rgba), 'hotspot'.
    """
    r = Raster()
    problems = r.problems
    text = _as_text(text, r, 'XPM')
    items = _c_scan(text, problems)
    # --- leading /* XPM */ comment
    k = 0
    while k < len(items) and items[k][0] == 'code' and not items[k][1].strip():
        k += 1
    if k < len(items) and items[k][0] == 'comment' and items[k][1].strip() == 'XPM':
        if text[:9] != '/* XPM */':
            problems.append('file does not start with exactly "/* XPM */"')
        k += 1
    else:
        problems.append('file does not start with the comment /* XPM */')
    items = [it for it in items[k:] if it[0] != 'comment']
    # --- split into code / strings
    strings = []
    seps = []           # code between the strings: seps[0] declaration, seps[-1] closing
    cur = []
    for kind, v in items:
        if kind == 'code':
            cur.append(v)
        else:
            seps.append(''.join(cur))
            cur = []
            strings.append(v)
    seps.append(''.join(cur))
    if not strings:
        problems.append('no string literals found')
        return r
    m = re.fullmatch(r'\s*static\s+(?:const\s+)?char\s*\*\s*(?:const\s+)?([A-Za-z_][A-Za-z_0-9]*)'
                     r'\s*\[\s*\]\s*=\s*\{\s*', seps[0])
    if m is None:
        problems.append('declaration %r is not "static char *<name>[] = {"' % seps[0].strip()[:60])
    else:
        r.info['name'] = m.group(1)
    for j, s in enumerate(seps[1:-1]):
        if s.strip() != ',':
            problems.append('strings %d and %d are separated by %r instead of a comma'
                            % (j, j + 1, s.strip()[:20]))
    if not re.fullmatch(r'\s*,?\s*\}\s*;\s*', seps[-1]):
        problems.append('array is not closed by "};": %r' % seps[-1].strip()[:40])
    # --- values
    vals = strings[0].split()
    ext = False
    if vals and vals[-1] == 'XPMEXT':
        ext = True
        vals = vals[:-1]
        problems.append('unsupported: XPMEXT extensions')
    if len(vals) not in (4, 6) or not all(re.fullmatch(r'[0-9]+', v) for v in vals):
        problems.append('values string %r is not "<width> <height> <ncolors> <cpp> '
                        '[<x_hot> <y_hot>]"' % strings[0][:60])
        return r
    width, height, ncolors, cpp = (int(v) for v in vals[:4])
    if len(vals) == 6:
        r.info['hotspot'] = (int(vals[4]), int(vals[5]))
    r.info.update(ncolors=ncolors, cpp=cpp)
    if cpp < 1:
        problems.append('chars per pixel is %d, must be >= 1' % cpp)
        return r
    if ncolors < 1:
        problems.append('ncolors is %d, must be >= 1' % ncolors)
    if not _pnm_dims_ok(r, width, height):
        return r
    if len(strings) < 1 + ncolors:
        problems.append('only %d strings, %d colour lines expected' % (len(strings), ncolors))
    # --- colours
    colours = {}
    for j in range(ncolors):
        if 1 + j >= len(strings):
            break
        s = strings[1 + j]
        if len(s) < cpp:
            problems.append('colour line %d %r is shorter than cpp=%d' % (j, s, cpp))
            continue
        chars = s[:cpp]
        rest = s[cpp:]
        if rest[:1] not in (' ', '\t'):
            problems.append('colour line %d %r: white space expected after the pixel characters'
                            % (j, s))
        toks = rest.split()
        defs = {}
        key = None
        words = []
        for t in toks + [None]:
            if t is None or (t in _XPM_KEYS and (key is None or words)):
                # close the current key / value pair, open the next one
                if key is not None:
                    if not words:
                        problems.append('colour line %d %r: key %s without a value' % (j, s, key))
                    else:
                        defs[key] = ' '.join(words)
                if t is not None and t in defs:
                    problems.append('colour line %d %r: key %s repeated' % (j, s, t))
                key = t
                words = []
            elif key is None:
                problems.append('colour line %d %r: colour key (m, s, g4, g, c) expected, found %r'
                                % (j, s, t))
                break
            else:
                words.append(t)
        spec = None
        for kk in ('c', 'g', 'g4', 'm'):
            if kk in defs:
                spec = defs[kk]
                break
        if spec is None:
            problems.append('colour line %d %r: no colour value for key c / g / g4 / m' % (j, s))
            col = (0, 0, 0, 0)
        else:
            col = _xpm_colour(spec)
            if isinstance(col, str):
                problems.append('colour line %d: %s' % (j, col))
                col = (0, 0, 0, 0)
        if chars in colours:
            problems.append('colour line %d: pixel characters %r defined twice' % (j, chars))
        colours[chars] = col
    r.info['colours'] = colours
    # --- pixels
    rows = strings[1 + ncolors:]
    if len(rows) != height and not (ext and len(rows) > height):
        problems.append('%d pixel lines, expected exactly %d' % (len(rows), height))
        if _skip_inconsistent(r, width, height):
            return r
    wrong_len = [y for y in range(min(height, len(rows))) if len(rows[y]) != width * cpp]
    for y in wrong_len[:5]:
        problems.append('pixel line %d has %d characters, expected exactly %d'
                        % (y, len(rows[y]), width * cpp))
    if len(wrong_len) > 5:
        problems.append('%d pixel lines of wrong length in total' % len(wrong_len))
    if wrong_len and _skip_inconsistent(r, width, height):
        return r
    pixels = []
    unknown = 0
    for y in range(height):
        s = rows[y] if y < len(rows) else ''
        row = []
        for x in range(width):
            chars = s[x * cpp:(x + 1) * cpp]
            col = colours.get(chars)
            if col is None:
                if len(chars) == cpp:
                    unknown += 1
                    if unknown <= 5:
                        problems.append('pixel (%d, %d): characters %r are not a defined colour'
                                        % (x, y, chars))
                col = (0, 0, 0, 0)
            row.append(col)
        pixels.append(row)
    if unknown > 5:
        problems.append('%d pixels with undefined colour characters in total' % unknown)
    r.pixels = pixels
    return r


# =============================================================================
# Text formats
# =============================================================================

def read_txt(text):
    """Lines of '0' / '1' characters -> grid of ints.

    Lines are separated by LF (a CR before the LF is tolerated); one trailing
    line end is optional.  Raises ValueError for any other character, for an
    empty line and for ragged lines (this is the only reader that raises).
    """
    if not isinstance(text, str):
        raise ValueError('read_txt expects str, got %s' % type(text).__name__)
    lines = text.split('\n')
    if lines and lines[-1] == '':
        lines.pop()
    grid = []
    for no, line in enumerate(lines):
        if line.endswith('\r'):
            line = line[:-1]
        row = []
        for col, ch in enumerate(line):
            if ch == '0':
                row.append(0)
            elif ch == '1':
                row.append(1)
            else:
                raise ValueError('line %d, column %d: illegal character %r' % (no, col, ch))
        if not row:
            raise ValueError('line %d is empty' % no)
        if grid and len(row) != len(grid[0]):
            raise ValueError('line %d has %d characters, line 0 has %d (ragged)'
                             % (no, len(row), len(grid[0])))
        grid.append(row)
    return grid


# ECMA-48 control sequence: CSI (ESC [) parameter bytes 0x30-0x3F, intermediate
# bytes 0x20-0x2F, final byte 0x40-0x7E.
_CSI = re.compile('\x1b\\[([0-?]*)([ -/]*)([@-~])')


class _Sgr:
    """The part of the ECMA-48 graphic rendition state the terminal readers need."""

    def __init__(self):
        self.reverse = False     # SGR 7 "negative image"
        self.known = True        # False after any attribute this reader does not model

    def apply(self, params):
        """Apply the parameter string of an SGR (final byte 'm') control sequence."""
        for p in (params.split(';') if params else ['']):
            if p in ('', '0', '00'):      # default rendition, cancels everything
                self.reverse = False
                self.known = True
            elif p == '7':                # negative (reverse) image
                self.reverse = True
            elif p == '27':               # positive image
                self.reverse = False
            elif p in ('39', '49'):       # default foreground / background colour
                pass
            else:                         # colours, bold, conceal, ... : not modelled
                self.known = False


def _terminal_lines(text):
    if not isinstance(text, str):
        try:
            text = bytes(text).decode('utf-8', 'replace')
        except Exception:
            text = ''
    lines = text.split('\n')
    if lines and lines[-1] == '':
        lines.pop()
    return [ln[:-1] if ln.endswith('\r') else ln for ln in lines]


def _terminal_events(line, sgr):
    """Yield (char, reverse or None) for every printed character of a line.

    SGR sequences update ``sgr``; the second element is None if the rendition
    is not known (unsupported SGR parameter, other control sequence, stray ESC
    or control character seen since the last reset).
    """
    i = 0
    n = len(line)
    while i < n:
        c = line[i]
        if c == '\x1b':
            m = _CSI.match(line, i)
            if m and m.group(3) == 'm' and not m.group(2) and re.fullmatch('[0-9;]*', m.group(1)):
                sgr.apply(m.group(1))
                i = m.end()
            elif m:
                sgr.known = False         # cursor movement, erase, private sequences ...
                i = m.end()
            else:
                sgr.known = False         # stray ESC
                i += 1
            continue
        if ord(c) < 0x20 or ord(c) == 0x7f:
            sgr.known = False             # TAB, BS, ... would move the cursor
            i += 1
            continue
        yield c, (sgr.reverse if sgr.known else None)
        i += 1


def read_ansi_terminal(text):
    """Read the ANSI output of segno's QRCode.terminal() -> grid, 1 = dark, 0 = light.

    What segno really emits (observed, e.g. segno.make('x').terminal(out=io.StringIO())):
    one text line per module row (incl. quiet zone), each line is a sequence of
    runs  ESC[7m <2k spaces> ESC[0m  (k light modules)  and
          ESC[49m <2k spaces> ESC[0m  (k dark modules), the line ends with LF.

    This reader does not pattern-match those runs, it interprets the text as a
    terminal would (ECMA-48 SGR semantics) under segno's convention that the
    terminal has a dark default background and a light default foreground:

      * only the control function SGR (CSI ... m) is accepted, with the
        parameters 0 / empty (default rendition), 7 (negative image), 27
        (positive image), 39 and 49 (default foreground / background; no effect
        on the model because no other colour is ever accepted).  The rendition
        state persists across characters and lines until changed, as on a
        terminal.
      * every module is TWO consecutive SPACE characters.  A SPACE shows only
        the background: with negative image active it is painted in the
        (light) foreground colour -> light module -> 0; with positive image and
        default background it is painted in the (dark) background colour ->
        dark module -> 1.
      * anything else yields the cell value -1, which check_grid reports:
        a printed character other than SPACE, the two characters of a pair in
        different renditions, an odd character at the end of a line, any SGR
        parameter other than the above (the rendition stays unknown until the
        next SGR 0), any other control sequence / control character.

    Lines are separated by LF (CR LF tolerated); one trailing line end is optional.
    """
    sgr = _Sgr()
    grid = []
    for line in _terminal_lines(text):
        vals = []
        for ch, rev in _terminal_events(line, sgr):
            if ch != ' ' or rev is None:
                vals.append(-1)
            else:
                vals.append(0 if rev else 1)
        row = []
        for k in range(0, len(vals), 2):
            pair = vals[k:k + 2]
            row.append(pair[0] if len(pair) == 2 and pair[0] == pair[1] else -1)
        grid.append(row)
    return grid


_HALF_BLOCKS = {
    ' ': (False, False),          # nothing painted in the foreground colour
    '\u2580': (True, False),     # UPPER HALF BLOCK
    '\u2584': (False, True),     # LOWER HALF BLOCK
    '\u2588': (True, True),      # FULL BLOCK
}


def read_compact_terminal(text):
    """Read QRCode.terminal(compact=True) output -> grid, 1 = dark, 0 = light.

    What segno really emits (observed): NO escape sequences at all (in
    particular no reverse video), one text line per TWO module rows, one
    character per module column, from the set SPACE, U+2580 (upper half
    block), U+2584 (lower half block), U+2588 (full block); lines end with LF.
    The half which is painted in the FOREGROUND colour is a LIGHT module, the
    unpainted half (background) is a DARK module - the same "dark terminal
    background, light foreground" convention as in the non-compact output,
    where reverse video marks light modules.  E.g. a quiet zone row above a
    dark finder row is U+2580.

    Accepted input: exactly those four characters.  SGR sequences are
    tolerated with ECMA-48 semantics (0 / empty, 7, 27, 39, 49 as in
    read_ansi_terminal): under negative image (SGR 7) painted and unpainted
    halves swap their meaning.  Every other printed character, SGR parameter or
    control sequence yields -1 in both cells of that column.

    Rows: text line i gives module rows 2i and 2i + 1.  Symbols (incl. quiet
    zone) have an odd number of rows, so the lower half of the last text line
    is padding; segno leaves it unpainted (= "dark").  Because the symbol is
    square, the padding row is recognised as follows: if the number of half
    rows is the (maximal) line width + 1 AND the last half row consists of 1
    (unpainted) only, it is dropped.  Otherwise all half rows are returned and
    check_grid reports the wrong dimension.
    """
    sgr = _Sgr()
    grid = []
    for line in _terminal_lines(text):
        top, bottom = [], []
        for ch, rev in _terminal_events(line, sgr):
            halves = _HALF_BLOCKS.get(ch)
            if halves is None or rev is None:
                top.append(-1)
                bottom.append(-1)
                continue
            for painted, dest in zip(halves, (top, bottom)):
                light = painted != rev        # painted in foreground colour = light
                dest.append(0 if light else 1)
        grid.append(top)
        grid.append(bottom)
    if grid:
        width = max(len(row) for row in grid)
        if len(grid) == width + 1 and all(v == 1 for v in grid[-1]):
            grid.pop()
    return grid


# =============================================================================
# Postcondition checks
# =============================================================================

_MAX_REPORTED = 5


def _matrix_shape(matrix, problems):
    rows = [list(row) for row in matrix]
    if not rows:
        problems.append('matrix is empty')
        return rows, 0, 0
    ncols = len(rows[0])
    if any(len(row) != ncols for row in rows):
        problems.append('matrix is ragged')
    return rows, len(rows), ncols


def _norm_colour(colour, what, problems):
    """None stays None (transparent), (r, g, b) becomes (r, g, b, 255)."""
    if colour is None:
        return None
    try:
        c = tuple(int(v) for v in colour)
    except (TypeError, ValueError):
        problems.append('%s colour %r is not an (r, g, b[, a]) tuple' % (what, colour))
        return None
    if len(c) == 3:
        c = c + (255,)
    if len(c) != 4 or not all(0 <= v <= 255 for v in c):
        problems.append('%s colour %r is not an (r, g, b[, a]) tuple of 0..255' % (what, colour))
        return None
    return c


def _colour_matches(px, expected):
    if expected is None:
        return len(px) == 4 and px[3] == 0        # transparent: rgb ignored
    return tuple(px) == expected


def check_modules(matrix, raster, scale, border, dark, light):
    """Check a decoded raster against the module matrix.

    matrix : sequence of rows of 0 / 1 WITHOUT quiet zone
    raster : Raster
    scale  : pixels per module (int >= 1);  border : quiet zone width in modules
    dark / light : (r, g, b, a) or (r, g, b) (= opaque, a == 255) tuples, or None
                   (= transparent: a == 0 required, r, g, b ignored)

    Returns a list of problems (empty = postcondition holds):
      * the raster's own well-formedness problems, prefixed 'malformed: ';
      * wrong dimensions: the raster must be ((cols + 2 * border) * scale) x
        ((rows + 2 * border) * scale) (square for QR symbols);
      * the first few pixels (x, y) whose colour is not the dark colour although
        module (y div scale - border, x div scale - border) is dark, or not the
        light colour although that module is light or lies in the quiet zone;
        all four components are compared.
    """
    problems = []
    for p in getattr(raster, 'problems', ()):
        problems.append('malformed: %s' % p)
    rows, nrows, ncols = _matrix_shape(matrix, problems)
    if not isinstance(scale, int) or scale < 1 or not isinstance(border, int) or border < 0:
        problems.append('scale %r / border %r are not valid' % (scale, border))
        return problems
    dark_c = _norm_colour(dark, 'dark', problems)
    light_c = _norm_colour(light, 'light', problems)
    exp_w = (ncols + 2 * border) * scale
    exp_h = (nrows + 2 * border) * scale
    if raster.width != exp_w or raster.height != exp_h:
        problems.append('raster is %dx%d, expected %dx%d ((%d + 2 * %d) * %d)'
                        % (raster.width, raster.height, exp_w, exp_h, ncols, border, scale))
    pixels = raster.pixels
    if len(pixels) != raster.height or any(len(row) != raster.width for row in pixels):
        problems.append('raster.pixels does not have the declared shape %dx%d'
                        % (raster.width, raster.height))
    if len(pixels) != exp_h or any(len(row) != exp_w for row in pixels):
        return problems
    bad = 0
    for y in range(exp_h):
        i = y // scale - border
        prow = pixels[y]
        mrow = rows[i] if 0 <= i < nrows else None
        for x in range(exp_w):
            j = x // scale - border
            is_dark = bool(mrow[j]) if mrow is not None and 0 <= j < len(mrow) else False
            expected = dark_c if is_dark else light_c
            px = prow[x]
            if not _colour_matches(px, expected):
                bad += 1
                if bad <= _MAX_REPORTED:
                    where = ('module (%d, %d)' % (i, j)
                             if mrow is not None and 0 <= j < ncols else 'quiet zone')
                    problems.append('pixel (%d, %d) [%s, %s] is %r, expected %s'
                                    % (x, y, where, 'dark' if is_dark else 'light', tuple(px),
                                       'transparent (a == 0)' if expected is None else repr(expected)))
    if bad > _MAX_REPORTED:
        problems.append('%d wrong pixels in total' % bad)
    return problems


def check_grid(matrix, grid, border):
    """Check a grid read from a text format against the module matrix.

    The grid must have (rows + 2 * border) rows of (cols + 2 * border) cells,
    a cell is 1 exactly for dark modules and 0 for light modules and the quiet
    zone (any other cell value, e.g. the -1 of the terminal readers, is wrong).
    """
    problems = []
    rows, nrows, ncols = _matrix_shape(matrix, problems)
    if not isinstance(border, int) or border < 0:
        problems.append('border %r is not valid' % (border,))
        return problems
    exp_h = nrows + 2 * border
    exp_w = ncols + 2 * border
    grid = [list(row) for row in grid]
    widths = sorted(set(len(row) for row in grid))
    if len(grid) != exp_h or widths != [exp_w]:
        problems.append('grid has %d rows of width(s) %r, expected %d rows of width %d'
                        % (len(grid), widths, exp_h, exp_w))
        return problems
    bad = 0
    for y in range(exp_h):
        i = y - border
        for x in range(exp_w):
            j = x - border
            is_dark = bool(rows[i][j]) if 0 <= i < nrows and 0 <= j < len(rows[i]) else False
            v = grid[y][x]
            if v != (1 if is_dark else 0):
                bad += 1
                if bad <= _MAX_REPORTED:
                    problems.append('cell (row %d, column %d) is %r, expected %d'
                                    % (y, x, v, 1 if is_dark else 0))
    if bad > _MAX_REPORTED:
        problems.append('%d wrong cells in total' % bad)
    return problems
