"""Independent reader for the colour-indexed (multi colour) SVG documents of segno: every <path> with a stroke paints horizontal
unit-height segments, a <path> with a fill is the background rectangle. Returns per module-grid cell the colour painted on top."""
import re
import xml.etree.ElementTree as ET
from . import readers_vector as RV


def _local(tag):
    return tag.rsplit('}', 1)[-1]


def _scale_of(el, problems):
    t = el.get('transform')
    if not t:
        return 1.0
    m = re.fullmatch(r'\s*scale\(\s*([0-9.eE+-]+)\s*\)\s*', t)
    if not m:
        problems.append('unsupported transform %r' % t)
        return 1.0
    return float(m.group(1))


def _colour(value, opacity, problems):
    if value in (None, 'none'):
        return None
    try:
        c = RV.parse_color(value)
    except Exception as ex:
        problems.append('colour %r: %s' % (value, ex))
        return None
    c = tuple(c)
    if len(c) == 3:
        c = c + (255,)
    elif isinstance(c[3], float):
        c = c[:3] + (int(round(c[3] * 255)),)
    if opacity is not None:
        c = c[:3] + (int(round(float(opacity) * 255)),)
    return c


def read(data):
    """-> dict(width, height (document units), scale, cells {(row, col): [colours painted, in document order]}, background, problems)"""
    problems = []
    if isinstance(data, bytes):
        root = ET.fromstring(data)
    else:
        root = ET.fromstring(data.encode('utf-8'))
    if _local(root.tag) != 'svg':
        problems.append('root element is %r' % root.tag)
    def num(v):
        m = re.match(r'^([0-9.]+)', v or '')
        return float(m.group(1)) if m else None
    width, height = num(root.get('width')), num(root.get('height'))
    if width is None and root.get('viewBox'):
        vb = root.get('viewBox').split()
        width, height = float(vb[2]), float(vb[3])
    cells = {}
    background = None
    scale = None

    def walk(el, sc):
        nonlocal background, scale
        for ch in el:
            tag = _local(ch.tag)
            if tag == 'g':
                walk(ch, sc * _scale_of(ch, problems))
            elif tag == 'path':
                s = sc * _scale_of(ch, problems)
                scale = s if scale is None else scale
                if abs(s - scale) > 1e-9:
                    problems.append('paths with different scale factors')
                d = ch.get('d') or ''
                toks = re.findall(r'([MmhvzHVZ])\s*([^MmhvzHVZ]*)', d)
                if ch.get('fill') not in (None, 'none') and ch.get('stroke') is None:
                    background = dict(colour=_colour(ch.get('fill'), ch.get('fill-opacity'), problems), d=d)
                    continue
                col = _colour(ch.get('stroke'), ch.get('stroke-opacity'), problems)
                if ch.get('stroke') is None:
                    col = (0, 0, 0, 255) if ch.get('fill') is None else col
                x = y = 0.0
                for cmd, args in toks:
                    vals = [float(v) for v in re.findall(r'-?[0-9]*\.?[0-9]+(?:[eE][-+]?[0-9]+)?', args)]
                    if cmd == 'M':
                        x, y = vals[0], vals[1]
                    elif cmd == 'm':
                        x, y = x + vals[0], y + vals[1]
                    elif cmd == 'h':
                        x2 = x + vals[0]
                        if abs(y - int(y) - 0.5) > 1e-9 or abs(x - round(x)) > 1e-9 or abs(x2 - round(x2)) > 1e-9 or x2 <= x:
                            problems.append('segment (%r, %r)-(%r) is not a left-to-right run of whole modules on a row centre' % (x, y, x2))
                        else:
                            for c in range(int(round(x)), int(round(x2))):
                                cells.setdefault((int(y), c), []).append(col)
                        x = x2
                    else:
                        problems.append('unexpected path command %r in a stroked path' % cmd)
            # other elements (title, desc) are ignored
    walk(root, 1.0)
    return dict(width=width, height=height, scale=scale if scale is not None else 1.0, cells=cells, background=background, problems=problems)
