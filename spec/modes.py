"""Mode predicates and bit packing per ISO/IEC 18004 7.4.3 - 7.4.6 and GB/T 18284
(Hanzi), written from the standard and from properties C01 / C07."""
from .logic import land, lor, lnot, implies, ite

ALNUM45 = b'0123456789ABCDEFGHIJKLMNOPQRSTUVWXYZ $%*+-./:'


def is_digit(b):
    return land(b >= 0x30, b <= 0x39)


def in_alnum45(b):
    return lor(*[b == c for c in ALNUM45])


def alnum_value(b):
    """index of the character in the 45-character table"""
    res = -1
    for i, c in enumerate(ALNUM45):
        res = ite(b == c, i, res)
    return res


def sjis_pair_valid(hi, lo):
    """a double-byte Shift JIS character of ISO 7.4.6: 8140-9FFC or E040-EBBF with a
    valid trail byte (40-7E, 80-FC)"""
    code = hi * 256 + lo
    lead = lor(land(hi >= 0x81, hi <= 0x9f), land(hi >= 0xe0, hi <= 0xeb))
    trail = lor(land(lo >= 0x40, lo <= 0x7e), land(lo >= 0x80, lo <= 0xfc))
    rng = lor(land(code >= 0x8140, code <= 0x9ffc), land(code >= 0xe040, code <= 0xebbf))
    return land(lead, trail, rng)


def gb2312_pair_valid(hi, lo):
    """GB/T 18284: GB2312 double byte A1A1-AAFE or B0A1-FAFE, trail byte A1-FE"""
    code = hi * 256 + lo
    trail = land(lo >= 0xa1, lo <= 0xfe)
    rng = lor(land(code >= 0xa1a1, code <= 0xaafe), land(code >= 0xb0a1, code <= 0xfafe))
    return land(trail, rng)


def kanji_value(hi, lo):
    """13-bit value of ISO 7.4.6"""
    code = hi * 256 + lo
    diff = ite(code <= 0x9ffc, code - 0x8140, code - 0xc140)
    return (diff // 256) * 0xc0 + diff % 256


def hanzi_value(hi, lo):
    code = hi * 256 + lo
    diff = ite(code <= 0xaafe, code - 0xa1a1, code - 0xa6a1)
    return (diff // 256) * 0x60 + diff % 256


# ---------------------------------------------------------------- field-level specification of the packers
def field_count(mode, n):
    """number of fields the n bytes of a part are packed into"""
    if mode == 'numeric':
        return (n + 2) // 3
    if mode == 'alphanumeric':
        return (n + 1) // 2
    if mode == 'byte':
        return n
    return n // 2


def payload_bits(mode, n):
    if mode == 'numeric':
        r = n % 3
        return 10 * (n // 3) + ite(r == 0, 0, ite(r == 1, 4, 7))
    if mode == 'alphanumeric':
        return 11 * (n // 2) + 6 * (n % 2)
    if mode == 'byte':
        return 8 * n
    return 13 * (n // 2)


def char_count(mode, n):
    return n // 2 if mode in ('kanji', 'hanzi') else n


def field(mode, at, n, g):
    """(value, width) of field g (0 <= g < field_count) for the byte sequence at(0..n-1)"""
    if mode == 'numeric':
        d0, d1, d2 = at(3 * g) - 48, at(3 * g + 1) - 48, at(3 * g + 2) - 48
        ln = ite(3 * g + 3 <= n, 3, n - 3 * g)
        val = ite(ln == 3, 100 * d0 + 10 * d1 + d2, ite(ln == 2, 10 * d0 + d1, d0))
        return val, 3 * ln + 1
    if mode == 'alphanumeric':
        v0, v1 = alnum_value(at(2 * g)), alnum_value(at(2 * g + 1))
        full = 2 * g + 2 <= n
        return ite(full, 45 * v0 + v1, v0), ite(full, 11, 6)
    if mode == 'byte':
        return at(g), 8
    if mode == 'kanji':
        return kanji_value(at(2 * g), at(2 * g + 1)), 13
    if mode == 'hanzi':
        return hanzi_value(at(2 * g), at(2 * g + 1)), 13
    raise ValueError(mode)
