# -*- coding: utf-8 -*-
"""\
Self-test of spec/readers_vector.py

Run:  cd /verif && PYTHONPATH=/repo:/verif /venv/bin/python spec/selftest_readers_vector.py

(a) hand-written documents of each format (written from the format
    specifications, absolute and relative commands) must give the expected
    cells; deliberately broken documents must give problems.
(b) real segno outputs are read back and checked with check_modules.
    Problems which are caused by the (unchanged) library and which match one of
    the declared deviation rules are listed under LIBRARY DEVIATIONS and do not
    influence the exit status; any other problem is a failure.
"""
import io
import os
import sys
import zlib

sys.path.insert(0, os.path.join(os.path.dirname(os.path.abspath(__file__)), '..'))

from spec import readers_vector as rv  # noqa: E402

FAILURES = []
CHECKS = [0]


def expect(cond, label, detail=''):
    CHECKS[0] += 1
    if not cond:
        FAILURES.append('%s %s' % (label, detail))
        print('FAIL', label, detail)


def has(problems, *needles):
    return any(all(n in p for n in needles) for p in problems)


# ---------------------------------------------------------------------------
# (a) hand-written documents
# ---------------------------------------------------------------------------
M3 = ((1, 0, 1),
      (0, 1, 1),
      (1, 1, 0))
M3_CELLS = {(1, 1): 1, (1, 3): 1, (2, 2): 1, (2, 3): 1, (3, 1): 1, (3, 2): 1}   # border 1


def test_helpers():
    sub, pr = rv.parse_svg_path('M1 1.5h7m-7 1h1')
    expect(not pr and [s['pts'] for s in sub] == [[(1.0, 1.5), (8.0, 1.5)], [(1.0, 2.5), (2.0, 2.5)]],
           'path: h7m-7 1', repr(sub))
    sub, pr = rv.parse_svg_path('m.5.5-1-2 1e1,3zl1 1 2 2H0V0')
    expect(not pr and sub[0]['pts'] == [(0.5, 0.5), (-0.5, -1.5), (9.5, 1.5)] and sub[0]['closed']
           and sub[1]['pts'] == [(0.5, 0.5), (1.5, 1.5), (3.5, 3.5), (0.0, 3.5), (0.0, 0.0)] and not sub[1]['closed'],
           'path: implicit repetition, first m absolute, z, numbers without separators', repr(sub))
    sub, pr = rv.parse_svg_path('M0 0 10 0 10 10')
    expect(not pr and sub[0]['pts'] == [(0.0, 0.0), (10.0, 0.0), (10.0, 10.0)], 'path: implicit lineto after M')
    for bad in ('h1', 'M1', 'M1 1x', 'M1 1 L2', 'M0 0z1', 'M0 0C1 1 2 2 3 3'):
        sub, pr = rv.parse_svg_path(bad)
        expect(pr, 'path: %r must give a problem' % bad)
    expect(rv.parse_color('darkblue') == (0, 0, 139), 'colour name')
    expect(rv.parse_color('#EEE') == (238, 238, 238), 'colour #rgb')
    expect(rv.parse_color('#0000ffcc') == (0, 0, 255, 0.8), 'colour #rrggbbaa')
    expect(rv.parse_color('rgba(1, 2,3 , .5)') == (1, 2, 3, 0.5), 'colour rgba()')
    expect(rv.parse_color('rgb(100%,0%,50%)') == (255, 0, 128), 'colour rgb(%)')
    expect(rv.parse_color((0.0, 0.0, 1.0)) == (0, 0, 255), 'colour float tuple')
    expect(rv.parse_color((1, 2, 3, 128))[:3] == (1, 2, 3), 'colour int tuple')
    expect(len(rv.SVG_COLORS) == 148, 'colour table size')


SVG_A = '''<?xml version="1.0" encoding="utf-8"?>
<svg xmlns="http://www.w3.org/2000/svg" width="10" height="10" class="x" id="y">
<title>T &amp; t</title><desc>D</desc>
<rect width="100%" height="100%" fill="#EEE"/>
<g transform="scale(2)"><path class="l" stroke="darkblue" d="M1 1.5h1m1 0h1M2,2.5 l2 0 m-3 1 H3"/></g></svg>
'''
# scale by viewBox / width ratio, units, style attribute, opacity, background path, inherited stroke
SVG_B = '''<svg xmlns="http://www.w3.org/2000/svg" width="10mm" height="10mm" viewBox="0 0 5 5">
<path fill="rgba(238,238,238,0.5)" d="M0 0h5v5h-5z"/>
<g style="stroke:#00008b; stroke-opacity:.5"><path d="M1 1.5h1M3 1.5h1M2 2.5h2M1 3.5h2"/>
<path d="M0 .5h5"/></g></svg>'''.replace('<path d="M0 .5h5"/>', '')
# "scale(a b)", translate, no size but viewBox, no namespace, single quotes
SVG_C = "<svg viewBox='0 0 10 10'><path transform='translate(2,2) scale(2 2)' stroke='#000' " \
        "d='M0 .5h1m1 0h1m-2 1h2m-3 1h2'/></svg>"


def test_svg():
    v = rv.read_svg(SVG_A.encode('utf-8'))
    expect(v.problems == [], 'svg A problems', repr(v.problems))
    expect((v.page_width, v.page_height, v.scale, v.line_width) == (10.0, 10.0, 2.0, 1.0), 'svg A geometry', repr(v))
    expect(rv.covered_cells(v) == M3_CELLS, 'svg A cells', repr(rv.covered_cells(v)))
    expect(v.stroke == (0, 0, 139) and v.background == (238, 238, 238), 'svg A colours', repr(v))
    expect(v.background_box == (0.0, 0.0, 5.0, 5.0), 'svg A background box', repr(v.background_box))
    expect(v.info.get('title') == 'T & t' and v.info.get('desc') == 'D' and v.info.get('class') == 'x', 'svg A info')
    expect(rv.check_modules(M3, v, 2, 1, dark='darkblue', light='#eeeeee') == [], 'svg A check',
           repr(rv.check_modules(M3, v, 2, 1, dark='darkblue', light='#eeeeee')))
    expect(rv.read_svg(SVG_A).problems == [], 'svg A as str')
    v = rv.read_svg(SVG_B)
    pr = rv.check_modules(M3, v, 2, 1, dark=(0, 0, 139, 0.5), light='#eeeeee80')
    expect(pr == [] and v.scale == 2.0 and v.info.get('unit') == 'mm' and v.stroke == (0, 0, 139, 0.5),
           'svg B (viewBox scale, style, opacity)', repr((v, pr)))
    v = rv.read_svg(SVG_C)
    pr = rv.check_modules(M3, v, 2, 1, dark='black')
    expect(pr == [] and v.info.get('namespace') is None and v.page_width == 10.0, 'svg C (translate, viewBox only)',
           repr((v, pr)))
    # -- broken ones
    v = rv.read_svg(SVG_A.replace('M1 1.5h1m1 0h1', 'M1 1.5h2m0 0h1'))
    pr = rv.check_modules(M3, v, 2, 1)
    expect(has(pr, 'light / quiet zone cell(s) covered', '(1, 2)'), 'svg: segment over a light module', repr(pr))
    pr = rv.check_modules(M3, rv.read_svg(SVG_A.replace('m-3 1 H3', 'm-3 1 H2')), 2, 1)
    expect(has(pr, 'dark module(s) not covered', '(3, 2)'), 'svg: missing dark module', repr(pr))
    pr = rv.check_modules(M3, rv.read_svg(SVG_A.replace('M2,2.5', 'M2,2.5h1M2,2.5')), 2, 1)
    expect(has(pr, 'covered more than once', '(2, 2)'), 'svg: module covered twice', repr(pr))
    pr = rv.check_modules(M3, rv.read_svg(SVG_A.replace('H3', 'H3m1 0h2')), 2, 1)
    expect(has(pr, 'outside of the page'), 'svg: segment outside of the page', repr(pr))
    pr = rv.check_modules(M3, rv.read_svg(SVG_A.replace('1.5', '1.25')), 2, 1)
    expect(has(pr, 'vertical centre'), 'svg: segment off the grid', repr(pr))
    pr = rv.check_modules(M3, rv.read_svg(SVG_A.replace('width="10" height="10"', 'width="12" height="12"')), 2, 1)
    expect(has(pr, 'Page is 12.0 x 12.0'), 'svg: wrong page size', repr(pr))
    pr = rv.check_modules(M3, rv.read_svg(SVG_A.replace('scale(2)', 'scale(3)')), 2, 1)
    expect(has(pr, 'Document scale is 3.0'), 'svg: wrong scale', repr(pr))
    pr = rv.check_modules(M3, rv.read_svg(SVG_A), 2, 1, dark='blue', light='#eeeeee')
    expect(has(pr, 'Stroke colour'), 'svg: wrong dark colour', repr(pr))
    pr = rv.check_modules(M3, rv.read_svg(SVG_A), 2, 1, dark='darkblue', light='white')
    expect(has(pr, 'Background colour'), 'svg: wrong light colour', repr(pr))
    pr = rv.check_modules(M3, rv.read_svg(SVG_A), 2, 1, dark='darkblue', light=None)
    expect(has(pr, 'Unexpected background'), 'svg: unexpected background', repr(pr))
    pr = rv.check_modules(M3, rv.read_svg(SVG_A.replace('width="100%"', 'width="8"')), 2, 1, light='#eee')
    expect(has(pr, 'does not cover the page'), 'svg: background too small', repr(pr))
    pr = rv.check_modules(M3, rv.read_svg(SVG_A.replace('<rect width="100%" height="100%" fill="#EEE"/>', '')), 2, 1,
                          light='#eee')
    expect(has(pr, 'No background fill'), 'svg: background missing', repr(pr))
    pr = rv.check_modules(M3, rv.read_svg(SVG_A.replace('stroke="darkblue"', 'stroke="darkblue" stroke-width="2"')), 2, 1)
    expect(has(pr, 'Line width'), 'svg: wrong stroke width', repr(pr))
    expect(has(rv.read_svg(SVG_A.replace('</g>', '')).problems, 'not well-formed'), 'svg: XML not well-formed')
    expect(has(rv.read_svg(SVG_A.replace('T &amp; t', 'T & t')).problems, 'not well-formed'), 'svg: unescaped &')
    expect(has(rv.read_svg(SVG_A.replace('H3', 'X3')).problems, 'unexpected character'), 'svg: unknown path command')
    expect(has(rv.read_svg(SVG_A.replace('scale(2)', 'rotate(90)')).problems, 'not horizontal'), 'svg: rotated')
    expect(has(rv.read_svg(SVG_A.replace('<rect', '<circle')).problems, 'Unexpected element'), 'svg: unknown element')
    expect(has(rv.read_svg(b'\xff\xfe garbage').problems, 'XML'), 'svg: garbage')
    expect(rv.read_svg(b'').problems, 'svg: empty')


EPS_A = '''%!PS-Adobe-3.0 EPSF-3.0
%%Creator: hand
%%BoundingBox: 0 0 10 10
%%EndComments
/rl { rlineto } bind def
/mt { moveto } def
/seg { 3 1 roll mt 0 rl } bind def   % x y length seg
gsave
0.933333 0.933333 0.933333 setrgbcolor 0 0 10 10 rectfill
grestore
0 0 0.545098 setrgbcolor
2 2 scale
1 setlinewidth
newpath
1 3.5 mt 1 0 rl        % top row: y = 5 - 1.5
3 3.5 moveto 4 3.5 lineto
2 2.5 2 seg
1 1.5 moveto 1 0 rmoveto -1 0 rmoveto 2 0 rl
stroke
showpage
%%EOF
'''
# translate, relative moves only, default line width, default colour, clippath background, CRLF
EPS_B = '''%!PS-Adobe-3.0 EPSF-3.0
%%BoundingBox: 0 0 10 10
/m { rmoveto } bind def /l { rlineto } bind def
1 setgray clippath fill 0 setgray
2 2 scale 1 1 translate
newpath 0 2.5 moveto 1 0 l 1 0 m 1 0 l -2 -1 m 2 0 l -3 -1 m 2 0 l stroke
%%EOF'''.replace('\n', '\r\n')


def test_eps():
    v = rv.read_eps(EPS_A)
    expect(v.problems == [], 'eps A problems', repr(v.problems))
    expect((v.page_width, v.page_height, v.scale, v.line_width) == (10.0, 10.0, 2.0, 1.0), 'eps A geometry', repr(v))
    expect(rv.covered_cells(v) == M3_CELLS, 'eps A cells', repr(rv.covered_cells(v)))
    pr = rv.check_modules(M3, v, 2, 1, dark='darkblue', light='#eeeeee')
    expect(pr == [], 'eps A check', repr(pr))
    v = rv.read_eps(EPS_B.encode('ascii'))
    pr = rv.check_modules(M3, v, 2, 1, dark='black', light='white')
    expect(pr == [] and v.info.get('background_via') == 'clippath', 'eps B check', repr((v, pr)))
    # -- broken ones
    pr = rv.check_modules(M3, rv.read_eps(EPS_A.replace('BoundingBox: 0 0 10 10', 'BoundingBox: 0 0 12 12')), 2, 1)
    expect(has(pr, 'Page is 12.0 x 12.0'), 'eps: wrong BoundingBox', repr(pr))
    # A wrong bounding box shifts the modules (y is measured from the top of the page)
    expect(has(pr, 'not covered'), 'eps: wrong BoundingBox moves the modules', repr(pr))
    expect(has(rv.read_eps(EPS_A.replace('%%BoundingBox: 0 0 10 10\n', '')).problems, 'No %%BoundingBox'),
           'eps: no BoundingBox')
    expect(has(rv.read_eps(EPS_A.replace('%%EOF\n', '')).problems, 'Missing %%EOF'), 'eps: missing %%EOF')
    expect(has(rv.read_eps(EPS_A.replace('grestore\n', '')).problems, 'without matching grestore'),
           'eps: unbalanced gsave')
    expect(has(rv.read_eps(EPS_A.replace('gsave\n', '')).problems, 'grestore without matching gsave'),
           'eps: unbalanced grestore')
    expect(has(rv.read_eps(EPS_A.replace('stroke', 'strike')).problems, 'unknown operator "strike"'),
           'eps: unknown operator')
    expect(has(rv.read_eps(EPS_A.replace('3 3.5 moveto', '3.5 moveto')).problems, 'stackunderflow'),
           'eps: stack underflow')
    expect(has(rv.read_eps(EPS_A.replace('%!PS-Adobe-3.0 EPSF-3.0', '%!PS')).problems, 'header'), 'eps: header')
    expect(has(rv.read_eps(EPS_A.replace('bind def\n/mt', 'bind def\n/zz { 1 2 \n/mt')).problems, 'unbalanced'),
           'eps: unbalanced {')
    expect(has(rv.read_eps(EPS_A.replace('% top row', '% ' + 'x' * 260)).problems, 'longer than 255'),
           'eps: line too long')
    pr = rv.check_modules(M3, rv.read_eps(EPS_A.replace('2 2 scale', '2 2 scale 0 0.5 translate')), 2, 1)
    expect(has(pr, 'vertical centre'), 'eps: rows off the grid', repr(pr))
    pr = rv.check_modules(M3, rv.read_eps(EPS_A.replace('1 setlinewidth', '2 setlinewidth')), 2, 1)
    expect(has(pr, 'Line width'), 'eps: line width', repr(pr))
    pr = rv.check_modules(M3, rv.read_eps(EPS_A.replace('0 0 10 10 rectfill', '0 0 10 9 rectfill')), 2, 1,
                          light='#eeeeee')
    expect(has(pr, 'does not cover'), 'eps: background too small', repr(pr))
    expect(rv.read_eps(b'').problems, 'eps: empty')


def build_pdf(content, mediabox=(0, 0, 10, 10), compress=False, length_delta=0, xref_delta=None,
              endobj=b'endobj', startxref_delta=0, eof=b'%%EOF\n', size_delta=0, eol=b'\n'):
    """Minimal one page PDF written from the PDF reference (LF line ends)."""
    stream = content
    filt = b''
    if compress:
        stream = zlib.compress(content)
        filt = b' /Filter /FlateDecode'
    objs = [
        b'<< /Type /Catalog /Pages 2 0 R >>',
        b'<< /Type /Pages /Kids [ 3 0 R ] /Count 1 >>',
        b'<< /Type /Page /Parent 2 0 R /MediaBox [' + b' '.join(str(v).encode() for v in mediabox)
        + b'] /Contents 4 0 R /Resources << >> >>',
        b'<< /Length ' + str(len(stream) + length_delta).encode() + filt + b' >>' + eol + b'stream' + eol
        + stream + eol + b'endstream',
    ]
    out = bytearray(b'%PDF-1.4' + eol + b'%\xe2\xe3\xcf\xd3' + eol)
    offsets = []
    for i, body in enumerate(objs):
        offsets.append(len(out))
        out += str(i + 1).encode() + b' 0 obj' + eol + body + eol + (endobj if i == 1 else b'endobj') + eol
    xref_pos = len(out)
    out += b'xref' + eol + b'0 ' + str(len(objs) + 1).encode() + eol
    out += b'0000000000 65535 f' + (b' \n' if eol == b'\n' else b'\r\n')
    for i, off in enumerate(offsets):
        if xref_delta and i + 1 in xref_delta:
            off += xref_delta[i + 1]
        out += ('%010d 00000 n' % off).encode() + (b' \n' if eol == b'\n' else b'\r\n')
    out += b'trailer' + eol + b'<< /Size ' + str(len(objs) + 1 + size_delta).encode() + b' /Root 1 0 R >>' + eol
    out += b'startxref' + eol + str(xref_pos + startxref_delta).encode() + eol + eof
    return bytes(out)


PDF_CONTENT = (b'q 0.933333 0.933333 0.933333 rg 0 0 10 10 re f Q\n'
               b'q 2 0 0 2 0 0 cm 0 0 0.545098 RG 1 w\n'
               b'1 3.5 m 2 3.5 l 3 3.5 m 4 3.5 l 2 2.5 m 4 2.5 l\n'
               b'1 0 0 1 1 1 cm 0 0.5 m 2 0.5 l S Q')


def test_pdf():
    for compress in (False, True):
        for eol in (b'\n', b'\r\n'):
            label = 'pdf A (compress=%r, eol=%r)' % (compress, eol)
            v = rv.read_pdf(build_pdf(PDF_CONTENT, compress=compress, eol=eol))
            expect(v.problems == [], label + ' problems', repr(v.problems))
            expect((v.page_width, v.page_height, v.scale, v.line_width) == (10.0, 10.0, 2.0, 1.0),
                   label + ' geometry', repr(v))
            expect(rv.covered_cells(v) == M3_CELLS, label + ' cells', repr(rv.covered_cells(v)))
            pr = rv.check_modules(M3, v, 2, 1, dark='darkblue', light='#eeeeee')
            expect(pr == [], label + ' check', repr(pr))
            expect(v.info.get('length_declared') == v.info.get('length_actual'), label + ' length')
    # non-zero MediaBox origin
    v = rv.read_pdf(build_pdf(PDF_CONTENT.replace(b'2 0 0 2 0 0 cm', b'2 0 0 2 5 5 cm')
                                         .replace(b'0 0 10 10 re', b'5 5 10 10 re'), mediabox=(5, 5, 15, 15)))
    pr = rv.check_modules(M3, v, 2, 1, dark='darkblue', light='#eeeeee')
    expect(pr == [], 'pdf: MediaBox with offset', repr(pr))
    # -- broken ones
    for compress in (False, True):
        for delta in (1, -1, 2, 5):
            pr = rv.read_pdf(build_pdf(PDF_CONTENT, compress=compress, length_delta=delta)).problems
            expect(has(pr, '/Length is'), 'pdf: wrong /Length (%+d, compress=%r)' % (delta, compress), repr(pr))
        pr = rv.read_pdf(build_pdf(PDF_CONTENT, compress=compress, length_delta=2, eol=b'\r\n')).problems
        expect(has(pr, '/Length is'), 'pdf: /Length includes the EOL (compress=%r)' % compress, repr(pr))
    for num in (1, 2, 3, 4):
        for delta in (1, -1, 7):
            pr = rv.read_pdf(build_pdf(PDF_CONTENT, xref_delta={num: delta})).problems
            expect(has(pr, 'Cross-reference offset of object %d' % num), 'pdf: wrong xref offset obj %d %+d' % (num, delta),
                   repr(pr))
    pr = rv.read_pdf(build_pdf(PDF_CONTENT, endobj=b'endofbj')).problems
    expect(has(pr, 'expected "endobj" but found "endofbj"'), 'pdf: misspelt endobj', repr(pr))
    pr = rv.read_pdf(build_pdf(PDF_CONTENT, endobj=b'')).problems
    expect(has(pr, 'expected "endobj"'), 'pdf: missing endobj', repr(pr))
    pr = rv.read_pdf(build_pdf(PDF_CONTENT).replace(b'endstream', b'endstraem')).problems
    expect(pr, 'pdf: misspelt endstream', repr(pr))
    pr = rv.read_pdf(build_pdf(PDF_CONTENT).replace(b'xref\n0 5', b'xreff\n0 5')).problems
    expect(pr, 'pdf: misspelt xref', repr(pr))
    pr = rv.read_pdf(build_pdf(PDF_CONTENT).replace(b'trailer', b'trailler')).problems
    expect(has(pr, 'trailler'), 'pdf: misspelt trailer', repr(pr))
    pr = rv.read_pdf(build_pdf(PDF_CONTENT, startxref_delta=1)).problems
    expect(has(pr, 'startxref'), 'pdf: wrong startxref', repr(pr))
    pr = rv.read_pdf(build_pdf(PDF_CONTENT, eof=b'')).problems
    expect(has(pr, 'Missing %%EOF'), 'pdf: missing %%EOF', repr(pr))
    pr = rv.read_pdf(build_pdf(PDF_CONTENT, size_delta=1)).problems
    expect(has(pr, '/Size'), 'pdf: wrong /Size', repr(pr))
    pr = rv.read_pdf(build_pdf(PDF_CONTENT).replace(b'%PDF-1.4', b'%PFD-1.4')).problems
    expect(has(pr, 'header'), 'pdf: header', repr(pr))
    pr = rv.read_pdf(build_pdf(PDF_CONTENT[:-2])).problems
    expect(has(pr, 'unbalanced q/Q'), 'pdf: unbalanced q', repr(pr))
    pr = rv.read_pdf(build_pdf(PDF_CONTENT + b' Q')).problems
    expect(has(pr, '"Q" without matching "q"'), 'pdf: unbalanced Q', repr(pr))
    pr = rv.read_pdf(build_pdf(PDF_CONTENT.replace(b' S ', b' SS '))).problems
    expect(has(pr, 'unknown operator "SS"'), 'pdf: unknown operator', repr(pr))
    pr = rv.read_pdf(build_pdf(PDF_CONTENT.replace(b'1 3.5 m', b'3.5 m'))).problems
    expect(has(pr, 'operand'), 'pdf: wrong operand count', repr(pr))
    pr = rv.read_pdf(build_pdf(PDF_CONTENT).replace(b'/Type /Catalog', b'/Type /Katalog')).problems
    expect(has(pr, 'Catalog'), 'pdf: catalog type', repr(pr))
    pr = rv.check_modules(M3, rv.read_pdf(build_pdf(PDF_CONTENT, mediabox=(0, 0, 12, 12))), 2, 1)
    expect(has(pr, 'Page is 12.0 x 12.0'), 'pdf: wrong MediaBox', repr(pr))
    pr = rv.check_modules(M3, rv.read_pdf(build_pdf(PDF_CONTENT.replace(b'2 0 0 2 0 0 cm ', b''))), 2, 1)
    expect(has(pr, 'Document scale is 1.0') and has(pr, 'not covered'), 'pdf: scale not applied', repr(pr))
    pr = rv.check_modules(M3, rv.read_pdf(build_pdf(PDF_CONTENT.replace(b'0 0 10 10 re', b'0 0 5 5 re'))), 2, 1,
                          light='#eeeeee')
    expect(has(pr, 'does not cover'), 'pdf: background too small', repr(pr))
    expect(rv.read_pdf(b'').problems, 'pdf: empty')
    expect(rv.read_pdf(b'%PDF-1.4\n1 0 obj << /A [ (x \n').problems, 'pdf: truncated')


TIKZ_A = r'''% hand-written
\begin{pgfpicture}
  \definecolor{mydark}{rgb}{0,0,0.545098}
  \pgfsetstrokecolor{mydark}
  \pgftransformscale{2}
  \pgfsetlinewidth{2pt} % the line width is not affected by the coordinate transformation
  \pgfpathmoveto{\pgfqpoint{1pt}{-1.5pt}}
  \pgfpathlineto{\pgfqpoint{2pt}{-1.5pt}}
  \pgfpathmoveto{\pgfpoint{3pt}{-1.5pt}}
  \pgfpathlineto{\pgfpoint{4pt}{-1.5pt}}
  \begin{pgfscope}
    \pgftransformshift{\pgfqpoint{1pt}{-1pt}}
    \pgfpathmoveto{\pgfqpoint{1pt}{-1.5pt}}
    \pgfpathlineto{\pgfqpoint{3pt}{-1.5pt}}
    \pgfpathmoveto{\pgfqpoint{0pt}{-2.5pt}}
    \pgfpathlineto{\pgfqpoint{2pt}{-2.5pt}}
  \end{pgfscope}
  \pgfusepath{stroke}
\end{pgfpicture}
'''
# writer multiplied the coordinates by the scale (2.5mm per module), rows centred on integral y
TIKZ_B = r'''\href{http://example.org/%7Ex}{\begin{pgfpicture}
  \pgfsetlinewidth{2.5mm}
  \color{darkblue}
  \pgfpathmoveto{\pgfqpoint{2.5mm}{-2.5mm}}
  \pgfpathlineto{\pgfqpoint{5.0mm}{-2.5mm}}
  \pgfpathmoveto{\pgfqpoint{7.5mm}{-2.5mm}}
  \pgfpathlineto{\pgfqpoint{10.0mm}{-2.5mm}}
  \pgfpathmoveto{\pgfqpoint{5.0mm}{-5.0mm}}
  \pgfpathlineto{\pgfqpoint{10.0mm}{-5.0mm}}
  \pgfpathmoveto{\pgfqpoint{2.5mm}{-7.5mm}}
  \pgfpathlineto{\pgfqpoint{7.5mm}{-7.5mm}}
  \pgfusepath{stroke}
\end{pgfpicture}}
'''


def test_tikz():
    v = rv.read_tikz(TIKZ_A)
    expect(v.problems == [], 'tikz A problems', repr(v.problems))
    expect((v.page_width, v.scale, v.line_width, v.stroke) == (None, 2.0, 1.0, (0, 0, 139)), 'tikz A geometry', repr(v))
    expect(rv.covered_cells(v) == M3_CELLS, 'tikz A cells', repr(rv.covered_cells(v)))
    pr = rv.check_modules(M3, v, 2, 1, dark='darkblue', strict_origin=True)
    expect(pr == [], 'tikz A check (strict origin)', repr(pr))
    v = rv.read_tikz(TIKZ_B)
    pr = rv.check_modules(M3, v, 2.5, 1, dark='darkblue')
    expect(pr == [] and v.info.get('unit') == 'mm' and v.info.get('origin_shift_y') == 0.5
           and v.info.get('href') == 'http://example.org/%7Ex', 'tikz B check', repr((v, v.info, pr)))
    pr = rv.check_modules(M3, v, 2.5, 1, dark='darkblue', strict_origin=True)
    expect(has(pr, 'half a module'), 'tikz B strict origin', repr(pr))
    # -- broken ones
    expect(has(rv.read_tikz(TIKZ_A.replace(r'\pgfusepath', r'\pgfusepth')).problems, r'unknown command \pgfusepth'),
           'tikz: unknown command')
    expect(has(rv.read_tikz(TIKZ_A.replace('\\end{pgfpicture}\n', '')).problems, r'without matching \end'),
           'tikz: missing \\end')
    expect(has(rv.read_tikz(TIKZ_B[:-2]).problems, 'Unbalanced "{"'), 'tikz: unbalanced brace')
    expect(has(rv.read_tikz(TIKZ_A.replace('{-1.5pt}}\n  \\pgfpathlineto{\\pgfqpoint{2pt}', '{-1.5pt}\n  \\pgfpathlineto{\\pgfqpoint{2pt}', 1)).problems, 'TeX'),
           'tikz: missing brace in point')
    expect(has(rv.read_tikz(TIKZ_A.replace('{1pt}{-1.5pt}', '{1}{-1.5pt}', 1)).problems, 'without unit'),
           'tikz: dimension without unit')
    expect(has(rv.read_tikz(TIKZ_B.replace('darkblue', 'nosuchcolour')).problems, 'unknown colour'), 'tikz: colour')
    expect(has(rv.read_tikz(TIKZ_A.replace('  \\pgfusepath{stroke}\n', '')).problems, 'never used'), 'tikz: no usepath')
    pr = rv.check_modules(M3, rv.read_tikz(TIKZ_B.replace('{2.5mm}\n', '{2mm}\n')), 2.5, 1)
    expect(has(pr, 'Document scale is 2.0'), 'tikz: line width != module size', repr(pr))
    pr = rv.check_modules(M3, rv.read_tikz(TIKZ_B.replace('{7.5mm}{-7.5mm}', '{10.0mm}{-7.5mm}')), 2.5, 1)
    expect(has(pr, 'light / quiet zone'), 'tikz: light module covered', repr(pr))
    pr = rv.check_modules(M3, rv.read_tikz(TIKZ_B.replace('-5.0mm', '-6.0mm')), 2.5, 1)
    expect(has(pr, 'vertical centre'), 'tikz: row step wrong', repr(pr))
    expect(rv.read_tikz('').problems, 'tikz: empty')


# ---------------------------------------------------------------------------
# (b) real segno outputs
# ---------------------------------------------------------------------------
DEVIATIONS = []       # (rule id, call, problem)
NOTES = {}
B_CASES = {}          # kind -> [number of documents, number of documents with unexplained problems]

COVER = ('Document scale is', 'segment(s) do not lie', 'segment(s) do not start', 'dark module(s) not covered',
         'dark module(s) covered more', 'light / quiet zone cell(s) covered', 'covered cell(s) outside',
         'segment(s) extend beyond', 'Background fill')


def _fractional(x):
    return abs(x - round(x)) > 1e-9


RULES = (
    ('PDF-ENDOBJ', 'PDF: the info object (5 0) is terminated by the malformed keyword "endofbj" (every PDF)',
     lambda kind, kw, p: kind == 'pdf' and 'expected "endobj" but found "endofbj"' in p),
    ('PDF-q/Q', 'PDF with a light colour: "q" (after the background) is never closed by "Q" (ISO 32000-1 8.4.2)',
     lambda kind, kw, p: kind == 'pdf' and kw.get('light') is not None and 'unbalanced q/Q' in p),
    ('PDF-SCALE<1', 'PDF with 0 < scale < 1: the scale is not applied (no "cm"), page size is scaled',
     lambda kind, kw, p: kind == 'pdf' and kw.get('scale', 1) < 1 and any(c in p for c in COVER)),
    ('SVG-BACKGROUND-FRACTIONAL', 'SVG with a light colour and a fractional scale: background path smaller than the page',
     lambda kind, kw, p: kind == 'svg' and kw.get('light') is not None and _fractional(kw.get('scale', 1))
     and p.startswith('Background fill') and 'does not cover the page' in p),
    ('SVG-TRANSPARENT-LIGHT', 'SVG with draw_transparent=True and a light colour: no background at all',
     lambda kind, kw, p: kind == 'svg' and kw.get('draw_transparent') and kw.get('light') is not None
     and p.startswith('No background fill')),
)


def call_repr(factory, kind, kw):
    args = ', '.join('%s=%r' % (k, kw[k]) for k in kw)
    return "%s.save(out, kind=%r%s)" % (factory, kind, ', ' + args if args else '')


def run_b(segno, factory, qr, kind, kw, strict_tex=True):
    out = io.StringIO() if kind in ('eps', 'tex') else io.BytesIO()
    call = call_repr(factory, kind, kw)
    try:
        qr.save(out, kind=kind, **kw)
    except Exception as ex:
        NOTES.setdefault('segno raised %s for kind=%r, %s (skipped)'
                         % (type(ex).__name__, kind, ', '.join('%s=%r' % (k, kw[k]) for k in ('dark', 'light') if k in kw)), []).append(call)
        return
    data = out.getvalue()
    reader = {'svg': rv.read_svg, 'eps': rv.read_eps, 'pdf': rv.read_pdf, 'tex': rv.read_tikz}[kind]
    vec = reader(data)
    border = kw.get('border')
    if border is None:
        border = qr.default_border_size
    dark = kw.get('dark', '#000')
    light = kw.get('light')
    problems = rv.check_modules(qr.matrix, vec, kw.get('scale', 1), border, dark=dark, light=light)
    B_CASES.setdefault(kind, [0, 0])[0] += 1
    unexplained = []
    for p in problems:
        for rid, _desc, pred in RULES:
            if pred(kind, kw, p):
                DEVIATIONS.append((rid, call, p))
                break
        else:
            unexplained.append(p)
    for w in vec.info.get('warnings', ()):
        key = w
        if '; offset' in key:
            key = key[:key.index('; offset')]
        if 'extends beyond the page' in key:
            key = 'Background fill extends beyond the page (harmless: clipped by the page), e.g. ' + key
        if 'extends beyond the page' in key:
            prev = [k for k in NOTES if k.startswith('%s reader note: Background fill extends' % kind)]
            key = prev[0][len('%s reader note: ' % kind):] if prev else key
        NOTES.setdefault('%s reader note: %s' % (kind, key), []).append(call)
    if kind == 'svg':
        if kw.get('title') is not None and vec.info.get('title') != kw['title']:
            unexplained.append('title is %r, expected %r' % (vec.info.get('title'), kw['title']))
        if kw.get('desc') is not None and vec.info.get('desc') != kw['desc']:
            unexplained.append('desc is %r, expected %r' % (vec.info.get('desc'), kw['desc']))
        if kw.get('unit') and vec.info.get('unit') != kw['unit']:
            unexplained.append('unit is %r, expected %r' % (vec.info.get('unit'), kw['unit']))
        if vec.info.get('xmldecl') != kw.get('xmldecl', True):
            unexplained.append('xmldecl is %r' % (vec.info.get('xmldecl'),))
        if (vec.info.get('namespace') is not None) != kw.get('svgns', True):
            unexplained.append('namespace is %r' % (vec.info.get('namespace'),))
        if vec.info.get('trailing_newline') != kw.get('nl', True):
            unexplained.append('trailing newline is %r' % (vec.info.get('trailing_newline'),))
        if kw.get('omitsize') and vec.info.get('page_from') != 'viewBox':
            unexplained.append('omitsize: page is not taken from the viewBox')
    if kind == 'tex' and strict_tex:
        for p in rv.check_modules(qr.matrix, vec, kw.get('scale', 1), border, dark=dark, light=light, strict_origin=True):
            if 'half a module' in p:
                NOTES.setdefault('tex with strict_origin=True: ' + p, []).append(call)
    if unexplained:
        B_CASES[kind][1] += 1
        for p in unexplained:
            expect(False, call, p)
    else:
        CHECKS[0] += 1


def test_segno():
    try:
        import segno
    except ImportError as ex:
        expect(False, 'import segno', str(ex))
        return
    symbols = (
        ("segno.make('Hello')", segno.make('Hello')),
        ("segno.make_micro('12')", segno.make_micro('12')),
        ("segno.make('segno', version=7)", segno.make('segno', version=7)),
    )
    scales = (1, 2, 2.5, 10, 0.5, 3.3)
    borders = (0, 1, 4)
    colours = ({}, {'dark': 'darkblue', 'light': '#eeeeee'}, {'dark': '#0000ffcc', 'light': None})
    for factory, qr in symbols:
        for scale in scales:
            for border in borders:
                for clr in colours:
                    for kind in ('svg', 'eps', 'pdf', 'tex'):
                        kw = {'scale': scale, 'border': border}
                        kw.update(clr)
                        if kind == 'tex':
                            if kw.get('dark', '').startswith('#'):
                                continue  # LaTeX colour names only
                            kw.pop('light', None)  # not supported by the LaTeX writer
                        run_b(segno, factory, qr, kind, kw)
    # Default border, PDF without compression, TeX unit / url
    for factory, qr in symbols:
        for kind in ('svg', 'eps', 'pdf', 'tex'):
            run_b(segno, factory, qr, kind, {})
            run_b(segno, factory, qr, kind, {'scale': 4})
        for scale in (1, 2.5, 10):
            run_b(segno, factory, qr, 'pdf', {'scale': scale, 'border': 1, 'compresslevel': 0})
            run_b(segno, factory, qr, 'pdf', {'scale': scale, 'border': 1, 'compresslevel': 0,
                                              'dark': 'darkblue', 'light': '#eeeeee'})
            run_b(segno, factory, qr, 'tex', {'scale': scale, 'border': 1, 'unit': 'mm'})
            run_b(segno, factory, qr, 'tex', {'scale': scale, 'border': 1, 'url': 'http://example.org/?a=b'})
    # SVG options
    svg_options = (
        {'unit': 'mm'}, {'omitsize': True}, {'svgversion': 1.1}, {'svgversion': 2.0}, {'draw_transparent': True},
        {'xmldecl': False}, {'svgns': False}, {'nl': False}, {'title': 'a<b>&"c'}, {'desc': 'd'},
        {'svgid': 'i', 'svgclass': None, 'lineclass': None}, {'encoding': 'iso-8859-1', 'title': u'\xe4'},
        {'encoding': None},
        {'unit': 'cm', 'svgversion': 1.1, 'draw_transparent': True, 'xmldecl': False, 'svgns': False,
         'nl': False, 'title': 'a<b>&"c', 'desc': 'd'},
        {'omitsize': True, 'svgversion': 1.1, 'draw_transparent': True, 'xmldecl': False, 'svgns': False,
         'nl': False, 'title': 'a<b>&"c', 'desc': 'd'},
    )
    for factory, qr in symbols:
        for opts in svg_options:
            for scale in (1, 2.5, 10, 0.5):
                for border in (0, 4):
                    for clr in colours:
                        kw = {'scale': scale, 'border': border}
                        kw.update(clr)
                        kw.update(opts)
                        run_b(segno, factory, qr, 'svg', kw)


def main():
    test_helpers()
    test_svg()
    test_eps()
    test_pdf()
    test_tikz()
    a_checks, a_failures = CHECKS[0], len(FAILURES)
    print('(a) hand-written documents: %d checks, %d failure(s)' % (a_checks, a_failures))
    test_segno()
    print('(b) segno outputs read back (documents / with unexplained problems): '
          + ', '.join('%s %d/%d' % (k, v[0], v[1]) for k, v in sorted(B_CASES.items())))
    print('(b) %d failure(s)' % (len(FAILURES) - a_failures,))
    print()
    print('NOTES (informational, no influence on the result)')
    for key in sorted(NOTES):
        calls = NOTES[key]
        print('  - %s [%d document(s), e.g. %s]' % (key, len(calls), calls[0]))
    print()
    print('LIBRARY DEVIATIONS (excluded from the pass/fail status): %d problem(s)' % len(DEVIATIONS))
    for rid, desc, _pred in RULES:
        items = [(c, p) for (r, c, p) in DEVIATIONS if r == rid]
        print('== %s: %s -- %d occurrence(s)' % (rid, desc, len(items)))
        for call, p in items:
            print('   %s\n      -> %s' % (call, p))
    print()
    if FAILURES:
        print('RESULT: FAIL (%d failure(s))' % len(FAILURES))
        for f in FAILURES[:50]:
            print('  ', f)
        return 1
    print('RESULT: PASS (%d checks; %d library deviations listed above)' % (CHECKS[0], len(DEVIATIONS)))
    return 0


if __name__ == '__main__':
    sys.exit(main())
