"""Native replays (pure Python, run under /venv/bin/python against the working
tree): a solver counterexample is turned into arguments of the real function,
the real function is called, and the contract clause is evaluated natively with
the executable spec functions."""
import segno
from segno import encoder, consts
from . import iso


def _lc(name):
    return None if name is None else consts.ERROR_MAPPING[name]


def _ln(c):
    if c is None:
        return None
    return [k for k, v in consts.ERROR_MAPPING.items() if v == c][0]


def _mc(name):
    return consts.MODE_MAPPING[name]


def _segments_from_model(m):
    """real Segments object in the abstract state of the model"""
    segs = encoder.Segments()
    classes = (('count_numeric', 'numeric', None), ('count_alphanumeric', 'alphanumeric', None),
               ('count_byte', 'byte', 'iso-8859-1'), ('count_byte_noniso', 'byte', 'utf-8'), ('count_byte_alias', 'byte', 'latin1'),
               ('count_kanji', 'kanji', None), ('count_hanzi', 'hanzi', None))
    n = sum(max(0, int(m.get(k, 0))) for k, _, _ in classes)
    payload = int(m.get('payload_bits', 0))
    first = True
    for key, mode, enc in classes:
        for i in range(max(0, int(m.get(key, 0)))):
            bits = bytearray(payload if first else 0)
            first = False
            segs.segments.append(encoder._Segment(bits, 0, _mc(mode), enc))
            segs.modes.append(_mc(mode))
    segs.bit_length = payload
    return segs


def parts_of_segments(segs):
    count = {m: 0 for m in iso.MODES}
    n_eci = 0
    payload = 0
    names = {v: k for k, v in consts.MODE_MAPPING.items()}
    for s in segs.segments:
        count[names[s.mode]] += 1
        payload += len(s.bits)
        if s.mode == consts.MODE_BYTE and s.encoding != 'iso-8859-1':
            n_eci += 1
    return iso.Parts(count, n_eci, payload)


def replay_find_version(model, obligation, level, eci, micro, is_sa):
    segs = _segments_from_model(model)
    parts = parts_of_segments(segs)
    want = iso.first_fit(parts, level, eci, micro, is_sa)
    call = 'encoder.find_version(<Segments modes=%r bit_length=%d>, %r, eci=%r, micro=%r, is_sa=%r)' % (
        segs.modes, segs.bit_length, level, eci, micro, is_sa)
    try:
        got = encoder.find_version(segs, _lc(level), eci=eci, micro=micro, is_sa=is_sa)
        outcome = 'returned %r' % (iso.version_name(got),)
        ok = (got == want)
    except encoder.DataOverflowError as ex:
        outcome = 'raised DataOverflowError'
        ok = (want == iso.NONE_FITS)
    except Exception as ex:
        outcome = 'raised %r' % (ex,)
        ok = False
    wname = 'nothing fits' if want == iso.NONE_FITS else iso.version_name(want)
    return dict(confirmed=not ok, call=call,
                detail='real function %s; ISO first fit: %s (need per candidate: %s)' % (
                    outcome, wname, _need_table(parts, level, eci, is_sa, want)))


def _need_table(parts, level, eci, is_sa, want):
    out = []
    for v in iso.ALL_VERSIONS:
        if want != iso.NONE_FITS and abs(v - want) > 1:
            continue
        lv = iso.effective_level(v, level)
        if lv not in iso.levels_of(v):
            continue
        out.append('%s: need %s cap %s' % (iso.version_name(v), iso.need_bits(v, parts, eci, is_sa)
                                           if iso.modes_available(v, parts) else 'n/a', iso.data_capacity_bits(v, lv)))
    return '; '.join(out)


def replay_need(model, obligation, version, eci, is_sa):
    segs = _segments_from_model(model)
    parts = parts_of_segments(segs)
    avail = iso.modes_available(version, parts)
    call = 'Segments(modes=%r, bit_length=%d).bit_length_with_overhead(%r, %r, is_sa=%r)' % (
        segs.modes, segs.bit_length, version, eci, is_sa)
    try:
        got = segs.bit_length_with_overhead(version, eci, is_sa=is_sa)
        want = iso.need_bits(version, parts, eci, is_sa) if avail else None
        ok = avail and got == want
        return dict(confirmed=not ok, call=call, detail='returned %r, ISO need %r' % (got, want))
    except KeyError as ex:
        return dict(confirmed=bool(avail), call=call, detail='raised KeyError %r; modes available in version: %r' % (ex, avail))
    except Exception as ex:
        return dict(confirmed=True, call=call, detail='raised %r' % (ex,))


# ---------------------------------------------------------------- API-level lifting
_UNIT = {'numeric': ('7', 'numeric', None), 'alphanumeric': ('A', 'alphanumeric', None),
         'byte': ('a', 'byte', None), 'byte_noniso': ('ä', 'byte', 'utf-8'), 'byte_alias': ('ä', 'byte', 'latin1'),
         'kanji': ('点', 'kanji', None), 'hanzi': ('汉', 'hanzi', None)}
_KEYS = (('count_numeric', 'numeric'), ('count_alphanumeric', 'alphanumeric'), ('count_byte', 'byte'),
         ('count_byte_noniso', 'byte_noniso'), ('count_byte_alias', 'byte_alias'), ('count_kanji', 'kanji'), ('count_hanzi', 'hanzi'))


def _arrange(model):
    """order the classes so that no two adjacent parts have the same class
    (same-class neighbours would be merged by Segments.add_segment)"""
    pool = {cls: max(0, int(model.get(k, 0))) for k, cls in _KEYS}
    out = []
    prev = None
    total = sum(pool.values())
    for _ in range(total):
        cands = sorted((c for c in pool if pool[c] > 0 and c != prev), key=lambda c: -pool[c])
        if not cands:
            return None
        c = cands[0]
        pool[c] -= 1
        out.append(c)
        prev = c
    return out


def _content(order, grow, n_extra):
    parts = []
    for i, cls in enumerate(order):
        ch, mode, enc = _UNIT[cls]
        txt = ch * (1 + (n_extra if i == grow else 0))
        parts.append((txt, consts.MODE_MAPPING[mode], enc))
    return parts


def _call_encode(content, level, version, micro, eci):
    try:
        code = encoder.encode(content, error=level, version=version, micro=micro, eci=eci, boost_error=False)
        return 'return', code
    except Exception as ex:
        return 'raise', ex


def replay_encode_version(model, obligation, level, micro, eci, version):
    """search, around the solver's model, for real content on which encode()
    violates the clause; the spec side uses the real segments of that content"""
    # orders of part classes: the model's own multiset if it is reachable (same-class neighbours are merged by add_segment),
    # then generic alternations of two / three classes with a growing number of parts
    orders = []
    o = _arrange(model)
    if o is not None:
        orders.append((o, 400))
    classes = [cls for _, cls in _KEYS]
    # single-part contents whose length sits on a capacity boundary (of the requested version, else of every version)
    reqv = None if version is None else (consts.MICRO_VERSION_MAPPING[version] if isinstance(version, str) else version)
    boundary = []
    for cls in classes:
        for V in ([reqv] if reqv is not None else list(iso.ALL_VERSIONS)):
            def fit_n(n, cls=cls, V=V):
                try:
                    segs_ = encoder.prepare_data(_content([cls], 0, n - 1), None, None)
                    return iso.fits(V, parts_of_segments(segs_), level, eci, micro)
                except Exception:
                    return False
            if not fit_n(1):
                continue
            lo_, hi_ = 1, 8192
            while lo_ < hi_:
                mid = (lo_ + hi_ + 1) // 2
                if fit_n(mid):
                    lo_ = mid
                else:
                    hi_ = mid - 1
            boundary.append((cls, lo_))
    for cls, nmax in boundary:
        for n in (nmax - 1, nmax, nmax + 1, nmax + 2):
            if n >= 1:
                orders.append((('single', cls, n), 1))
    for k in (1, 2, 3, 4, 5, 7, 9, 12, 20, 30, 42):
        for a in classes:
            for b in classes:
                if a != b:
                    orders.append((([a, b] * k)[:2 * k - (k % 2)], 40 if k < 6 else 6))
    req = None if version is None else (consts.MICRO_VERSION_MAPPING[version] if isinstance(version, str) else version)
    tried = 0
    import time as _time
    t_end = _time.time() + 90
    for order, max_extra in orders:
      if tried > 60000 or _time.time() > t_end:
          break
      single = isinstance(order, tuple) and order and order[0] == 'single'
      for grow in range(1 if single else min(len(order), 2 if max_extra < 400 else 3)):
        for n_extra in range(0, max_extra):
            content = _content([order[1]], 0, order[2] - 1) if single else _content(order, grow, n_extra)
            try:
                segs = encoder.prepare_data(content, None, None)
            except Exception as ex:
                return dict(confirmed=None, detail='could not build content: %r' % (ex,))
            parts = parts_of_segments(segs)
            kind, val = _call_encode(content, level, version, micro, eci)
            tried += 1
            bad = None
            if req is None:
                want = iso.first_fit(parts, level, eci, micro)
                if kind == 'return' and val.version != want:
                    bad = 'returned version %s, ISO first fit %s' % (iso.version_name(val.version),
                                                                      'none' if want == iso.NONE_FITS else iso.version_name(want))
                elif kind == 'raise' and isinstance(val, encoder.DataOverflowError) and want != iso.NONE_FITS:
                    bad = 'DataOverflowError although %s fits' % (iso.version_name(want),)
                elif kind == 'raise' and not isinstance(val, encoder.DataOverflowError):
                    bad = 'raised %r' % (val,)
            else:
                fit = iso.fits(req, parts, level, eci, micro)
                lv = iso.effective_level(req, level)
                info = 'need %s bits, capacity %s' % (iso.need_bits(req, parts, eci) if iso.modes_available(req, parts) else 'n/a',
                                                      iso.data_capacity_bits(req, lv) if lv in iso.levels_of(req) else 'n/a')
                if kind == 'return' and not fit:
                    bad = 'version %s returned although the content does not fit (%s)' % (version, info)
                elif kind == 'return' and val.version != req:
                    bad = 'version %s returned, %s requested' % (val.version, version)
                elif kind == 'raise' and isinstance(val, encoder.DataOverflowError) and fit:
                    bad = 'DataOverflowError although the content fits version %s (%s)' % (version, info)
                elif kind == 'raise' and not isinstance(val, ValueError):
                    bad = 'raised %r' % (val,)
            if bad:
                short = [(t if len(t) < 12 else '%s*%d' % (t[0], len(t)), encoder.get_mode_name(m), e) for t, m, e in content]
                return dict(confirmed=True,
                            call='segno.encoder.encode(%r, error=%r, version=%r, micro=%r, eci=%r, boost_error=False)'
                                 % (short, level, version, micro, eci),
                            detail=bad)
    return dict(confirmed=False, detail='no failing content found among %d candidates around the model' % tried)


def replay_boost(model, obligation, version, level, eci, is_sa):
    segs = _segments_from_model(model)
    parts = parts_of_segments(segs)
    call = 'encoder.boost_error_level(%r, %r, <Segments modes=%r bit_length=%d>, %r, is_sa=%r)' % (
        version, level, segs.modes, segs.bit_length, eci, is_sa)
    try:
        got = encoder.boost_error_level(version, _lc(level), segs, eci, is_sa=is_sa)
    except Exception as ex:
        return dict(confirmed=True, call=call, detail='raised %r' % (ex,))
    want = level
    if level not in (None, 'H') and len(segs.segments) == 1:
        need = iso.need_bits(version, parts, eci, is_sa)
        for l in iso.levels_of(version):
            if l is not None and iso.LEVEL_ORDER[l] > iso.LEVEL_ORDER[level] and need <= iso.data_capacity_bits(version, l):
                if iso.LEVEL_ORDER[l] > iso.LEVEL_ORDER[want]:
                    want = l
    return dict(confirmed=_ln(got) != want, call=call,
                detail='returned %r; highest fitting level per ISO capacities: %r' % (_ln(got), want))


def replay_api_forward(model, obligation, **kw):
    """call the real public factory natively with a recording stand-in for the
    encoder entry point and sentinel arguments"""
    import inspect
    parts = obligation.split('.')
    fname, clause = parts[2], parts[3]
    seen = {}
    real_encode, real_seq = encoder.encode, encoder.encode_sequence
    seg = encoder._Segment(bytearray([1]), 1, consts.MODE_BYTE, 'iso-8859-1')

    def rec(name, fn):
        sig = inspect.signature(fn)

        def stand_in(*a, **k):
            seen[name] = dict(sig.bind(*a, **k).arguments)
            code = encoder.Code((bytearray([0]),), 1, 1, 0, [seg])
            return code if name == 'encode' else [code, code]
        return stand_in
    encoder.encode = rec('encode', real_encode)
    encoder.encode_sequence = rec('encode_sequence', real_seq)
    try:
        f = getattr(segno, fname)
        own = list(inspect.signature(f).parameters)
        toks = {p: object() for p in own}
        f(**toks)
    finally:
        encoder.encode, encoder.encode_sequence = real_encode, real_seq
    got = seen.get('encode') or seen.get('encode_sequence') or {}
    if clause.startswith('forwards_'):
        p = clause[len('forwards_'):]
        bad = got.get(p, '<default of encode>') is not toks.get(p)
        return dict(confirmed=bad, call='segno.%s(**sentinels) with encoder entry point recorded' % fname,
                    detail='parameter %r reaches the encoder as %r' % (p, got.get(p, '<not passed: default of encode() applies>')))
    if clause.startswith('fixes_'):
        p = clause[len('fixes_'):]
        want = {'make_qr': {'micro': False}, 'make_micro': {'micro': True, 'eci': False}}[fname][p]
        val = got.get(p, inspect.signature(real_encode).parameters[p].default)
        return dict(confirmed=val is not want, call='segno.%s(**sentinels)' % fname,
                    detail='parameter %r reaches the encoder as %r, must be %r' % (p, val, want))
    return dict(confirmed=None, detail='clause not replayable natively')


def replay_padding(model, obligation, version, level, _sweep=True):
    """run the three real writers on a real Buffer of the model's length; if that length does not fail natively (the model of an
    invariant obligation need not be a reachable state) the neighbouring lengths, the short ones and those close to the capacity are tried"""
    l = int((model or {}).get('stream_length', 0))
    if _sweep:
        cap0 = iso.data_capacity_bits(version, level)
        cands = [l] + [x for x in list(range(max(0, l - 40), min(cap0, l + 40) + 1)) + list(range(0, min(cap0, 300) + 1)) + list(range(max(0, cap0 - 80), cap0 + 1))]
        seen = set()
        first = None
        for x in cands:
            if x in seen or not 0 <= x <= cap0:
                continue
            seen.add(x)
            # lengths of the known finding (terminated stream codeword aligned, every version but M1 / M3) are only replayed when
            # they are the model's own length: the sweep looks for a failing input of THIS obligation, not for the known deviation
            if x != l and version not in (iso.M1, iso.M3) and iso.terminated_length(version, level, x) % 8 == 0:
                continue
            r = replay_padding(dict(stream_length=x), obligation, version, level, _sweep=False)
            if first is None:
                first = r
            if r.get('confirmed'):
                return r
        return first
    cap = consts.SYMBOL_CAPACITY[version][_lc(level)]
    ver = None if version >= 1 else version
    buff = encoder.Buffer([1] * l)
    encoder.write_terminator(buff, cap, ver, len(buff))
    l1 = len(buff)
    encoder.write_padding_bits(buff, version, len(buff))
    encoder.write_pad_codewords(buff, version, cap, len(buff))
    bits = list(buff.getbits())
    isocap = iso.data_capacity_bits(version, level)
    want = [1] * l + [iso.stream_bit_after_data(version, level, l, j) for j in range(l, isocap)]
    got = bits[:isocap]
    call = 'Buffer([1]*%d); write_terminator; write_padding_bits; write_pad_codewords  (version %s-%s, capacity %d)' % (
        l, iso.version_name(version), level, cap)
    if got != want or len(bits) < isocap:
        k = next((i for i, (a, b) in enumerate(zip(got, want)) if a != b), min(len(got), len(want)))
        def cw(bs):
            return ' '.join(''.join(map(str, bs[i:i + 8])) for i in range(l1 - l1 % 8, min(len(bs), l1 - l1 % 8 + 32), 8))
        return dict(confirmed=True, call=call,
                    detail='data bits differ from ISO 7.4.9/7.4.10 at bit %d (terminated length %d, total written %d); '
                           'real codewords from there: %s | ISO: %s' % (k, l1, len(bits), cw(bits), cw(want)))
    if 'exact_length' in (obligation or '') and len(bits) != isocap:
        return dict(confirmed=True, call=call, detail='buffer holds %d bits, capacity is %d' % (len(bits), isocap))
    return dict(confirmed=False, call=call, detail='first %d bits equal the ISO stream' % isocap)


def replay_padding_table(model, obligation, version):
    """table lemma of C13: the user visible effect is looked for on every level of the version"""
    for lv in iso.levels_of(version):
        r = replay_padding(dict(stream_length=0), obligation, version, lv)
        if r.get('confirmed'):
            return r
    return dict(confirmed=None, detail='table cell differs from ISO (see witness) but no stream of version %s was found to be padded wrongly' % iso.version_name(version))


# ---------------------------------------------------------------- C02 replays (native execution of the real stage)
from . import layout as _layout


def replay_layout(model, obligation, version):
    size = encoder.calc_matrix_size(version)
    if size != iso.symbol_size(version):
        return dict(confirmed=True, call='calc_matrix_size(%r)' % version, detail='returned %r, ISO %r' % (size, iso.symbol_size(version)))
    m = encoder.make_matrix(size, size)
    encoder.add_finder_patterns(m, size, size)
    encoder.add_alignment_patterns(m, size, size)
    fm = _layout.function_map(version)
    bad = []
    for (i, j), (kind, val) in fm.items():
        want = 2 if kind == _layout.DATA else (0 if (val is None or kind == _layout.DARK) else val)
        if m[i][j] != want:
            bad.append((i, j, kind, m[i][j], want))
    call = 'make_matrix(%d,%d); add_finder_patterns; add_alignment_patterns (version %s)' % (size, size, iso.version_name(version))
    if bad:
        # user-visible: a real symbol of that version
        return dict(confirmed=True, call=call, detail='%d modules differ from the ISO function pattern map, first (row, col, kind, got, want): %r'
                                                      % (len(bad), bad[:4]))
    return dict(confirmed=False, call=call, detail='function patterns equal the ISO map')


def replay_format_info(model, obligation, version, level, mask):
    size = iso.symbol_size(version)
    m = tuple(bytearray([7] * size) for _ in range(size))
    encoder.add_format_info(m, version, _lc(level), mask)
    word = _layout.format_word(version, level, mask)
    want = {}
    for copy in _layout.format_positions(version):
        for b, p in enumerate(copy):
            want[p] = (word >> b) & 1
    if version >= 1:
        want[(size - 8, 8)] = 1
    bad = []
    for i in range(size):
        for j in range(size):
            w = want.get((i, j), 7)
            if m[i][j] != w:
                bad.append((i, j, m[i][j], w))
    call = 'add_format_info(<%dx%d matrix of 7s>, %r, %r, %r)' % (size, size, version, level, mask)
    return dict(confirmed=bool(bad), call=call, detail='cells (row, col, got, want; 7 = untouched): %r' % (bad[:6],))


def replay_version_info(model, obligation, version):
    size = iso.symbol_size(version)
    m = tuple(bytearray([7] * size) for _ in range(size))
    encoder.add_version_info(m, version)
    want = {}
    if version >= 7:
        word = _layout.golay18_6(version)
        for blk in _layout.version_positions(version):
            for b, p in enumerate(blk):
                want[p] = (word >> b) & 1
    bad = [(i, j, m[i][j], want.get((i, j), 7)) for i in range(size) for j in range(size) if m[i][j] != want.get((i, j), 7)]
    return dict(confirmed=bool(bad), call='add_version_info(<matrix of 7s>, %r)' % version, detail='cells (row, col, got, want): %r' % (bad[:6],))


# ---------------------------------------------------------------- C03 replays
from . import gf as _gf


def replay_make_blocks(model, obligation, version, level):
    """real make_blocks on concrete data: unit vector of the reported data byte (or a ramp)"""
    ec_infos = consts.ECC[version][_lc(level)]
    structure = iso.block_structure(version, level)
    shapes = [(t, d) for nb, t, d in structure for _ in range(nb)]
    n_data = sum(d for t, d in shapes)
    m = model or {}
    datasets = []
    if m.get('unit_data_byte') is not None and m.get('block') is not None:
        off = sum(d for t, d in shapes[:m['block']])
        u = [0] * n_data
        if 0 <= off + m['unit_data_byte'] < n_data:
            u[off + m['unit_data_byte']] = 1
            datasets.append(u)
    datasets.append([(7 * i + 1) % 256 for i in range(n_data)])
    call = 'make_blocks(consts.ECC[%r][%r], Buffer(<%d data codewords>))' % (version, level, n_data)
    for data in datasets:
        bits = []
        for b in data:
            bits.extend((b >> i) & 1 for i in reversed(range(8)))
        if version in (iso.M1, iso.M3):
            bits = bits[:-4]
            data = data[:-1] + [data[-1] & 0xf0]
        try:
            db, eb = encoder.make_blocks(ec_infos, encoder.Buffer(bits))
        except Exception as ex:
            return dict(confirmed=True, call=call, detail='raised %r' % (ex,))
        if len(db) != len(shapes):
            return dict(confirmed=True, call=call, detail='%d blocks, ISO Table 9: %d' % (len(db), len(shapes)))
        off = 0
        for k, (t, d) in enumerate(shapes):
            if list(db[k]) != data[off:off + d]:
                return dict(confirmed=True, call=call, detail='data block %d is not the slice [%d:%d] of the data codewords' % (k, off, off + d))
            cw = list(db[k]) + list(eb[k])
            if len(eb[k]) != t - d:
                return dict(confirmed=True, call=call, detail='block %d has %d ec codewords, ISO %d' % (k, len(eb[k]), t - d))
            syn = _gf.syndromes(cw, t - d)
            if any(syn):
                return dict(confirmed=True, call=call,
                            detail='block %d (%d,%d) is not a Reed-Solomon codeword: syndromes %r for data %r...' % (k, t, d, syn[:6], data[off:off + 6]))
            off += d
    return dict(confirmed=False, call=call, detail='all blocks are valid codewords for the tried data')


def _replay_final_message_one(version, level, pattern):
    structure = iso.block_structure(version, level)
    shapes = [(t, d) for nb, t, d in structure for _ in range(nb)]
    n_data = sum(d for t, d in shapes)
    data = [pattern(i) for i in range(n_data)]
    bits = []
    for b in data:
        bits.extend((b >> i) & 1 for i in reversed(range(8)))
    half = version in (iso.M1, iso.M3)
    if half:
        bits = bits[:-4]
        data[-1] &= 0xf0
    call = 'make_final_message(%r, %r, Buffer(<%d bits>))' % (version, level, len(bits))
    try:
        out = list(encoder.make_final_message(version, _lc(level), encoder.Buffer(bits)).getbits())
    except Exception as ex:
        return dict(confirmed=True, call=call, detail='raised %r' % (ex,))
    blocks = []
    off = 0
    for t, d in shapes:
        blk = data[off:off + d]
        blocks.append((blk, _gf.rs_remainder(blk, t - d)))
        off += d
    want = []
    for i in range(max(d for t, d in shapes)):
        for (blk, ec), (t, d) in zip(blocks, shapes):
            if i < d and not (half and i == d - 1):
                want.extend((blk[i] >> k) & 1 for k in reversed(range(8)))
    if half:
        want.extend((blocks[0][0][-1] >> k) & 1 for k in (7, 6, 5, 4))
    for i in range(max(t - d for t, d in shapes)):
        for (blk, ec), (t, d) in zip(blocks, shapes):
            if i < t - d:
                want.extend((ec[i] >> k) & 1 for k in reversed(range(8)))
    want.extend([0] * iso.remainder_bits(version))
    if out != want:
        k = next((i for i, (a, b) in enumerate(zip(out, want)) if a != b), min(len(out), len(want)))
        return dict(confirmed=True, call=call, detail='final message has %d bits (ISO %d); first difference at bit %d' % (len(out), len(want), k))
    return dict(confirmed=False, call=call, detail='final message equals the ISO interleaving')


def replay_final_message(model, obligation, version, level):
    """the real make_final_message on several data patterns (a fixed ramp, all zero - every error correction codeword is then zero -,
    all 0xFF, seeded random bytes): the codeword sequence must be the ISO interleaving for each"""
    import random
    rnd = random.Random(1)
    pats = [lambda i: (11 * i + 3) % 256, lambda i: 0, lambda i: 255] + [(lambda i, r=random.Random(k): r.randrange(256)) for k in range(12)]
    last = None
    for pt in pats:
        last = _replay_final_message_one(version, level, pt)
        if last.get('confirmed'):
            return last
    return last


def replay_placement(model, obligation, version):
    size = iso.symbol_size(version)
    m = encoder.make_matrix(size, size)
    encoder.add_finder_patterns(m, size, size)
    encoder.add_alignment_patterns(m, size, size)
    before = [bytes(r) for r in m]
    order = _layout.placement_order(version)
    bits = [(i * 7 + i // 3) % 2 for i in range(len(order))]
    call = 'add_codewords(<function pattern matrix v%s>, Buffer(<%d bits>), %r)' % (iso.version_name(version), len(bits), version)
    try:
        encoder.add_codewords(m, encoder.Buffer(bits), version)
    except Exception as ex:
        return dict(confirmed=True, call=call, detail='raised %r' % (ex,))
    pos = {p: k for k, p in enumerate(order)}
    bad = []
    for i in range(size):
        for j in range(size):
            k = pos.get((i, j))
            want = bits[k] if k is not None else before[i][j]
            if m[i][j] != want:
                bad.append((i, j, m[i][j], want))
    return dict(confirmed=bool(bad), call=call, detail='%d modules differ (row, col, got, want): %r' % (len(bad), bad[:5]))


def replay_table(model, obligation, table):
    """ground table lemma: re-evaluate natively on the real table"""
    bad = []
    L = {'L': consts.ERROR_LEVEL_L, 'M': consts.ERROR_LEVEL_M, 'Q': consts.ERROR_LEVEL_Q, 'H': consts.ERROR_LEVEL_H, None: None}
    if table == 'GEN_POLY':
        need = sorted({t - d for v in iso.ALL_VERSIONS for lv in iso.levels_of(v) for nb, t, d in iso.block_structure(v, lv)})
        for ec in need:
            want = [_gf.LOG[k] for k in _gf.generator_poly(ec)[1:]]
            if list(consts.GEN_POLY.get(ec, ())) != want:
                bad.append(('GEN_POLY[%d]' % ec, list(consts.GEN_POLY.get(ec, ())), want))
    elif table == 'GALIOS':
        for i in range(255):
            if consts.GALIOS_EXP[i] != _gf.EXP[i]:
                bad.append(('GALIOS_EXP[%d]' % i, consts.GALIOS_EXP[i], _gf.EXP[i]))
        for x in range(1, 256):
            if consts.GALIOS_LOG[x] != _gf.LOG[x]:
                bad.append(('GALIOS_LOG[%d]' % x, consts.GALIOS_LOG[x], _gf.LOG[x]))
    elif table == 'ECC':
        for v in iso.ALL_VERSIONS:
            for lv in iso.levels_of(v):
                got = [tuple(e) for e in consts.ECC[v][L[lv]]]
                if got != iso.block_structure(v, lv):
                    bad.append(('ECC[%s][%s]' % (iso.version_name(v), lv), got, iso.block_structure(v, lv)))
    elif table == 'SYMBOL_CAPACITY':
        for v in iso.ALL_VERSIONS:
            for lv in iso.levels_of(v):
                got = consts.SYMBOL_CAPACITY.get(v, {}).get(L[lv])
                if got != iso.data_capacity_bits(v, lv):
                    bad.append(('SYMBOL_CAPACITY[%s][%s]' % (iso.version_name(v), lv), got, iso.data_capacity_bits(v, lv)))
    elif table == 'FORMAT':
        for lv in iso.LEVELS:
            for m in range(8):
                idx = (iso.LEVEL_BITS[lv] << 3) | m
                if consts.FORMAT_INFO[idx] != _layout.format_word(1, lv, m):
                    bad.append(('FORMAT_INFO[%d]' % idx, consts.FORMAT_INFO[idx], _layout.format_word(1, lv, m)))
        k = 0
        for v in iso.MICRO:
            for lv in iso.levels_of(v):
                for m in range(4):
                    if consts.FORMAT_INFO_MICRO[(k << 2) | m] != _layout.format_word(v, lv, m):
                        bad.append(('FORMAT_INFO_MICRO[%d]' % ((k << 2) | m), consts.FORMAT_INFO_MICRO[(k << 2) | m], _layout.format_word(v, lv, m)))
                k += 1
        for v in range(7, 41):
            if consts.VERSION_INFO[v - 7] != _layout.golay18_6(v):
                bad.append(('VERSION_INFO[%d]' % (v - 7), consts.VERSION_INFO[v - 7], _layout.golay18_6(v)))
        for v in range(2, 41):
            if tuple(consts.ALIGNMENT_POS[v - 2]) != tuple(_layout.alignment_positions(v)):
                bad.append(('ALIGNMENT_POS[%d]' % (v - 2), consts.ALIGNMENT_POS[v - 2], _layout.alignment_positions(v)))
    else:
        return dict(confirmed=None, detail='no native table replay for %r' % table)
    return dict(confirmed=bool(bad), call='segno.consts.%s compared natively with the ISO transcription' % table,
                detail='(cell, got, ISO): %r' % (bad[:3],))


# ---------------------------------------------------------------- C06 replays
from . import penalty as _pen


def replay_scores(model, obligation, **kw):
    m = model or {}
    mat = m.get('matrix')
    if not isinstance(mat, list):
        return dict(confirmed=None, detail='matrix not stored in the witness (size > 25); re-run with the same VERIF_SEED to regenerate')
    rows = [list(bytes.fromhex(r)) for r in mat]
    size = len(rows)
    got = encoder.mask_scores(tuple(bytearray(r) for r in rows), size, size)
    want = (_pen.n1(rows), _pen.n2(rows), _pen.n3(rows), _pen.n4(rows))
    return dict(confirmed=tuple(got) != want, call='encoder.mask_scores(<%dx%d matrix>)' % (size, size),
                detail='real (N1,N2,N3,N4) = %r, ISO 7.8.3.1 = %r' % (tuple(got), want))


def replay_mask_condition(model, obligation, is_micro, r, s):
    fns = encoder.get_data_mask_functions(is_micro)
    refs = _layout.MICRO_MASK_TO_QR if is_micro else tuple(range(8))
    a0, b0 = int((model or {}).get('a', 0)), int((model or {}).get('b', 0))
    bad = []
    for a in (a0, 0, 1, 2, 5):
        for b in (b0, 0, 1, 3, 7):
            i, j = 6 * a + r, 6 * b + s
            for k, (fn, ref) in enumerate(zip(fns, refs)):
                if bool(fn(i, j)) != bool(_layout.mask_condition(ref, i, j)):
                    bad.append((k, i, j, bool(fn(i, j))))
    if len(fns) != len(refs):
        bad.append(('number of patterns', len(fns)))
    return dict(confirmed=bool(bad), call='get_data_mask_functions(%r)[k](i, j)' % is_micro, detail='(pattern, i, j, real value): %r' % (bad[:5],))


def _function_matrix(version):
    size = iso.symbol_size(version)
    m = encoder.make_matrix(size, size)
    encoder.add_finder_patterns(m, size, size)
    encoder.add_alignment_patterns(m, size, size)
    return m


def replay_apply_mask(model, obligation, version, mask):
    size = iso.symbol_size(version)
    fm = _layout.function_map(version)
    bad = []
    for fill in (0, 1):
        m = _function_matrix(version)
        for (i, j), (kind, val) in fm.items():
            if kind == _layout.DATA:
                m[i][j] = fill
        before = [bytes(r) for r in m]
        try:
            ret, out = encoder.find_and_apply_best_mask(m, size, size, mask)
        except Exception as ex:
            return dict(confirmed=True, detail='raised %r' % (ex,))
        if ret != mask:
            bad.append(('returned pattern', ret))
        for (i, j), (kind, val) in fm.items():
            want = before[i][j] ^ (1 if (kind == _layout.DATA and _layout.mask_condition_for(version, mask, i, j)) else 0)
            if out[i][j] != want:
                bad.append((i, j, out[i][j], want))
    return dict(confirmed=bool(bad), call='find_and_apply_best_mask(<v%s symbol, data all 0 / all 1>, %d, %d, %d)' % (
        iso.version_name(version), size, size, mask), detail='(row, col, got, want): %r' % (bad[:5],))


def _candidates(version, data_fill):
    size = iso.symbol_size(version)
    fm = _layout.function_map(version)
    base = _function_matrix(version)
    k = 0
    for i in range(size):
        for j in range(size):
            if fm[(i, j)][0] == _layout.DATA:
                base[i][j] = data_fill[k % len(data_fill)]
                k += 1
    out = []
    for mask in range(_layout.n_masks(version)):
        m = [list(r) for r in base]
        for (i, j), (kind, val) in fm.items():
            if kind == _layout.DATA and _layout.mask_condition_for(version, mask, i, j):
                m[i][j] ^= 1
        out.append(m)
    return base, out


def replay_selection(model, obligation, micro):
    import random
    rnd = random.Random(1)
    for version in ((iso.M2, iso.M4) if micro else (1, 2, 3)):
        size = iso.symbol_size(version)
        for t in range(40):
            fill = [rnd.randrange(2) for _ in range(257)]
            base, cands = _candidates(version, fill)
            if micro:
                scores = [_pen.micro_score(c) for c in cands]
                want = scores.index(max(scores))
            else:
                scores = [encoder.evaluate_mask(tuple(bytearray(r) for r in c), size, size) for c in cands]
                want = scores.index(min(scores))
            got, out = encoder.find_and_apply_best_mask(tuple(bytearray(r) for r in base), size, size)
            if got != want or [list(r) for r in out] != cands[want]:
                return dict(confirmed=True, call='find_and_apply_best_mask(<random v%s symbol>)' % iso.version_name(version),
                            detail='returned pattern %r, scores of the candidates %r' % (got, scores))
    # forced ties: the evaluation function is replaced by a table that depends only on WHICH candidate is scored, so that several patterns share the best score
    # (random symbols rarely tie); the selection rule alone is under test (lowest-numbered among the best)
    name = 'evaluate_micro_mask' if micro else 'evaluate_mask'
    real_eval = getattr(encoder, name)
    tables = ([[4, 9, 9, 1], [7, 7, 7, 7], [1, 2, 8, 8]] if micro else
              [[5, 3, 3, 7, 3, 9, 9, 9], [4, 4, 4, 4, 4, 4, 4, 4], [9, 8, 7, 6, 5, 4, 3, 3], [2, 9, 9, 9, 9, 9, 9, 2]])
    try:
        for version in ((iso.M2, iso.M4) if micro else (1, 2)):
            size = iso.symbol_size(version)
            fill = [rnd.randrange(2) for _ in range(257)]
            base, cands = _candidates(version, fill)
            for tab in tables:
                def stub(matrix, *a, **k):
                    m = [list(r) for r in matrix]
                    return tab[cands.index(m)] if m in cands else 10 ** 6
                setattr(encoder, name, stub)
                want = tab.index(max(tab)) if micro else tab.index(min(tab))
                got, out = encoder.find_and_apply_best_mask(tuple(bytearray(r) for r in base), size, size)
                if got != want or [list(r) for r in out] != cands[want]:
                    return dict(confirmed=True, call='find_and_apply_best_mask(<v%s symbol>) with candidate scores %r' % (iso.version_name(version), tab),
                                detail='returned pattern %r; the lowest-numbered pattern with the best score is %r' % (got, want))
    finally:
        setattr(encoder, name, real_eval)
    return dict(confirmed=False, detail='selection agrees with first-best on 200 random symbols and on forced ties')


def replay_micro_score(model, obligation, version):
    import random
    rnd = random.Random(2)
    size = iso.symbol_size(version)
    for t in range(200):
        m = [[rnd.randrange(2) for _ in range(size)] for _ in range(size)]
        got = encoder.evaluate_micro_mask(tuple(bytearray(r) for r in m), size, size)
        if got != _pen.micro_score(m):
            return dict(confirmed=True, call='evaluate_micro_mask(<random %dx%d>)' % (size, size), detail='real %r, ISO %r' % (got, _pen.micro_score(m)))
    return dict(confirmed=False, detail='agrees on 200 random matrices')


def replay_n4(model, obligation, **kw):
    size, dark = int(model['size']), int(model['dark'])
    m = [bytearray(size) for _ in range(size)]
    k = 0
    # spread the dark modules so that N4 is read from a real call
    for i in range(size):
        for j in range(size):
            if k < dark:
                m[i][j] = 1
                k += 1
    got = encoder.mask_scores(tuple(m), size, size)[3]
    want = _pen.n4_from_count(dark, size)
    return dict(confirmed=got != want, call='mask_scores(<%dx%d with %d dark modules>)[3]' % (size, size, dark), detail='real N4 %r, ISO %r' % (got, want))


def replay_glue(model, obligation, version):
    """call the real encode() natively with every stage wrapped by a recorder and
    compare the order / key arguments of the stages"""
    names = ['boost_error_level', 'write_segment', 'write_terminator', 'write_padding_bits', 'write_pad_codewords',
             'make_final_message', 'make_matrix', 'add_finder_patterns', 'add_alignment_patterns', 'add_codewords',
             'find_and_apply_best_mask', 'add_format_info', 'add_version_info']
    log = []
    saved = {n: getattr(encoder, n) for n in names}

    depth = [0]

    def wrap(n, f):
        def g(*a, **k):
            if depth[0] > 0:
                return f(*a, **k)       # a stage called by another stage (the mask stage builds its own function matrix): not a call of _encode
            rec = dict(name=n)
            if n in ('write_terminator', 'write_padding_bits', 'write_pad_codewords'):
                rec['len_buff'] = len(a[0])
                rec['length_arg'] = a[-1]
            if n == 'write_terminator':
                rec['capacity'] = a[1]
            if n == 'write_pad_codewords':
                rec['capacity'] = a[2]
            if n in ('add_format_info', 'make_final_message'):
                rec['error'] = a[2] if n == 'add_format_info' else a[1]
            depth[0] += 1
            try:
                r = f(*a, **k)
            finally:
                depth[0] -= 1
            if n == 'boost_error_level':
                rec['result'] = r
            if n == 'find_and_apply_best_mask':
                rec['mask'] = r[0]
            if n == 'add_format_info':
                rec['mask_arg'] = a[3]
            log.append(rec)
            return r
        return g
    for n in names:
        setattr(encoder, n, wrap(n, saved[n]))
    try:
        vname = iso.version_name(version)
        content = '1234' if version < 1 else 'AB12'
        level = None if version == iso.M1 else 'L'
        code = encoder.encode(content, error=level, version=vname, boost_error=True)
    except Exception as ex:
        return dict(confirmed=None, detail='encode raised %r' % (ex,))
    finally:
        for n in names:
            setattr(encoder, n, saved[n])
    problems = []
    # the ORDER in which the stages are called is a proof step, not behaviour: what the user sees is checked instead - symbols of this version
    # (several contents, levels, masks, with and without boosting) are read back by the reference decoder
    from . import qrdecode
    lvls = [None] if version == iso.M1 else [l for l in iso.levels_of(version) if l is not None]
    for c_ in (('1234', 'AB12') if version < 1 else ('AB12', 'hello', '0123456789')):
        for lv_ in lvls:
            for mk_ in (None, 1):
                for boost_ in (True, False):
                    try:
                        code_ = encoder.encode(c_, error=lv_, version=iso.version_name(version), mask=mk_, boost_error=boost_)
                    except ValueError:
                        continue
                    except Exception as ex:
                        problems.append('encode(%r, error=%r, version=%r, mask=%r, boost_error=%r) raised %r' % (c_, lv_, iso.version_name(version), mk_, boost_, ex))
                        continue
                    d_ = qrdecode.decode(code_.matrix)
                    if d_.problems or d_.payload != c_.encode('ascii') or (not boost_ and lv_ is not None and d_.level != lv_) or (mk_ is not None and d_.mask != mk_):
                        problems.append('encode(%r, error=%r, version=%r, mask=%r, boost_error=%r): decoded %r level %r mask %r problems %r' % (
                            c_, lv_, iso.version_name(version), mk_, boost_, d_.payload, d_.level, d_.mask, d_.problems[:2]))
                    if len(problems) >= 2:
                        break
    d = {r['name']: r for r in log}
    for n in ('write_terminator', 'write_padding_bits', 'write_pad_codewords'):
        if n in d and d[n]['len_buff'] != d[n]['length_arg']:
            problems.append('%s called with length %r, buffer holds %r bits' % (n, d[n]['length_arg'], d[n]['len_buff']))
    used = d.get('boost_error_level', {}).get('result')
    for n in ('write_terminator', 'write_pad_codewords'):
        if n in d and used is not None and d[n].get('capacity') != consts.SYMBOL_CAPACITY[version][used]:
            problems.append('%s called with capacity %r, the capacity of the level used (%s) is %r' % (n, d[n].get('capacity'), _ln(used), consts.SYMBOL_CAPACITY[version][used]))
    for n in ('make_final_message', 'add_format_info'):
        if n in d and 'boost_error_level' in d and d[n]['error'] != used:
            problems.append('%s uses level %r, boosted level is %r' % (n, d[n]['error'], used))
    if 'add_format_info' in d and 'find_and_apply_best_mask' in d and d['add_format_info']['mask_arg'] != d['find_and_apply_best_mask']['mask']:
        problems.append('format information written for mask %r, mask applied %r' % (d['add_format_info']['mask_arg'], d['find_and_apply_best_mask']['mask']))
    if not problems and (obligation or '').startswith('C06.') and version != iso.M1:
        r = replay_selection_end_to_end(None, obligation, version)
        if r.get('confirmed'):
            return r
    return dict(confirmed=bool(problems), call='encoder.encode(%r, error=%r, version=%r) with recorded stages' % (content, level, vname),
                detail='; '.join(problems) or 'stage order and arguments as required')


# ---------------------------------------------------------------- C11 replay
def replay_classify(model, obligation, version, scale, border):
    from segno import utils
    size = iso.symbol_size(version)
    fm = _layout.function_map(version)
    bad = []
    names = {_layout.FINDER_K: 'FINDER_PATTERN', _layout.TIMING: 'TIMING', _layout.ALIGNMENT: 'ALIGNMENT_PATTERN',
             _layout.FORMAT: 'FORMAT', _layout.VERSION: 'VERSION', _layout.DATA: 'DATA'}
    for fill in (0, 1):
        m = tuple(bytearray(size) for _ in range(size))
        for (i, j), (kind, val) in fm.items():
            m[i][j] = val if val is not None else fill
        b = border if border is not None else (2 if version < 1 else 4)
        out = [list(r) for r in utils.matrix_iter_verbose(m, (size, size), scale=scale, border=border)]
        for y, row in enumerate(out):
            for x, got in enumerate(row):
                i, j = y // scale - b, x // scale - b
                if not (0 <= i < size and 0 <= j < size):
                    want = consts.TYPE_QUIET_ZONE
                else:
                    kind, val = fm[(i, j)]
                    if kind == _layout.SEPARATOR:
                        want = consts.TYPE_SEPARATOR
                    elif kind == _layout.DARK:
                        want = consts.TYPE_DARKMODULE
                    else:
                        want = getattr(consts, 'TYPE_%s_%s' % (names[kind], 'DARK' if m[i][j] else 'LIGHT'))
                if got != want and (i, j, got, want) not in bad:
                    bad.append((i, j, got, want))
    return dict(confirmed=bool(bad), call='utils.matrix_iter_verbose(<valid v%s symbol>, scale=%r, border=%r)' % (iso.version_name(version), scale, border),
                detail='(row, col, reported type, ISO type): %r' % (bad[:4],))


# ---------------------------------------------------------------- C07 replays
from . import modes as _modes


def _bytes_of(model):
    d = (model or {}).get('data')
    if not isinstance(d, list):
        return None
    full = bytes(max(0, min(255, int(x))) for x in d)
    # the pair / element the failing loop iteration looked at comes first
    front = b''
    cells = (model or {}).get('data_cells') or {}
    pos = sorted(int(k) for k in cells)
    for p in pos:
        if p % 2 == 0 and (p + 1) in pos:
            front += bytes([cells[str(p)] % 256, cells[str(p + 1)] % 256])
    for key, val in (model or {}).items():
        if key.startswith('loop_counter_') and isinstance(val, int) and val >= 0:
            front += full[2 * val:2 * val + 2] + full[3 * val:3 * val + 3]
    return (front + full)[:64] if front else full[:64]


def _candidates_from(data):
    """the model's byte string and short prefixes / pairs of it (the model's length is arbitrary)"""
    out = []
    if data is not None:
        out += [data[:2], data[:1], data[:3], data[:4], data]
        for i in range(0, min(len(data), 40) - 1, 2):
            out.append(data[i:i + 2])
    seen = []
    for c in out:
        if c not in seen:
            seen.append(c)
    return seen


def _spec_kanji(data):
    return len(data) > 0 and len(data) % 2 == 0 and all(_modes.sjis_pair_valid(data[i], data[i + 1]) for i in range(0, len(data), 2))


def _spec_hanzi(data):
    return len(data) % 2 == 0 and all(_modes.gb2312_pair_valid(data[i], data[i + 1]) for i in range(0, len(data), 2))


def _spec_mode(data):
    if len(data) and all(_modes.is_digit(b) for b in data):
        return 'numeric'
    if len(data) and all(_modes.in_alnum45(b) for b in data):
        return 'alphanumeric'
    if _spec_kanji(data):
        return 'kanji'
    return 'byte'


def replay_is_kanji(model, obligation):
    extra = [b'\x83\x3f', b'\x83\x7f', b'\x9f\xfd', b'\xe0\x3f', b'\x81\x40', b'\x9f\xfc', b'\xeb\xbf', b'\x88\x9f\x00']
    # the counterexample of an invariant obligation lives at an arbitrary loop iteration: besides the model's own bytes every
    # two-byte string is tried (a failing pair is a failing input on its own)
    allpairs = [bytes((a, b)) for a in range(256) for b in range(256)]
    for data in _candidates_from(_bytes_of(model)) + extra + allpairs:
        try:
            got = bool(encoder.is_kanji(data))
        except Exception as ex:
            return dict(confirmed=True, call='encoder.is_kanji(%r)' % data, detail='raised %r' % (ex,))
        if got != _spec_kanji(data):
            try:
                vis = 'segno.make(%r).mode == %r' % (data, segno.make(data).mode)
            except Exception as ex:
                vis = 'segno.make(%r) raises %r' % (data, ex)
            return dict(confirmed=True, call='encoder.is_kanji(%r)' % data,
                        detail='returned %r; valid double-byte Shift JIS kanji per ISO 7.4.6: %r (user visible: %s)' % (got, _spec_kanji(data), vis))
    return dict(confirmed=False, detail='is_kanji agrees with the specification on the tried byte strings')


def replay_is_alphanumeric(model, obligation):
    for data in _candidates_from(_bytes_of(model)) + [b'', b'A,B', b'a', b'AB\n', b'A B$%*+-./:']:
        got = bool(encoder.is_alphanumeric(data))
        want = len(data) > 0 and all(_modes.in_alnum45(b) for b in data)
        if got != want:
            return dict(confirmed=True, call='encoder.is_alphanumeric(%r)' % data, detail='returned %r, specification %r' % (got, want))
    return dict(confirmed=False, detail='agrees on the tried byte strings')


def replay_alnum_set(model, obligation):
    bad = [c for c in range(256) if bool(encoder.is_alphanumeric(bytes([c]))) != (c in _modes.ALNUM45)]
    tab = bytes(consts.ALPHANUMERIC_CHARS) != _modes.ALNUM45
    return dict(confirmed=bool(bad) or tab, call='is_alphanumeric(bytes([c])) for all c', detail='bytes classified differently from the ISO 45 set: %r; table differs: %r' % (bad[:8], tab))


def replay_find_mode(model, obligation):
    for data in _candidates_from(_bytes_of(model)) + [b'1', b'A', b'a', b'', b'\x93\x5f', b'\x83\x3f']:
        got = encoder.get_mode_name(encoder.find_mode(data))
        if got != _spec_mode(data):
            return dict(confirmed=True, call='encoder.find_mode(%r)' % data, detail='returned %r, first applicable mode per C07: %r' % (got, _spec_mode(data)))
    return dict(confirmed=False, detail='agrees on the tried byte strings')


def replay_make_segment(model, obligation, mode):
    rep = {'numeric': lambda d: len(d) > 0 and all(_modes.is_digit(b) for b in d),
           'alphanumeric': lambda d: len(d) > 0 and all(_modes.in_alnum45(b) for b in d),
           'byte': lambda d: True, 'kanji': lambda d: len(d) % 2 == 0 and all(
               _modes.sjis_pair_valid(d[i], d[i + 1]) for i in range(0, len(d), 2)),
           'hanzi': _spec_hanzi}
    extra = [b'\x83', b'\x83\x3f', b'\xb0', b'\xb0\x05', b'\xa2\x05', b'12', b'AB', b'']
    for data in _candidates_from(_bytes_of(model)) + extra:
        mc = None if mode is None else consts.MODE_MAPPING[mode]
        call = 'encoder.make_segment(%r, mode=%r)  (== segno.make(%r, mode=%r))' % (data, mode, data, mode)
        try:
            seg = encoder.make_segment(data, mc)
            if mode is None:
                if encoder.get_mode_name(seg.mode) != _spec_mode(data):
                    return dict(confirmed=True, call=call, detail='mode %r chosen, first applicable: %r' % (encoder.get_mode_name(seg.mode), _spec_mode(data)))
            elif not rep[mode](data):
                return dict(confirmed=True, call=call, detail='accepted although the content is not representable in mode %r' % mode)
        except ValueError as ex:
            if mode is None or rep[mode](data):
                return dict(confirmed=True, call=call, detail='refused (%s) although representable' % (ex,))
        except Exception as ex:
            return dict(confirmed=True, call=call, detail='raised %r instead of ValueError' % (ex,))
    return dict(confirmed=False, detail='agrees on the tried byte strings')


# ---------------------------------------------------------------- C01 replays
ECI_NUMBERS_ISO = {
    'cp437': 2, 'iso8859-1': 3, 'iso8859-2': 4, 'iso8859-3': 5, 'iso8859-4': 6, 'iso8859-5': 7, 'iso8859-6': 8,
    'iso8859-7': 9, 'iso8859-8': 10, 'iso8859-9': 11, 'iso8859-10': 12, 'iso8859-11': 13, 'iso8859-13': 15,
    'iso8859-14': 16, 'iso8859-15': 17, 'iso8859-16': 18, 'shift_jis': 20, 'cp1250': 21, 'cp1251': 22, 'cp1252': 23,
    'cp1256': 24, 'utf-16-be': 25, 'utf-8': 26, 'ascii': 27, 'big5': 28, 'gb18030': 29, 'gbk': 29, 'euc_kr': 30,
}


def replay_eci_table(model, obligation):
    """encode one character with each codec and eci=True and read the ECI designator from the symbol"""
    from . import qrdecode
    bad = []
    for codec, want in sorted(ECI_NUMBERS_ISO.items()):
        try:
            text = 'Aé' if codec not in ('ascii',) else 'AB'
            try:
                text.encode(codec)
            except UnicodeError:
                text = 'AB'
            q = segno.make(text, encoding=codec, eci=True, micro=False, mode='byte')
        except Exception as ex:
            bad.append((codec, 'raised %r' % (ex,)))
            continue
        d = qrdecode.decode(q.matrix)
        ecis = [s.eci for s in d.segments if s.mode == 'eci']
        if ecis != [want]:
            bad.append((codec, 'ECI designator in the symbol %r, ISO/AIM assignment %r' % (ecis, want)))
    return dict(confirmed=bool(bad), call="segno.make(text, encoding=<codec>, eci=True)", detail=repr(bad[:4]))


def _decode_payload(q):
    from . import qrdecode
    d = qrdecode.decode(q.matrix)
    return d


def replay_add_segment(model, obligation, m1, m2, same_enc):
    """two adjacent parts given as a list: the symbol must decode to their concatenation"""
    unit = {'numeric': '7', 'alphanumeric': 'K', 'byte': 'a', 'kanji': '点', 'hanzi': '汉'}
    m = model or {}
    la, lb = int(m.get('len_a', 1)), int(m.get('len_b', 1))
    div = {'kanji': 2, 'hanzi': 2}
    tried = []
    for a, b in ((la % 7 or 1, lb % 7 or 1), (2, 1), (1, 1), (4, 2), (3, 1), (1, 2)):
        if m1 in div:
            a = max(1, a // 2)
        if m2 in div:
            b = max(1, b // 2)
        parts = [(unit[m1] * a, consts.MODE_MAPPING[m1]), (unit[m2] * b, consts.MODE_MAPPING[m2])]
        if m1 == 'numeric':
            parts[0] = (''.join(str((i * 7 + 1) % 10) for i in range(a)), parts[0][1])
        if m2 == 'numeric':
            parts[1] = (''.join(str((i * 3 + 2) % 10) for i in range(b)), parts[1][1])
        call = 'segno.make_qr(%r)' % ([(t, encoder.get_mode_name(mm)) for t, mm in parts],)
        try:
            q = segno.make_qr(parts)
        except Exception as ex:
            return dict(confirmed=True, call=call, detail='raised %r' % (ex,))
        d = _decode_payload(q)
        enc1 = 'gb2312' if m1 == 'hanzi' else ('shift_jis' if m1 == 'kanji' else 'iso-8859-1')
        enc2 = 'gb2312' if m2 == 'hanzi' else ('shift_jis' if m2 == 'kanji' else 'iso-8859-1')
        want = parts[0][0].encode(enc1) + parts[1][0].encode(enc2)
        tried.append(call)
        if d.payload != want or d.problems:
            return dict(confirmed=True, call=call, detail='reference decoder reads %r, content is %r; problems: %r' % (d.payload, want, d.problems[:2]))
        # the same two parts after an earlier part of another mode, in a symbol that is only just big enough: the size calculation
        # (Segments.modes / bit_length) has to describe the segments that are written
        m0 = 'hanzi' if m1 != 'hanzi' else 'kanji'
        for reps in (1, 4, 9, 14, 20):
            parts3 = [(unit[m0] * reps, consts.MODE_MAPPING[m0])] + parts
            call3 = 'segno.make_qr(%r, error="L", boost_error=False)' % ([(t, encoder.get_mode_name(mm)) for t, mm in parts3],)
            try:
                q3 = segno.make_qr(parts3, error='L', boost_error=False)
            except ValueError:
                continue
            except Exception as ex:
                return dict(confirmed=True, call=call3, detail='raised %r' % (ex,))
            d3 = _decode_payload(q3)
            want3 = parts3[0][0].encode('gb2312' if m0 == 'hanzi' else 'shift_jis') + want
            if d3.payload != want3 or d3.problems:
                return dict(confirmed=True, call=call3, detail='reference decoder reads %r, content is %r; problems: %r' % (d3.payload[:40], want3[:40], d3.problems[:2]))
            if list(q3._segments.modes if hasattr(q3, '_segments') else []) and False:
                pass
    return dict(confirmed=False, detail='decoded correctly: %r' % (tried[:3],))


def replay_packer(model, obligation, mode):
    """real symbols of the model's content (and a few lengths around it) must decode back"""
    data = _bytes_of(model) or b''
    unit = {'numeric': b'0123456789', 'alphanumeric': b'AZ09 $%*+-./:', 'byte': bytes(range(250, 256)) + b'\x00a',
            'kanji': '点茗テ漢'.encode('shift_jis'), 'hanzi': '汉字编码'.encode('gb2312')}[mode]
    step = 2 if mode in ('kanji', 'hanzi') else 1
    cands = [data[:40]] + [(unit * 8)[:k * step] for k in (1, 2, 3, 4, 5, 6, 7, 8, 9)]
    for c in cands:
        try:
            q = segno.make_qr(c, mode=mode)
        except ValueError:
            continue
        except Exception as ex:
            return dict(confirmed=True, call='segno.make_qr(%r, mode=%r)' % (c, mode), detail='raised %r' % (ex,))
        d = _decode_payload(q)
        if d.payload != c or d.problems:
            return dict(confirmed=True, call='segno.make_qr(%r, mode=%r)' % (c, mode),
                        detail='reference decoder reads %r; problems %r' % (d.payload, d.problems[:2]))
    return dict(confirmed=False, detail='symbols decode back to the content')


def replay_write_segment(model, obligation, version, mode, eci, encoding):
    unit = {'numeric': '12345', 'alphanumeric': 'AB C1', 'byte': 'aé', 'kanji': '点茗', 'hanzi': '汉字'}[mode]
    vname = iso.version_name(version)
    kw = dict(mode=mode, version=vname, eci=eci, boost_error=False)
    if mode == 'byte' and encoding:
        kw['encoding'] = encoding
    call = 'segno.make(%r, **%r)' % (unit, kw)
    try:
        q = segno.make(unit, **kw)
    except Exception as ex:
        return dict(confirmed=None, call=call, detail='raised %r' % (ex,))
    d = _decode_payload(q)
    from . import qrdecode
    want = qrdecode.expected_payload(unit, mode=mode, encoding=kw.get('encoding'))
    ecis = [s.eci for s in d.segments if s.mode == 'eci']
    import codecs
    want_eci = [ECI_NUMBERS_ISO[codecs.lookup(encoding).name]] if (eci and mode == 'byte' and encoding and codecs.lookup(encoding).name != 'iso8859-1') else []
    bad = d.payload != want or d.problems or ecis != want_eci
    return dict(confirmed=bool(bad), call=call, detail='decoded payload %r (want %r), ECI headers %r (want %r), problems %r' % (
        d.payload, want, ecis, want_eci, d.problems[:2]))


def replay_data_to_bytes(model, obligation, given, kind):
    samples = ['abc', 'äöü', '点', '€', 'Ж', '\U0001F600']
    bad = []
    for s in samples:
        try:
            got = encoder.data_to_bytes(s, given)
        except LookupError:
            got = 'LookupError'
        except UnicodeError:
            got = 'UnicodeError'
        if given is None:
            for c in ('iso-8859-1', 'shift_jis', 'utf-8'):
                try:
                    want = (s.encode(c), len(s.encode(c)), c)
                    break
                except UnicodeError:
                    continue
        else:
            try:
                want = (s.encode(given), len(s.encode(given)), given)
            except LookupError:
                want = 'LookupError'
            except UnicodeError:
                want = 'UnicodeError'
        if got != want:
            bad.append((s, got, want))
    return dict(confirmed=bool(bad), call='encoder.data_to_bytes(text, %r)' % (given,), detail=repr(bad[:3]))


def replay_append_bits(model, obligation, width):
    v = int((model or {}).get('val', 5))
    b = encoder.Buffer([1, 0, 1])
    b.append_bits(v, width)
    got = list(b.getbits())
    want = [1, 0, 1] + [(v >> i) & 1 for i in reversed(range(width))]
    return dict(confirmed=got != want, call='Buffer([1,0,1]).append_bits(%d, %d)' % (v, width), detail='bits %r, binary representation %r' % (got, want))


def replay_bounded_decode(model, obligation, content, kw):
    import ast
    from . import qrdecode
    c = ast.literal_eval(content)
    k = ast.literal_eval(kw)
    call = 'segno.make(%s, **%s)' % (content[:100], kw)
    try:
        q = segno.make(c, **k)
    except ValueError as ex:
        return dict(confirmed=False, call=call, detail='refused: %s' % ex)
    except Exception as ex:
        return dict(confirmed=True, call=call, detail='raised %r' % (ex,))
    d = qrdecode.decode(q.matrix)
    want = qrdecode.expected_payload(c, mode=k.get('mode'), encoding=k.get('encoding'))
    ecis = [s for s in d.segments if s.mode == 'eci']
    bad = d.payload != want or d.problems or ((q.is_micro or not k.get('eci')) and ecis)
    return dict(confirmed=bool(bad), call=call, detail='decoded %r, content bytes %r, problems %r, ECI headers %d' % (d.payload[:60], want[:60], d.problems[:2], len(ecis)))


# ---------------------------------------------------------------- C14 replays
def replay_encode_args(model, obligation, error, version, mode, mask, micro, eci):
    """try real contents of every kind with these options: only ValueError may escape"""
    contents = ['1', '12345678', 'A', 'HELLO WORLD', 'a', 'äöü', '点', b'\x00\xff', 0, 123456, 'x' * 30, '9' * 40]
    m = model or {}
    for c in contents:
        call = 'segno.make(%r, error=%r, version=%r, mode=%r, mask=%r, micro=%r, eci=%r)' % (c, error, version, mode, mask, micro, eci)
        try:
            q = segno.make(c, error=error, version=version, mode=mode, mask=mask, micro=micro, eci=eci)
        except ValueError:
            continue
        except Exception as ex:
            return dict(confirmed=True, call=call, detail='raised %r' % (ex,))
        if 'refused' in (obligation or ''):
            return dict(confirmed=True, call=call, detail='accepted (%s) although the arguments are invalid or an excluded combination' % q.designator)
        if 'mask_in_range' in (obligation or '') and not (0 <= q.mask < (4 if q.is_micro else 8)):
            return dict(confirmed=True, call=call, detail='mask %r used in a %s symbol' % (q.mask, q.designator))
    return dict(confirmed=False, detail='only ValueError observed for the tried contents')


def replay_spelling(model, obligation, a, b):
    import ast
    ka, kb = ast.literal_eval(a), ast.literal_eval(b)
    for c in ('12345', 'HELLO', 'hello world'):
        def run(kw):
            try:
                q = segno.make(c, **kw)
                return (q.designator, q.mask, [bytes(r) for r in q.matrix])
            except ValueError as ex:
                return ('ValueError',)
            except Exception as ex:
                return ('raised', repr(ex))
        ra, rb = run(ka), run(kb)
        if ra != rb or ra[0] in ('raised',):
            return dict(confirmed=True, call='segno.make(%r, **%r) vs **%r' % (c, ka, kb), detail='%r vs %r' % (ra[:2], rb[:2]))
    return dict(confirmed=False, detail='same symbols')


def replay_sequence_args(model, obligation, content, version, count, mode):
    import ast
    c, v, n, m = (ast.literal_eval(x) for x in (content, version, count, mode))
    call = 'segno.make_sequence(%s, version=%r, symbol_count=%r, mode=%r)' % (content[:40], v, n, m)
    try:
        seq = segno.make_sequence(c, version=v, symbol_count=n, mode=m)
        k = len(seq)
    except ValueError as ex:
        if 'documented_refusals' in (obligation or '') or 'only_ValueError' in (obligation or ''):
            return dict(confirmed=False, call=call, detail='ValueError: %s' % ex)
        return dict(confirmed=False, call=call, detail='refused: %s' % ex)
    except Exception as ex:
        return dict(confirmed=True, call=call, detail='raised %r' % (ex,))
    if 'documented_refusals' in (obligation or ''):
        return dict(confirmed=True, call=call, detail='accepted, %d symbols' % k)
    bad = not 1 <= k <= 16 or (n is not None and v is None and k != n)
    return dict(confirmed=bad, call=call, detail='%d symbols' % k)


def replay_serialiser_arg(model, obligation, kind, wit=None):
    import ast
    import io
    w = ast.literal_eval(wit) if wit else {}
    kw = {}
    for key in ('scale', 'border'):
        if key in w:
            kw[key] = w[key]
    for key in ('dark', 'light'):
        if key in w:
            kw[key] = ast.literal_eval(w[key])
    if 'kw' in w:
        kw.update(w['kw'])
    k = w.get('kind', kind)
    qr = segno.make('C14', micro=False)
    out = io.StringIO() if k.lower() in ('txt', 'xpm', 'xbm', 'tex', 'ans', 'eps') else io.BytesIO()
    call = 'segno.make("C14", micro=False).save(<stream>, kind=%r, **%r)' % (k, kw)
    try:
        qr.save(out, kind=k, **kw)
        outcome = 'accepted'
    except ValueError as ex:
        outcome = 'ValueError'
    except Exception as ex:
        outcome = repr(ex)
    want_refusal = 'refused' in (obligation or '')
    if want_refusal:
        bad = outcome != 'ValueError'
    elif 'accepted_or_ValueError' in (obligation or ''):
        bad = outcome not in ('accepted', 'ValueError')
    else:
        bad = outcome != 'accepted'
    return dict(confirmed=bad, call=call, detail='outcome: %s' % outcome)


def replay_cli(model, obligation, argv, want):
    import ast
    import os
    import subprocess
    import sys
    import tempfile
    a = ast.literal_eval(argv)
    tmp = tempfile.mkdtemp(prefix='c14r')
    a = [os.path.join(tmp, os.path.basename(x)) if (os.sep in x) else x for x in a]
    env = dict(os.environ, PYTHONPATH=os.environ.get('PYVC_REPO', '/repo'))
    p = subprocess.run([sys.executable, '-m', 'segno.cli'] + a, capture_output=True, text=True, env=env, cwd=tmp)
    import shutil
    if want == 0:
        outs = [x for x in a if x.startswith(tmp)]
        bad = p.returncode != 0 or (outs and a[0] != '--seq' and not os.path.exists(outs[0]))
    else:
        bad = p.returncode != 1 or 'Traceback' in p.stderr or not p.stderr.strip()
    shutil.rmtree(tmp, ignore_errors=True)
    return dict(confirmed=bool(bad), call='python -m segno.cli %s' % ' '.join(a), detail='exit status %d, stderr %r' % (p.returncode, p.stderr[-200:]))


# ---------------------------------------------------------------- C08 replays
def replay_divide_into_chunks(model, obligation, num):
    n = int((model or {}).get('content_length', 0)) % 200
    for ln in (n, num, num + 1, 2 * num - 1, 0, 1, 47):
        content = ''.join(chr(65 + i % 26) for i in range(ln))
        kw = dict(symbol_count=num) if ln >= num else None
        if kw is None:
            continue
        try:
            seq = encoder.encode_sequence(content, symbol_count=num)
        except Exception as ex:
            return dict(confirmed=True, call='encode_sequence(<%d chars>, symbol_count=%d)' % (ln, num), detail='raised %r' % (ex,))
        sizes = [s.segments[0].char_count for s in seq]
        if sum(sizes) != ln or len(sizes) != num or max(sizes) - min(sizes) > 1:
            return dict(confirmed=True, call='encode_sequence(<%d chars>, symbol_count=%d)' % (ln, num), detail='chunk sizes %r' % (sizes,))
    return dict(confirmed=False, detail='chunk sizes as specified')


def replay_sequence(model, obligation, content, kw):
    import ast
    from functools import reduce
    from . import qrdecode
    c, k = ast.literal_eval(content), ast.literal_eval(kw)
    call = 'segno.make_sequence(%s, **%s)' % (content[:80], kw)
    try:
        seq = segno.make_sequence(c, **k)
    except ValueError as ex:
        return dict(confirmed=False, call=call, detail='refused: %s' % ex)
    except Exception as ex:
        return dict(confirmed=True, call=call, detail='raised %r' % (ex,))
    decs = [qrdecode.decode(q.matrix) for q in seq]
    want = qrdecode.expected_payload(c, encoding=k.get('encoding'))
    probs = []
    n = len(seq)
    if not 1 <= n <= 16 or any(q.is_micro for q in seq):
        probs.append('%d symbols' % n)
    if 'symbol_count' in k and 'version' not in k and n != k['symbol_count']:
        probs.append('%d symbols, symbol_count=%d' % (n, k['symbol_count']))
    if 'version' in k and 'symbol_count' not in k and any(q.version != k['version'] for q in seq):
        probs.append('versions %r' % [q.version for q in seq])
    for i, d in enumerate(decs):
        if d.problems or not d.syndromes_ok:
            probs.append('symbol %d (%s): %s' % (i, seq[i].designator, d.problems[:1]))
            break
    if not probs:
        if n > 1:
            if any(d.sa_raw is None or d.sa_raw[0] != i or d.sa_raw[1] != n - 1 for i, d in enumerate(decs)):
                probs.append('headers %r' % [d.sa_raw for d in decs][:4])
            par = sorted(set(d.sa_raw[2] for d in decs if d.sa_raw))
            wp = reduce(lambda a, b: a ^ b, want, 0)
            if par != [wp]:
                probs.append('parity %r, XOR of the message bytes %d' % (par, wp))
        got = b''.join(d.payload for d in decs)
        if got != want:
            probs.append('payloads concatenate to %r..., message bytes %r...' % (got[:30], want[:30]))
    return dict(confirmed=bool(probs), call=call, detail='; '.join(probs) or 'sequence reassembles')


def replay_sequence_structure(model, obligation, mode, cfg):
    import ast
    from . import qrdecode
    c = dict(dict(error='M'), **ast.literal_eval(cfg))
    c.pop('eci', None)          # make_sequence has no eci parameter (encode_sequence has)
    unit = {'numeric': '0123456789', 'alphanumeric': 'AB C1$', 'byte': 'abcé', 'kanji': '点茗テ'}[mode]
    n = int((model or {}).get('content_length', 20))
    for ln in (n % 300, 70, 8, 11, 16, 17, 100):
        content = (unit * (ln // len(unit) + 1))[:ln]
        call = 'segno.make_sequence(<%d %s characters>, **%r)' % (ln, mode, c)
        try:
            seq = segno.make_sequence(content, **c)
        except ValueError as ex:
            if 'symbol_count' in c and ln >= c['symbol_count']:
                return dict(confirmed=True, call=call, detail='refused although the content has at least symbol_count characters: %s' % ex)
            continue
        except Exception as ex:
            return dict(confirmed=True, call=call, detail='raised %r' % (ex,))
        if c.get('mask') is not None and any(q.mask != c['mask'] for q in seq):
            return dict(confirmed=True, call=call, detail='requested mask %r, symbols use %r' % (c['mask'], [q.mask for q in seq]))
        if c.get('boost_error') is False and any(q.error != c['error'].upper() for q in seq):
            return dict(confirmed=True, call=call, detail='requested level %r without boosting, symbols use %r' % (c['error'], [q.error for q in seq]))
        decs = [qrdecode.decode(q.matrix) for q in seq]
        counts = []
        for d in decs:
            ds = [s for s in d.segments if s.is_data()]
            counts.append(ds[0].char_count if len(ds) == 1 else None)
        if len(seq) > 1 and None not in counts and mode != 'byte':
            if max(counts) - min(counts) > 1 or sum(counts) != ln:
                return dict(confirmed=True, call=call, detail='character counts of the symbols %r (message has %d)' % (counts, ln))
        if len(set(q.version for q in seq)) != 1:
            return dict(confirmed=True, call=call, detail='versions %r' % [q.version for q in seq])
        hdr = [d.sa_raw for d in decs]
        if len(seq) > 1 and any(h is None or h[0] != i or h[1] != len(seq) - 1 for i, h in enumerate(hdr)):
            return dict(confirmed=True, call=call, detail='headers %r' % (hdr[:4],))
    return dict(confirmed=False, detail='sequence structure as specified for the tried lengths')


# ---------------------------------------------------------------- C16 replays
def replay_escape(model, obligation):
    from segno import helpers as H
    bad = []
    for cp in list(range(0, 0x250)):
        c = chr(cp)
        img = H._escape_vcard(c)
        if '\r' in img or '\n' in img:
            bad.append(('vcard', cp, img))
        img = H._escape_mecard(c)
        if (c == ';' and img != '\\;') or (c == '\\' and img != '\\\\'):
            bad.append(('mecard', cp, img))
    return dict(confirmed=bool(bad), call='_escape_vcard(chr(c)) / _escape_mecard(chr(c)) for all c < 0x250', detail='(table, char, image): %r' % (bad[:4],))


def replay_helper_escape(model, obligation, builder, param):
    """call the real builder with a delimiter-carrying value for `param` and parse the payload back"""
    from segno import helpers as H
    from . import payloads as P
    tried = []
    for bad in ('a;b', 'a\\', 'x;S:evil', 'a\nb', 'a&b=c', 'a b'):
        if builder == 'make_wifi_data':
            kw = dict(ssid='net', password='pw', security='WPA')
            kw[param] = bad
            pl = H.make_wifi_data(**kw)
            probs = [p for p in P.check_wifi(pl, **kw) if 'terminat' not in p.lower()]
        elif builder == 'make_mecard_data':
            kw = dict(name='Doe,John')
            kw[param] = [bad, 'x'] if param in ('email', 'phone', 'videophone', 'url') else bad
            pl = H.make_mecard_data(**kw)
            probs = P.check_mecard(pl, key_aliases={'TEL-AV': 'TELAV', 'NOTE': 'MEMO'}, **kw)
        elif builder == 'make_vcard_data':
            kw = dict(name='Doe;John', displayname='John Doe')
            kw[param] = bad
            try:
                pl = H.make_vcard_data(**kw)
            except ValueError:
                continue
            probs = [p for p in P.check_vcard(pl, **kw) if 'line' in p.lower()]
        elif builder == 'make_make_email_data':
            kw = dict(to='me@example.org')
            kw[param] = bad
            pl = H.make_make_email_data(**kw)
            probs = P.check_mailto(pl, **kw)
        else:
            return dict(confirmed=None, detail='unknown builder %r' % builder)
        tried.append((bad, pl))
        if probs:
            return dict(confirmed=True, call='segno.helpers.%s(**%r)' % (builder, kw), detail='payload %r: %s' % (pl, probs[:2]))
    return dict(confirmed=False, detail='payloads parse back: %r' % (tried[:2],))


def replay_payload(model, obligation, builder, kw):
    import ast
    import decimal
    from segno import helpers as H
    from . import payloads as P
    try:
        k = ast.literal_eval(kw)
    except Exception:
        k = eval(kw, {'Decimal': decimal.Decimal})
    try:
        if builder == 'wifi':
            pl = H.make_wifi_data(**k)
            probs = [p for p in P.check_wifi(pl, **k) if 'terminat' not in p.lower()]
        elif builder == 'mecard':
            pl = H.make_mecard_data(**k)
            probs = P.check_mecard(pl, key_aliases={'TEL-AV': 'TELAV', 'NOTE': 'MEMO'}, **k)
        elif builder == 'vcard':
            pl = H.make_vcard_data(**k)
            probs = [p for p in P.check_vcard(pl, **k) if 'line' in p.lower()]
        elif builder == 'geo':
            pl = H.make_geo_data(**k)
            probs = P.check_geo(pl, **k)
        elif builder == 'mailto':
            pl = H.make_make_email_data(**k)
            probs = P.check_mailto(pl, **k)
        else:
            pl = H._make_epc_qr_data(**k)
            probs = P.check_epc(pl, **k)
    except ValueError as ex:
        viol = P.epc_input_violations(**k) if builder == 'epc' else ['-']
        return dict(confirmed=not viol, call='%s(**%s)' % (builder, kw[:200]), detail='refused: %s' % ex)
    except Exception as ex:
        return dict(confirmed=True, call='%s(**%s)' % (builder, kw[:200]), detail='raised %r' % (ex,))
    return dict(confirmed=bool(probs), call='%s(**%s)' % (builder, kw[:200]), detail='payload %r: %s' % (pl if len(repr(pl)) < 200 else repr(pl)[:200], probs[:2]))


# ---------------------------------------------------------------- C09 replays
def _qr_for(designator, version, matrix):
    if matrix:
        m = tuple(bytearray(bytes.fromhex(r)) for r in matrix)
        seg = encoder._Segment(bytearray(), 0, 4, None)
        segs = encoder.Segments()
        segs.add_segment(seg)
        return segno.QRCode(encoder.Code(m, version, 1, 0, segs))
    v = iso.version_name(version)
    return segno.make('1', version=v, micro=(version < 1), boost_error=False)


def replay_raster(model, obligation, designator, kind, scale, border, ckw, opts, matrix, version):
    import ast
    import io
    from . import readers_raster as RR
    from contracts.c09 import expected_rgba
    c, o = ast.literal_eval(ckw), ast.literal_eval(opts)
    qr = _qr_for(designator, version, matrix)
    size = len(qr.matrix)
    b = border if border is not None else (2 if qr.is_micro else 4)
    call = 'segno symbol %s .save(kind=%r, scale=%r, border=%r, **%r, **%r)' % (qr.designator, kind, scale, border, c, o)
    try:
        if kind in ('txt', 'ans', 'terminal', 'compact'):
            out = io.StringIO()
            if kind in ('terminal', 'compact'):
                qr.terminal(out=out, border=border, compact=(kind == 'compact'))
            else:
                qr.save(out, kind=kind, border=border)
            grid = {'txt': RR.read_txt, 'ans': RR.read_ansi_terminal, 'terminal': RR.read_ansi_terminal, 'compact': RR.read_compact_terminal}[kind](out.getvalue())
            probs = RR.check_grid([list(r) for r in qr.matrix], grid, b)
        else:
            out = io.StringIO() if kind in ('xbm', 'xpm') else io.BytesIO()
            qr.save(out, kind=kind, scale=scale, border=border, **c, **o)
            r = getattr(RR, 'read_' + kind)(out.getvalue())
            dark = expected_rgba(c['dark'], None) if 'dark' in c else (0, 0, 0, 255)
            light = expected_rgba(c['light'], None) if 'light' in c else (255, 255, 255, 255)
            probs = [p for p in RR.check_modules([list(x) for x in qr.matrix], r, int(scale), b, dark, light) if 'requires MAXVAL >= 2' not in p]
    except Exception as ex:
        probs = ['raised %r' % (ex,)]
    return dict(confirmed=bool(probs), call=call, detail='; '.join(probs[:3]) or 'file is well-formed and depicts the symbol')


def replay_colourful(model, obligation, designator, version, kind, scale, border, ckw):
    """the same colour-indexed document is produced natively and read back by the independent readers"""
    import ast
    from contracts import c09
    c = ast.literal_eval(ckw)
    qr = _qr_for(designator, version, None)
    probs = c09.colourful_problems(qr, version, kind, scale, border, c)
    return dict(confirmed=bool(probs), call='segno symbol %s .save(kind=%r, scale=%r, border=%r, **%r)' % (qr.designator, kind, scale, border, c),
                detail='; '.join(probs[:3]) or 'colours as configured')


# ---------------------------------------------------------------- C10 replays
def replay_matrix_to_lines(model, obligation):
    from segno import utils
    import random
    rnd = random.Random(3)
    w = max(1, int((model or {}).get('width', 5)) % 40)
    for t in range(300):
        h = rnd.randrange(1, 6)
        m = [[rnd.randrange(2) for _ in range(w)] for _ in range(h)]
        m[0][0] = 1
        x0, y0, inc = rnd.randrange(-3, 4), rnd.randrange(-3, 4), rnd.choice((1, -1, 2))
        cover = {}
        bad = None
        for (xa, ya), (xb, yb) in utils.matrix_to_lines(m, x0, y0, inc):
            if ya != yb or not xa < xb:
                bad = 'segment %r' % (((xa, ya), (xb, yb)),)
                break
            r = (ya - y0) // inc if inc else 0
            for c in range(xa - x0, xb - x0):
                cover[(r, c)] = cover.get((r, c), 0) + 1
        want = {(r, c): 1 for r in range(h) for c in range(w) if m[r][c]}
        if bad or cover != want:
            return dict(confirmed=True, call='utils.matrix_to_lines(%r, %d, %d, %d)' % (m, x0, y0, inc), detail=bad or 'covered cells differ from the dark modules')
    return dict(confirmed=False, detail='300 random matrices covered exactly')


def replay_vector(model, obligation, designator, version, kind, scale, border, ckw, opts, matrix=None):
    import ast
    import io
    from . import readers_vector as RV
    c, o = ast.literal_eval(ckw), ast.literal_eval(opts)
    qr = _qr_for(designator, version, matrix)
    out = io.StringIO() if kind in ('tex', 'eps') else io.BytesIO()
    call = 'segno symbol %s .save(kind=%r, scale=%r, border=%r, **%r, **%r)' % (qr.designator, kind, scale, border, c, o)
    try:
        qr.save(out, kind=kind, scale=scale, border=border, **c, **o)
    except Exception as ex:
        return dict(confirmed=True, call=call, detail='raised %r' % (ex,))
    vec = {'svg': RV.read_svg, 'eps': RV.read_eps, 'pdf': RV.read_pdf, 'tex': RV.read_tikz}[kind](out.getvalue())
    b = border if border is not None else (2 if qr.is_micro else 4)
    dark = RV.parse_color(c['dark'])[:3] if 'dark' in c else None
    light = RV.parse_color(c['light'])[:3] if c.get('light') is not None else None
    probs = RV.check_modules([list(r) for r in qr.matrix], vec, scale, b, dark=dark, light=light)
    if o.get('omitsize'):
        probs = [p for p in probs if 'page' not in p.lower() or 'cover' in p.lower()]
    if kind == 'tex':
        want_unit = o.get('unit') or 'pt'
        if vec.info.get('unit') != want_unit or vec.info.get('units'):
            probs.append('coordinates use unit %r (%r), requested %r' % (vec.info.get('unit'), vec.info.get('units'), want_unit))
    return dict(confirmed=bool(probs), call=call, detail='; '.join(probs[:3]) or 'document paints exactly the dark modules')


# ---------------------------------------------------------------- C12 replay (byte comparison of routes, native)
def replay_routes(model, obligation, kind=None, opts='{}', content='Hello', mk='{}', **kw):
    import ast
    import base64
    import gzip
    import io
    import os
    import re
    import shutil
    import tempfile
    from urllib.parse import unquote_to_bytes
    if kind == 'seq':
        tmp = tempfile.mkdtemp(prefix='c12s')
        probs = []
        try:
            seq = segno.make_sequence('A' * 60, version=1)
            n = len(seq)
            os.makedirs(os.path.join(tmp, 'dir.x'))
            for rel in ('dir.x/name.svg', 'name.v2.png', 'plain.txt'):
                try:
                    seq.save(os.path.join(tmp, rel), scale=2) if not rel.endswith('txt') else seq.save(os.path.join(tmp, rel))
                except Exception as ex:
                    probs.append('QRCodeSequence.save(%r) raised %r' % (rel, ex))
                    continue
                stem, _, ext = rel.rpartition('.')
                for i, q in enumerate(seq, start=1):
                    fn = os.path.join(tmp, '%s-%02d-%02d.%s' % (stem, n, i, ext))
                    if not os.path.exists(fn):
                        probs.append('save(%r) of %d symbols did not write %s (directory has %r)' % (rel, n, os.path.basename(fn), sorted(os.listdir(os.path.dirname(fn)))[:4]))
                        break
                    o = io.StringIO() if ext == 'txt' else io.BytesIO()
                    q.save(o, kind=ext, **({} if ext == 'txt' else dict(scale=2)))
                    with open(fn, 'r' if ext == 'txt' else 'rb') as fh:
                        if fh.read() != o.getvalue():
                            probs.append('%s differs from symbol %d saved on its own' % (os.path.basename(fn), i))
        finally:
            shutil.rmtree(tmp, ignore_errors=True)
        return dict(confirmed=True if probs else None, call="segno.make_sequence('A' * 60, version=1).save(<name>)", detail='; '.join(probs[:3]) or 'files as specified for the tried names')
    if kind in (None, 'terminal'):
        return dict(confirmed=None, detail='route %r: see the witness in the replay file' % kind)
    o, m = ast.literal_eval(opts), ast.literal_eval(mk)
    text = kind in ('txt', 'ans', 'xbm', 'xpm', 'tex', 'eps')

    def mask(data):
        if kind == 'pdf':
            return re.sub(rb'/CreationDate\(D:[^)]*\)', b'/CreationDate(D:X)', data)
        if kind == 'eps':
            return re.sub(r'%%CreationDate: [^\n]*', '%%CreationDate: X', data)
        if kind == 'tex':
            return re.sub(r'% Date:[^\n]*', '% Date: X', data)
        return data
    qr = segno.make(content, **m)
    out = io.StringIO() if text else io.BytesIO()
    qr.save(out, kind=kind, **o)
    ref = mask(out.getvalue())
    tmp = tempfile.mkdtemp(prefix='c12p')
    probs = []
    try:
        for ext in (kind, kind.upper()):
            path = os.path.join(tmp, 'a.' + ext)
            try:
                qr.save(path, **o)
                with open(path, 'r' if text else 'rb', **({'encoding': o.get('encoding', 'utf-8'), 'newline': ''} if text else {})) as fh:
                    if mask(fh.read()) != ref:
                        probs.append('file a.%s differs from the stream output' % ext)
            except Exception as ex:
                probs.append('save(%r) raised %r' % ('a.' + ext, ex))
        if kind == 'png':
            if base64.b64decode(qr.png_data_uri(**o).split(',', 1)[1]) != ref:
                probs.append('png_data_uri differs')
        if kind == 'svg':
            for zext in ('svgz', 'SVGZ', 'Svgz'):
                zp = os.path.join(tmp, 'z.' + zext)
                try:
                    qr.save(zp, **o)
                    if gzip.open(zp).read() != ref:
                        probs.append('z.%s is not the gzip of the SVG document' % zext)
                    zp2 = os.path.join(tmp, 'k-' + zext)
                    qr.save(zp2, kind=zext, **o)
                    if gzip.open(zp2).read() != ref:
                        probs.append('save(name, kind=%r) is not the gzip of the SVG document' % zext)
                except Exception as ex:
                    probs.append('save(%r) raised %r' % ('z.' + zext, ex))
            uo = {k: v for k, v in o.items() if k not in ('xmldecl', 'nl')}
            o3 = io.BytesIO()
            qr.save(o3, kind='svg', xmldecl=False, nl=False, **uo)
            dec = unquote_to_bytes(qr.svg_data_uri(**uo).partition(',')[2])
            # (the known single-quote spelling of the data URI route is not what a replay is looking for)
            if dec.replace(b"'", b'"') != o3.getvalue().replace(b"'", b'"'):
                probs.append('svg_data_uri decodes to %r..., svg document %r...' % (dec[:60], o3.getvalue()[:60]))
        from segno import cli
        flags = {'scale': '--scale', 'border': '--border', 'dark': '--dark', 'light': '--light', 'title': '--title', 'desc': '--desc', 'svgid': '--svgid',
                 'svgclass': '--svgclass', 'lineclass': '--lineclass', 'unit': '--unit', 'svgversion': '--svgversion', 'dpi': '--dpi',
                 'finder_dark': '--finder-dark', 'data_dark': '--data-dark', 'encoding': '--svgencoding'}
        switch = {('xmldecl', False): '--no-xmldecl', ('svgns', False): '--no-namespace', ('nl', False): '--no-newline', ('omitsize', True): '--no-size'}
        argv, ok = [], True
        for k_, v_ in o.items():
            if (k_, v_) in switch:
                argv.append(switch[(k_, v_)])
            elif k_ in flags:
                argv += [flags[k_], 'transparent' if v_ is None else str(v_)]
            else:
                ok = False
        if ok:
            cp = os.path.join(tmp, 'c.' + kind.upper())
            argv += ['--micro' if m.get('micro') else '--no-micro'] + (['--error', m['error']] if 'error' in m else []) + ['-o', cp, content]
            try:
                rc = cli.main(argv)
            except SystemExit as se:
                rc = se.code
            if rc != 0 or not os.path.exists(cp):
                probs.append('segno %s exited with %r' % (' '.join(argv), rc))
            else:
                # the command line never uses micro=None: compare with the API symbol made with the same micro flag
                q2 = segno.make(content, **dict(m, micro=bool(m.get('micro'))))
                o2 = io.StringIO() if text else io.BytesIO()
                q2.save(o2, kind=kind, **o)
                with open(cp, 'r' if text else 'rb', **({'encoding': o.get('encoding', 'utf-8'), 'newline': ''} if text else {})) as fh:
                    if mask(fh.read()) != mask(o2.getvalue()):
                        probs.append('file written by "segno %s" differs from the API output' % ' '.join(argv[:-3]))
    finally:
        shutil.rmtree(tmp, ignore_errors=True)
    return dict(confirmed=bool(probs), call='segno.make(%r, **%r) saved as %s with %r through every route' % (content, m, kind, o), detail='; '.join(probs[:3]) or 'all routes byte-identical')


def replay_purity(model, obligation):
    """native purity battery on the real code: repeated / reordered / equal-hashing / concurrent calls and
    snapshots of the package's module level containers. confirmed=True with the differing call, else None
    (a static finding without an observed behavioural difference is reported as no-failing-input-found)."""
    import copy
    import sys
    import threading
    from segno import utils, writers, helpers
    probs = []

    def snap():
        out = {}
        for mod in (segno, encoder, consts, utils, writers, helpers):
            for name, val in mod.__dict__.items():
                full = mod.__name__ + '.' + name
                if isinstance(val, (list, dict, set, bytearray, tuple)) and not name.startswith('__') and \
                        full.startswith(('segno.consts.', 'segno.writers._ALPHA_COMMONS', 'segno.writers._NAME2RGB', 'segno.writers._VALID_SERIALIZERS',
                                         'segno.helpers._MECARD_ESCAPE', 'segno.helpers._VCARD_ESCAPE', 'segno.cli._EXT_TO_KW_MAPPING')):
                    out[full] = copy.deepcopy(val)
        return out

    def make(c, kw):
        try:
            q = segno.make(c, **kw)
            return (q.designator, q.mask, tuple(bytes(r) for r in q.matrix))
        except ValueError as ex:
            return ('ValueError', str(ex))
    calls = [('1', {}), (1, {}), (True, {}), ('True', {}), ('HELLO', {}), ('HELLO', dict(error='h')), ('hello', dict(micro=False)),
             ('Hello World', dict(version=5)), ('12345678901234567890', dict(version=2, mask=1)), ('ABC', dict(version='M3')), ('ABC', dict(version=3)),
             ('点', dict(mode='kanji')), ('点', dict(encoding='utf-8')), ('x' * 100, dict(error='q', boost_error=False)), ('x' * 100, dict(version=10)),
             ('0' * 300, {}), ('A' * 40, dict(version=4)), ('A' * 40, dict(version=27)), ('ab', dict(version=27, mask=7)), ('ab', dict(version=1, mask=7))]
    s0 = snap()
    fresh = {}
    for i, (c, kw) in enumerate(calls):
        fresh[i] = make(c, kw)
    pairs = ((1, 0, "make(1)", "make('1')"), (2, 3, "make(True)", "make('True')"))
    for a, b, ca, cb in pairs:
        if fresh[a] != fresh[b]:
            probs.append('%s differs from %s after an equal-hashing argument was encoded before' % (ca, cb))
    for order in (list(range(len(calls)))[::-1], [(7 * i + 3) % len(calls) for i in range(len(calls))]):
        for i in order:
            if make(*calls[i]) != fresh[i]:
                probs.append('make(%r, **%r) differs when called in another history' % calls[i])
    res = {}

    def worker(t):
        res[t] = [(j, make(*calls[j])) for j in [(i + t) % len(calls) for i in range(len(calls))]]
    old = sys.getswitchinterval()
    sys.setswitchinterval(1e-5)
    try:
        th = [threading.Thread(target=worker, args=(t,)) for t in range(16)]
        [t.start() for t in th]
        [t.join() for t in th]
    finally:
        sys.setswitchinterval(old)
    for t, out in res.items():
        for j, got in out:
            if got != fresh[j]:
                probs.append('make(%r, **%r) differs under 16 concurrent threads' % calls[j])
    # idempotence: encoding again with the chosen version / level / mask and boosting disabled reproduces the matrix
    idem = calls + [('hello', {}), ('ab', dict(micro=True)), ('12345678901', {}), ('HELLO WORLD', dict(micro=True)), ('hello world', dict(error='l'))]
    for c, kw in idem:
        try:
            q = segno.make(c, **kw)
        except ValueError:
            continue
        q2 = segno.make(c, version=q.version, error=q.error, mask=q.mask, boost_error=False, **{a: b for a, b in kw.items() if a not in ('version', 'error', 'mask', 'boost_error')})
        if q2.matrix != q.matrix or q2.designator != q.designator:
            probs.append('make(%r, **%r) is %s mask %d; encoding again with that version, level and mask (boost_error=False) gives %s with a different matrix' % (
                c, kw, q.designator, q.mask, q2.designator))
    try:
        probs.extend(purity_battery())
        if not probs:
            probs.extend(purity_schedules())
    except Exception as ex:
        probs.append('purity battery crashed: %r' % (ex,))
    if snap() != s0:
        s1 = snap()
        probs.append('module level containers changed: %s' % sorted(k for k in s0 if s0[k] != s1.get(k))[:4])
    return dict(confirmed=True if probs else None, call='purity battery of %d calls (fresh, reordered, equal-hashing, 16 threads)' % len(calls),
                detail='; '.join(sorted(set(probs))[:3]) or 'no behavioural difference observed by the native battery')


def replay_colourful_map(model, obligation):
    """native: every per-type colour option is honoured by the colour-indexed serialisers (PNG pixels read back)"""
    import io
    from . import readers_raster as RR
    from segno import consts as c
    probs = []
    for content, kw in (('1', dict(micro=True)), ('Hello', dict(micro=False)), ('v2', dict(version=2)), ('version seven', dict(version=7))):
        qr = segno.make(content, **kw)
        names = {'finder_dark': c.TYPE_FINDER_PATTERN_DARK, 'finder_light': c.TYPE_FINDER_PATTERN_LIGHT, 'data_dark': c.TYPE_DATA_DARK, 'data_light': c.TYPE_DATA_LIGHT,
                 'version_dark': c.TYPE_VERSION_DARK, 'version_light': c.TYPE_VERSION_LIGHT, 'format_dark': c.TYPE_FORMAT_DARK, 'format_light': c.TYPE_FORMAT_LIGHT,
                 'alignment_dark': c.TYPE_ALIGNMENT_PATTERN_DARK, 'alignment_light': c.TYPE_ALIGNMENT_PATTERN_LIGHT, 'timing_dark': c.TYPE_TIMING_DARK,
                 'timing_light': c.TYPE_TIMING_LIGHT, 'separator': c.TYPE_SEPARATOR, 'dark_module': c.TYPE_DARKMODULE, 'quiet_zone': c.TYPE_QUIET_ZONE}
        types = [[t for t in row] for row in qr.matrix_iter(scale=1, border=1, verbose=True)]
        for opt, t in names.items():
            if not any(t in row for row in types):
                continue
            out = io.BytesIO()
            qr.save(out, kind='png', scale=1, border=1, **{opt: '#ff0000'})
            r = RR.read_png(out.getvalue())
            for y, row in enumerate(types):
                for x, tt in enumerate(row):
                    is_red = tuple(r.pixels[y][x][:3]) == (255, 0, 0)
                    if (tt == t) != is_red and len(probs) < 3:
                        probs.append('%s: save(kind="png", %s="#ff0000"): pixel (%d,%d) of type %d is %r' % (qr.designator, opt, x, y, tt, tuple(r.pixels[y][x])))
    return dict(confirmed=True if probs else None, call='per-type colour options on PNG', detail='; '.join(probs) or 'no difference observed natively')


def replay_iter_refusal(model, obligation, function, scale, border, ok):
    """native: utils.matrix_iter / matrix_iter_verbose on a real symbol with the given scale / border"""
    from segno import utils
    qr = segno.make('Hello', micro=False)
    size = len(qr.matrix)
    call = 'utils.%s(matrix, (%d, %d), scale=%r, border=%r)' % (function, size, size, scale, border)
    try:
        rows = list(getattr(utils, function)(qr.matrix, (size, size), scale=scale, border=border))
    except ValueError as ex:
        return dict(confirmed=bool(ok), call=call, detail='refused with ValueError: %s' % ex)
    except Exception as ex:
        return dict(confirmed=True, call=call, detail='raised %r (only ValueError is allowed)' % (ex,))
    if not ok:
        return dict(confirmed=True, call=call, detail='accepted (%d rows) although the argument is outside the documented domain; ValueError expected' % len(rows))
    want = (size + 2 * (4 if border is None else int(border))) * int(scale)
    bad = len(rows) != want or any(len(r) != want for r in rows)
    return dict(confirmed=bad, call=call, detail='%d rows, expected %d' % (len(rows), want))


def replay_iter_kernel(model, obligation, function):
    """native: scaling / quiet zone structure of utils.matrix_iter(_verbose) on real symbols for the model's scale / border and a small grid"""
    from segno import utils, consts as c
    m = model or {}
    grid = [(m.get('scale', 1), m.get('border'))] + [(s, b) for s in (1, 2, 3, 5) for b in (None, 0, 1, 2, 4, 7)]
    for content, kw in (('1', dict(micro=True)), ('Hello', dict(micro=False)), ('version seven', dict(version=7))):
        qr = segno.make(content, **kw)
        size = len(qr.matrix)
        for s, b in grid:
            if not isinstance(s, int) or s < 1 or (b is not None and (not isinstance(b, int) or b < 0)) or s > 50 or (b or 0) > 50:
                continue
            be = b if b is not None else (2 if qr.is_micro else 4)
            call = 'utils.%s(<%s>.matrix, (%d, %d), scale=%r, border=%r)' % (function, qr.designator, size, size, s, b)
            try:
                rows = [tuple(r) for r in getattr(utils, function)(qr.matrix, (size, size), scale=s, border=b)]
                base = [tuple(r) for r in getattr(utils, function)(qr.matrix, (size, size), scale=1, border=0)]
            except Exception as ex:
                return dict(confirmed=True, call=call, detail='raised %r' % (ex,))
            n = (size + 2 * be) * s
            if len(rows) != n or any(len(r) != n for r in rows):
                return dict(confirmed=True, call=call, detail='%d rows of lengths %r, expected %d x %d' % (len(rows), sorted(set(map(len, rows)))[:3], n, n))
            quiet = c.TYPE_QUIET_ZONE if function == 'matrix_iter_verbose' else 0
            for y in range(n):
                i = y // s - be
                for x in range(n):
                    j = x // s - be
                    want = base[i][j] if 0 <= i < size and 0 <= j < size else quiet
                    if function == 'matrix_iter' and 0 <= i < size and 0 <= j < size:
                        want = qr.matrix[i][j]
                    if rows[y][x] != want:
                        return dict(confirmed=True, call=call, detail='entry (row %d, column %d) is %r, module (%d, %d) gives %r' % (y, x, rows[y][x], i, j, want))
    return dict(confirmed=False, detail='structure as specified on the tried symbols / scales / borders')


def replay_colour_values(model, obligation):
    """native: colours written into SVG documents for tuples / hex values with every alpha value"""
    import io
    import re
    probs = []
    q = segno.make('colour', micro=False)
    for a in range(256):
        for dark, svgversion in (((1, 2, 3, a), None), ('#010203%02x' % a, 2.0)):
            out = io.BytesIO()
            try:
                q.save(out, kind='svg', dark=dark, svgversion=svgversion)
            except Exception as ex:
                probs.append('save(kind="svg", dark=%r) raised %r' % (dark, ex))
                continue
            doc = out.getvalue().decode('utf-8')
            m = re.search(r'stroke-opacity="([0-9.]+)"', doc) or re.search(r'rgba\(1,2,3,([0-9.]+)\)', doc)
            got = float(m.group(1)) if m else (1.0 if 'stroke="#010203"' in doc else None)
            if got is None or abs(got - a / 255.0) > 0.005:
                probs.append('save(kind="svg", dark=%r%s): opacity %r in the document, requested %d/255 = %.3f' % (dark, '' if svgversion is None else ', svgversion=2.0', got, a, a / 255.0))
    # colour tuples with every pattern of equal / unequal hexadecimal digits: the colour named in the SVG document is the requested one
    from . import readers_vector as RV
    pats = (0x00, 0x0a, 0xa0, 0xaa, 0x11, 0x1a, 0xa1, 0xab, 0xff, 0xd2, 0xb4, 0x8c)
    for r_ in pats:
        for g_ in pats:
            for b_ in pats:
                out = io.BytesIO()
                try:
                    q.save(out, kind='svg', dark=(r_, g_, b_))
                    m = re.search(r'stroke="([^"]+)"', out.getvalue().decode('utf-8'))
                    if not m or tuple(RV.parse_color(m.group(1)))[:3] != (r_, g_, b_):
                        probs.append('save(kind="svg", dark=%r): stroke %r' % ((r_, g_, b_), m.group(1) if m else None))
                except Exception as ex:
                    probs.append('save(kind="svg", dark=%r) raised %r' % ((r_, g_, b_), ex))
    for k in range(0, 101, 5):
        f = k / 100.0
        out = io.BytesIO()
        try:
            q.save(out, kind='svg', dark=(1, 2, 3, f))
            doc = out.getvalue().decode('utf-8')
            m = re.search(r'stroke-opacity="([0-9.]+)"', doc)
            got = float(m.group(1)) if m else (1.0 if 'stroke="#010203"' in doc else None)
            if got is None or abs(got - f) > 0.005:
                probs.append('save(kind="svg", dark=(1, 2, 3, %r)): opacity %r in the document' % (f, got))
        except Exception as ex:
            probs.append('save(kind="svg", dark=(1, 2, 3, %r)) raised %r' % (f, ex))
    m_ = model if isinstance(model, dict) else {}
    if all(k in m_ for k in 'rgb'):
        from segno import writers
        t = tuple(int(m_[k]) for k in 'rgba' if k in m_)
        try:
            res = writers._color_to_rgba(t, alpha_float=False)
            if not all(0 <= v <= 255 for v in t) or tuple(res)[:len(t)] != t:
                probs.append('_color_to_rgba(%r) returned %r' % (t, res))
        except ValueError:
            if all(0 <= v <= 255 for v in t):
                probs.append('_color_to_rgba(%r) refused' % (t,))
        except Exception as ex:
            probs.append('_color_to_rgba(%r) raised %r' % (t, ex))
    return dict(confirmed=True if probs else None, call='SVG documents with every alpha value 0..255 / the model tuple', detail='; '.join(probs[:3]) or 'no difference observed natively')


def replay_colour_string(model, obligation, spell):
    """native: a colour string that is not a name and not hexadecimal RGB / RGBA / RRGGBB / RRGGBBAA must be refused with ValueError by every serialiser"""
    import io
    hexd = '0123456789abcdefABCDEF'
    body = spell[1:] if spell[:1] == '#' else spell
    valid = len(body) in (3, 4, 6, 8) and all(c in hexd for c in body)
    qr = segno.make('C14', micro=False)
    probs = []
    for kind in ('png', 'svg', 'eps', 'pdf', 'ppm', 'xpm'):
        out = io.StringIO() if kind in ('eps', 'xpm') else io.BytesIO()
        try:
            qr.save(out, kind=kind, dark=spell)
            if not valid:
                doc = out.getvalue()
                probs.append('save(kind=%r, dark=%r) accepted the malformed colour%s' % (kind, spell, (' and wrote %r' % doc[doc.find(b'stroke'):doc.find(b'stroke') + 24]) if kind == 'svg' else ''))
        except ValueError:
            if valid and not (kind in ('ppm', 'xpm', 'eps', 'pdf') and len(body) in (4, 8)):
                probs.append('save(kind=%r, dark=%r) refused a well-formed colour' % (kind, spell))
        except Exception as ex:
            probs.append('save(kind=%r, dark=%r) raised %r' % (kind, spell, ex))
    return dict(confirmed=bool(probs), call='segno.make("C14", micro=False).save(<stream>, kind=..., dark=%r)' % spell, detail='; '.join(probs[:3]) or 'handled as specified')


def replay_raster_kind(model, obligation, kind):
    """native: the raster writer of `kind` on real symbols for scales 1..16 (incl. the multiples of 8) and several borders, read back by the independent reader"""
    import io
    from . import readers_raster as RR
    for content, kw in (('1', dict(micro=True)), ('Hello', dict(micro=False)), ('x' * 30, dict(version=3))):
        qr = segno.make(content, **kw)
        size = len(qr.matrix)
        for scale in (1, 2, 3, 5, 7, 8, 9, 16):
            for border in (None, 0, 1, 3):
                out = io.StringIO() if kind in ('xbm', 'xpm') else io.BytesIO()
                call = 'segno.make(%r, **%r).save(<stream>, kind=%r, scale=%r, border=%r)' % (content, kw, kind, scale, border)
                try:
                    qr.save(out, kind=kind, scale=scale, border=border)
                    r = getattr(RR, 'read_' + kind)(out.getvalue())
                    b = border if border is not None else (2 if qr.is_micro else 4)
                    probs = [p for p in RR.check_modules([list(x) for x in qr.matrix], r, scale, b, (0, 0, 0, 255), (255, 255, 255, 255)) if 'requires MAXVAL' not in p]
                except Exception as ex:
                    probs = ['raised %r' % (ex,)]
                if probs:
                    return dict(confirmed=True, call=call, detail='; '.join(probs[:3]))
    return dict(confirmed=False, detail='%s files of the tried symbols / scales / borders depict the symbols' % kind)


# ---------------------------------------------------------------- C15: purity battery with fresh-process references
_PURITY_CALLS = None


def _purity_calls():
    """calls that differ in exactly the dimensions a cache key could forget: encoding / eci with equal byte lengths, equal lengths in different
    modes, equal contents with different level / version / mask / micro flag, equal-hashing arguments"""
    global _PURITY_CALLS
    if _PURITY_CALLS is None:
        c = []
        for n in (1, 7, 8, 9, 17, 53):
            c += [('a' * n, dict(error='L', eci=True, micro=False)), ('\xe4' * n, dict(error='L', eci=True, micro=False)),
                  ('\xe4' * (n // 2) + 'a' * (n - 2 * (n // 2)), dict(error='L', eci=True, micro=False, encoding='utf-8')),
                  ('\xe4' * n, dict(error='L', eci=True, micro=False, encoding='latin1')), ('a' * n, dict(error='L', micro=False)),
                  ('A' * n, dict(error='L', micro=False)), ('1' * n, dict(error='L', micro=False)), ('1' * n, dict(error='L'))]
        c += [('1', {}), (1, {}), (True, {}), ('True', {}), ('HELLO', {}), ('HELLO', dict(error='h')), ('hello', dict(micro=False)), ('Hello World', dict(version=5)),
              ('12345678901234567890', dict(version=2, mask=1)), ('ABC', dict(version='M3')), ('ABC', dict(version=3)), ('点', dict(mode='kanji')),
              ('点', dict(encoding='utf-8')), ('x' * 100, dict(error='q', boost_error=False)), ('x' * 100, dict(version=10)), ('0' * 300, {}),
              ('A' * 40, dict(version=4)), ('A' * 40, dict(version=27)), ('ab', dict(version=27, mask=7)), ('ab', dict(version=1, mask=7)),
              ('ab', dict(version=1, mask=2)), ('ab', dict(version=7, mask=2)), ('ab', dict(version=7))]
        _PURITY_CALLS = c
    return _PURITY_CALLS


def _purity_result(c, kw):
    import hashlib
    try:
        q = segno.make(c, **kw)
        return '%s/%d/%s' % (q.designator, q.mask, hashlib.sha1(b''.join(bytes(r) for r in q.matrix)).hexdigest()[:16])
    except ValueError as ex:
        return 'ValueError'


def purity_fresh_reference(indices):
    """result of call i computed in a fresh interpreter (nothing encoded before)"""
    import subprocess
    import sys
    import json as _json
    from concurrent.futures import ThreadPoolExecutor
    import os
    root = os.path.dirname(os.path.dirname(os.path.abspath(segno.__file__)))
    verif = os.path.dirname(os.path.dirname(os.path.abspath(__file__)))

    def one(i):
        code = 'import sys; sys.path[:0] = [%r, %r]\nfrom spec import replays as R\nc, kw = R._purity_calls()[%d]\nprint(R._purity_result(c, kw))' % (root, verif, i)
        p = subprocess.run([sys.executable, '-c', code], capture_output=True, text=True, timeout=120)
        return p.stdout.strip().split('\n')[-1] if p.returncode == 0 else 'subprocess failed: ' + p.stderr[-200:]
    with ThreadPoolExecutor(8) as ex:
        return dict(zip(indices, ex.map(one, indices)))


def purity_battery(seed=0, pairs=1200):
    """native purity battery: (1) every call after every other call gives the result a fresh interpreter gives; (2) 16 threads that encode symbols of one
    size at once in a COLD interpreter give the sequential results.  Returns a list of problems."""
    import random
    import subprocess
    import sys
    import os
    calls = _purity_calls()
    idx = list(range(len(calls)))
    fresh = purity_fresh_reference(idx)
    probs = []
    rnd = random.Random(seed)
    order = [(i, j) for i in idx for j in idx]
    rnd.shuffle(order)
    for i, j in order[:pairs]:
        _purity_result(*calls[i])
        got = _purity_result(*calls[j])
        if got != fresh[j]:
            probs.append('make(%r, **%r) gives %s in a fresh interpreter but %s after make(%r, **%r) (and the calls before it)' % (
                calls[j][0] if len(repr(calls[j][0])) < 30 else repr(calls[j][0])[:30], calls[j][1], fresh[j], got,
                calls[i][0] if len(repr(calls[i][0])) < 30 else repr(calls[i][0])[:30], calls[i][1]))
            if len(probs) >= 3:
                return probs
    root = os.path.dirname(os.path.dirname(os.path.abspath(segno.__file__)))
    verif = os.path.dirname(os.path.dirname(os.path.abspath(__file__)))
    code = '''import sys, threading
sys.path[:0] = [%r, %r]
sys.setswitchinterval(1e-6)
import segno
from spec import replays as R
contents = [('%%s%%d' %% (w, t), dict(version=V, micro=False)) for t, w in enumerate(['alpha', 'Bravo', '12345', 'DELTA', 'echo!', 'f0xtr', 'GOLF7', 'hotel'] * 2)]
res = {}
start = threading.Barrier(len(contents))
def work(t):
    start.wait()
    res[t] = R._purity_result(*contents[t])
th = [threading.Thread(target=work, args=(t,)) for t in range(len(contents))]
[x.start() for x in th]; [x.join() for x in th]
bad = [t for t in range(len(contents)) if res.get(t) != R._purity_result(*contents[t])]
print('BAD' if bad else 'OK', bad)
''' % (root, verif)
    for V in (1, 2, 5, 7, 10, 1, 2, 5):
        p = subprocess.run([sys.executable, '-c', code.replace('V,', '%d,' % V)], capture_output=True, text=True, timeout=300)
        out = p.stdout.strip().split('\n')[-1] if p.stdout.strip() else p.stderr[-200:]
        if not out.startswith('OK'):
            probs.append('16 threads encoding version %d symbols at once in a cold interpreter: results differ from the sequential ones (%s)' % (V, out[:120]))
            break
    return probs


def purity_schedules():
    """bounded, systematic schedule exploration: thread B encodes a complete symbol while thread A is suspended at the entry of the k-th module level
    function of segno.encoder, for EVERY k, each schedule starting from a cold module state (importlib.reload); both results must be the sequential ones"""
    import importlib
    import sys
    import threading
    import types
    probs = []
    configs = [('alpha 1', 'Bravo 2', dict(version=2, micro=False)), ('alpha 1', 'Bravo 2', dict(version=7, micro=False)), ('1234', '9876', dict(version='M4')),
               ('alpha 1', 'Bravo 2', dict(version=1, micro=False, error='h')), ('HELLO', 'WORLD', {})]
    for ca, cb, kw in configs:
        importlib.reload(encoder)
        top = {n for n, v in vars(encoder).items() if isinstance(v, types.FunctionType) and v.__module__ == encoder.__name__}
        want_a, want_b = _purity_result(ca, kw), _purity_result(cb, kw)
        k, total = 1, None
        while total is None or k <= total:
            importlib.reload(encoder)
            count = [0]
            box = {}

            def tracer(frame, event, arg):
                if event == 'call' and frame.f_code.co_name in top and frame.f_code.co_filename == encoder.__file__:
                    count[0] += 1
                    if count[0] == k:
                        t = threading.Thread(target=lambda: box.__setitem__('b', _purity_result(cb, kw)))
                        t.start()
                        t.join()
                return None
            sys.settrace(tracer)
            try:
                got_a = _purity_result(ca, kw)
            finally:
                sys.settrace(None)
            total = count[0] if total is None else total
            if got_a != want_a or box.get('b', want_b) != want_b:
                probs.append('make(%r, **%r) in thread A suspended at the entry of its %d. encoder function while thread B runs make(%r, **%r): A gives %s (sequential %s), B gives %s (sequential %s)' % (
                    ca, kw, k, cb, kw, got_a, want_a, box.get('b'), want_b))
                break
            k += 1
        if probs:
            break
    importlib.reload(encoder)
    return probs


def selection_problems(content, kw):
    """end-to-end, on a real symbol made with automatic masking: the pattern in the symbol is the lowest-numbered one whose masked symbol - format and
    version information areas still light - has the minimal ISO 7.8.3.1 penalty (Micro QR: the maximal 7.8.3.2 score), computed with spec/penalty.py"""
    q = segno.make(content, **kw)
    v = consts.MICRO_VERSION_MAPPING[q.version] if isinstance(q.version, str) else q.version
    size = len(q.matrix)
    fm = _layout.function_map(v)
    enc_region = [(i, j) for i in range(size) for j in range(size) if fm[(i, j)][0] == _layout.DATA]
    base = [list(r) for r in q.matrix]
    for (i, j), (kind, val) in fm.items():
        # "format and version areas still light": the dark module next to the format information is written together with it and is
        # light as well while the candidates are evaluated (the property is silent about it; the deductive contract - evaluation before
        # add_format_info - says the same)
        if kind in (_layout.FORMAT, _layout.VERSION, _layout.DARK):
            base[i][j] = 0
    for i, j in enc_region:                      # remove the mask that was applied
        if _layout.mask_condition_for(v, q.mask, i, j):
            base[i][j] ^= 1
    n_masks = 4 if v < 1 else 8
    scores = []
    for k in range(n_masks):
        cand = [row[:] for row in base]
        for i, j in enc_region:
            if _layout.mask_condition_for(v, k, i, j):
                cand[i][j] ^= 1
        scores.append(_pen.micro_score(cand) if v < 1 else _pen.penalty(cand))
    want = scores.index(max(scores)) if v < 1 else scores.index(min(scores))
    if q.mask != want:
        return ['segno.make(%r, **%r) is %s with mask %d; ISO scores of the candidates %r select %d' % (content if len(repr(content)) < 40 else repr(content)[:40], kw, q.designator, q.mask, scores, want)]
    return []


def replay_selection_end_to_end(model, obligation, version=None):
    import random
    rnd = random.Random(5)
    probs = []
    versions = [version] if version is not None else [iso.M2, iso.M3, iso.M4, 1, 2, 5, 7, 8, 10, 14]
    for v in versions:
        for t in range((6 if v < 7 else 14) if version is None else 30):
            content = ''.join(rnd.choice('ABCDEFGHIJKLMNOPQRSTUVWXYZ0123456789 $%*+-./:') for _ in range(rnd.randrange(1, 9)))
            if v == iso.M1:
                content = str(rnd.randrange(1, 9999))
            try:
                probs += selection_problems(content, dict(version=iso.version_name(v)))
            except ValueError:
                continue
            if probs:
                return dict(confirmed=True, call='automatic mask selection on real symbols', detail=probs[0])
    return dict(confirmed=False, detail='the automatically chosen mask is the ISO choice on the tried symbols')


def replay_encode_level(model, obligation, level, micro, version, boost):
    """native: encode() with this level / version / micro / boost flag on several contents; the level found in the symbol (format information, read by the
    reference decoder) is never below the request, is exactly the request without boosting, H is refused for Micro QR, a level is refused for M1"""
    from . import qrdecode
    order = {None: -1, 'L': 0, 'M': 1, 'Q': 2, 'H': 3}
    lv = None if level is None else level.upper()
    for content in ('1', '12', '1234567', 'AB', 'HELLO WORLD', 'hello', 'x' * 40, '9' * 60):
        call = 'encoder.encode(%r, error=%r, version=%r, micro=%r, boost_error=%r)' % (content, level, version, micro, boost)
        try:
            code = encoder.encode(content, error=level, version=version, micro=micro, boost_error=boost)
        except ValueError:
            continue
        except Exception as ex:
            return dict(confirmed=True, call=call, detail='raised %r' % (ex,))
        d = qrdecode.decode(code.matrix)
        is_micro = code.version < 1
        if d.problems:
            return dict(confirmed=True, call=call, detail='symbol problems %r' % (d.problems[:2],))
        got = d.level
        if lv == 'H' and is_micro:
            return dict(confirmed=True, call=call, detail='level H requested, a Micro QR symbol (%s) was returned' % d.version_name)
        if lv is not None and code.version == iso.M1:
            return dict(confirmed=True, call=call, detail='level %s requested, an M1 symbol (no error correction) was returned' % lv)
        if lv is not None and order.get(got, -1) < order[lv]:
            return dict(confirmed=True, call=call, detail='level %s requested, the symbol has level %r' % (lv, got))
        if not boost and code.version != iso.M1 and got != (lv or 'L'):
            return dict(confirmed=True, call=call, detail='boosting disabled, level %s requested (default L), the symbol has level %r' % (lv, got))
    return dict(confirmed=False, detail='levels as specified for the tried contents')


def replay_symbol_battery(model, obligation, prop=None):
    """fallback replay for obligations about the encoder that have no replay of their own: ~70 real symbols (all kinds of content, versions M1..40, levels,
    masks, eci, boosting on / off) are read back by the reference decoder: no structural problem, payload == content, reported metadata == decoded metadata,
    requested version / level / mask honoured"""
    from . import qrdecode
    cases = []
    for c in ('1', '12345678', '0123456789' * 4, 'A', 'HELLO WORLD', 'AC-42 $%*+-./:', 'a', 'hello, world', '\xe4\xf6\xfc', '点', '€ uro', b'\x00\xff\x80', 0, 1234567890123,
              ['AB', '12', 'ab'], [('12', None), ('AB', None)], 'x' * 100, '9' * 300, 'Z' * 200):
        cases.append((c, {}))
    for v in ('M1', 'M2', 'M3', 'M4', 1, 2, 6, 7, 9, 10, 13, 26, 27, 34, 40):
        cases.append(('1234' if v == 'M1' else 'AB12', dict(version=v)))
        if v not in ('M1',):
            cases.append(('AB12', dict(version=v, error='m', boost_error=False, mask=1)))
    for lv in 'LMQH':
        cases.append(('level test %s' % lv, dict(error=lv, micro=False, boost_error=False)))
    for mk in range(8):
        cases.append(('mask test', dict(mask=mk, micro=False)))
    for mk in range(4):
        cases.append(('12345', dict(mask=mk, version='M2')))
    cases += [('\xe4\xf6\xfc', dict(eci=True, encoding='utf-8')), ('\xe4\xf6\xfc', dict(eci=True)), ('汉字', dict(mode='hanzi')), ('点', dict(mode='kanji')),
              ('12', dict(mode='byte')), ('AB', dict(micro=True)), ('hello', dict(micro=True))]
    tried = 0
    for c, kw in cases:
        call = 'segno.make(%r, **%r)' % (c if len(repr(c)) < 50 else repr(c)[:50], kw)
        try:
            q = segno.make(c, **kw)
        except ValueError:
            continue
        except Exception as ex:
            return dict(confirmed=True, call=call, detail='raised %r' % (ex,))
        tried += 1
        d = qrdecode.decode(q.matrix)
        want = qrdecode.expected_payload(c, mode=kw.get('mode'), encoding=kw.get('encoding'))
        probs = list(d.problems)
        if d.payload != want:
            probs.append('payload %r, content %r' % (d.payload[:40], want[:40]))
        if str(d.version_name) != str(q.version) or (d.level or None) != (q.error or None) or d.mask != q.mask:
            probs.append('symbol holds %s-%s mask %s, object reports %s mask %s' % (d.version_name, d.level, d.mask, q.designator, q.mask))
        if 'version' in kw and str(kw['version']) != str(q.version):
            probs.append('version %r requested, %s returned' % (kw['version'], q.version))
        if 'mask' in kw and q.mask != kw['mask']:
            probs.append('mask %r requested, %r used' % (kw['mask'], q.mask))
        if kw.get('boost_error') is False and 'error' in kw and q.error != kw['error'].upper():
            probs.append('level %r requested without boosting, %r used' % (kw['error'], q.error))
        if probs:
            return dict(confirmed=True, call=call, detail='; '.join(str(p) for p in probs[:3]))
    return dict(confirmed=False, detail='%d real symbols read back without a problem' % tried)


def replay_sequence_mask(model, obligation, content, kw, mask):
    """native: make_sequence with this mask argument: a valid spelling is honoured by every symbol, everything else is refused with ValueError"""
    import ast
    k, m = ast.literal_eval(kw), ast.literal_eval(mask)
    call = 'segno.make_sequence(%r, mask=%r, **%r)' % (content if len(content) < 20 else content[:20] + '...', m, k)
    try:
        cm = None if m is None else int(m)
        valid = m is None or (not isinstance(m, float) and 0 <= cm <= 7)
    except (TypeError, ValueError):
        valid, cm = False, None
    try:
        seq = segno.make_sequence(content, mask=m, **k)
    except ValueError as ex:
        return dict(confirmed=valid, call=call, detail='refused: %s' % ex)
    except Exception as ex:
        return dict(confirmed=True, call=call, detail='raised %r' % (ex,))
    if not valid:
        return dict(confirmed=True, call=call, detail='accepted, masks %r' % [q.mask for q in seq])
    bad = cm is not None and any(q.mask != cm for q in seq)
    return dict(confirmed=bad, call=call, detail='masks of the symbols %r' % [q.mask for q in seq])
