"""Native replays (pure Python, run under /venv/bin/python against the working
tree): a solver counterexample is turned into arguments of the real function,
the real function is called, and the contract clause is evaluated natively with
the executable spec functions."""
import segno
from segno import encoder, consts
from . import iso


def _lc(name):
    return None if name is None else consts.ERROR_MAPPING[name]


def _ln(c):
    if c is None:
        return None
    return [k for k, v in consts.ERROR_MAPPING.items() if v == c][0]


def _mc(name):
    return consts.MODE_MAPPING[name]


def _segments_from_model(m):
    """real Segments object in the abstract state of the model"""
    segs = encoder.Segments()
    classes = (('count_numeric', 'numeric', None), ('count_alphanumeric', 'alphanumeric', None),
               ('count_byte', 'byte', 'iso-8859-1'), ('count_byte_noniso', 'byte', 'utf-8'),
               ('count_kanji', 'kanji', None), ('count_hanzi', 'hanzi', None))
    n = sum(max(0, int(m.get(k, 0))) for k, _, _ in classes)
    payload = int(m.get('payload_bits', 0))
    first = True
    for key, mode, enc in classes:
        for i in range(max(0, int(m.get(key, 0)))):
            bits = bytearray(payload if first else 0)
            first = False
            segs.segments.append(encoder._Segment(bits, 0, _mc(mode), enc))
            segs.modes.append(_mc(mode))
    segs.bit_length = payload
    return segs


def parts_of_segments(segs):
    count = {m: 0 for m in iso.MODES}
    n_eci = 0
    payload = 0
    names = {v: k for k, v in consts.MODE_MAPPING.items()}
    for s in segs.segments:
        count[names[s.mode]] += 1
        payload += len(s.bits)
        if s.mode == consts.MODE_BYTE and s.encoding != 'iso-8859-1':
            n_eci += 1
    return iso.Parts(count, n_eci, payload)


def replay_find_version(model, obligation, level, eci, micro, is_sa):
    segs = _segments_from_model(model)
    parts = parts_of_segments(segs)
    want = iso.first_fit(parts, level, eci, micro, is_sa)
    call = 'encoder.find_version(<Segments modes=%r bit_length=%d>, %r, eci=%r, micro=%r, is_sa=%r)' % (
        segs.modes, segs.bit_length, level, eci, micro, is_sa)
    try:
        got = encoder.find_version(segs, _lc(level), eci=eci, micro=micro, is_sa=is_sa)
        outcome = 'returned %r' % (iso.version_name(got),)
        ok = (got == want)
    except encoder.DataOverflowError as ex:
        outcome = 'raised DataOverflowError'
        ok = (want == iso.NONE_FITS)
    except Exception as ex:
        outcome = 'raised %r' % (ex,)
        ok = False
    wname = 'nothing fits' if want == iso.NONE_FITS else iso.version_name(want)
    return dict(confirmed=not ok, call=call,
                detail='real function %s; ISO first fit: %s (need per candidate: %s)' % (
                    outcome, wname, _need_table(parts, level, eci, is_sa, want)))


def _need_table(parts, level, eci, is_sa, want):
    out = []
    for v in iso.ALL_VERSIONS:
        if want != iso.NONE_FITS and abs(v - want) > 1:
            continue
        lv = iso.effective_level(v, level)
        if lv not in iso.levels_of(v):
            continue
        out.append('%s: need %s cap %s' % (iso.version_name(v), iso.need_bits(v, parts, eci, is_sa)
                                           if iso.modes_available(v, parts) else 'n/a', iso.data_capacity_bits(v, lv)))
    return '; '.join(out)


def replay_need(model, obligation, version, eci, is_sa):
    segs = _segments_from_model(model)
    parts = parts_of_segments(segs)
    avail = iso.modes_available(version, parts)
    call = 'Segments(modes=%r, bit_length=%d).bit_length_with_overhead(%r, %r, is_sa=%r)' % (
        segs.modes, segs.bit_length, version, eci, is_sa)
    try:
        got = segs.bit_length_with_overhead(version, eci, is_sa=is_sa)
        want = iso.need_bits(version, parts, eci, is_sa) if avail else None
        ok = avail and got == want
        return dict(confirmed=not ok, call=call, detail='returned %r, ISO need %r' % (got, want))
    except KeyError as ex:
        return dict(confirmed=bool(avail), call=call, detail='raised KeyError %r; modes available in version: %r' % (ex, avail))
    except Exception as ex:
        return dict(confirmed=True, call=call, detail='raised %r' % (ex,))


# ---------------------------------------------------------------- API-level lifting
_UNIT = {'numeric': ('7', 'numeric', None), 'alphanumeric': ('A', 'alphanumeric', None),
         'byte': ('a', 'byte', None), 'byte_noniso': ('ä', 'byte', 'utf-8'),
         'kanji': ('点', 'kanji', None), 'hanzi': ('汉', 'hanzi', None)}
_KEYS = (('count_numeric', 'numeric'), ('count_alphanumeric', 'alphanumeric'), ('count_byte', 'byte'),
         ('count_byte_noniso', 'byte_noniso'), ('count_kanji', 'kanji'), ('count_hanzi', 'hanzi'))


def _arrange(model):
    """order the classes so that no two adjacent parts have the same class
    (same-class neighbours would be merged by Segments.add_segment)"""
    pool = {cls: max(0, int(model.get(k, 0))) for k, cls in _KEYS}
    out = []
    prev = None
    total = sum(pool.values())
    for _ in range(total):
        cands = sorted((c for c in pool if pool[c] > 0 and c != prev), key=lambda c: -pool[c])
        if not cands:
            return None
        c = cands[0]
        pool[c] -= 1
        out.append(c)
        prev = c
    return out


def _content(order, grow, n_extra):
    parts = []
    for i, cls in enumerate(order):
        ch, mode, enc = _UNIT[cls]
        txt = ch * (1 + (n_extra if i == grow else 0))
        parts.append((txt, consts.MODE_MAPPING[mode], enc))
    return parts


def _call_encode(content, level, version, micro, eci):
    try:
        code = encoder.encode(content, error=level, version=version, micro=micro, eci=eci, boost_error=False)
        return 'return', code
    except Exception as ex:
        return 'raise', ex


def replay_encode_version(model, obligation, level, micro, eci, version):
    """search, around the solver's model, for real content on which encode()
    violates the clause; the spec side uses the real segments of that content"""
    order = _arrange(model)
    if order is None:
        return dict(confirmed=False, detail='model needs adjacent parts of one class (unreachable: they are merged)')
    req = None if version is None else (consts.MICRO_VERSION_MAPPING[version] if isinstance(version, str) else version)
    tried = 0
    for grow in range(min(len(order), 3)):
        for n_extra in range(0, 400):
            content = _content(order, grow, n_extra)
            try:
                segs = encoder.prepare_data(content, None, None)
            except Exception as ex:
                return dict(confirmed=None, detail='could not build content: %r' % (ex,))
            parts = parts_of_segments(segs)
            kind, val = _call_encode(content, level, version, micro, eci)
            tried += 1
            bad = None
            if req is None:
                want = iso.first_fit(parts, level, eci, micro)
                if kind == 'return' and val.version != want:
                    bad = 'returned version %s, ISO first fit %s' % (iso.version_name(val.version),
                                                                      'none' if want == iso.NONE_FITS else iso.version_name(want))
                elif kind == 'raise' and isinstance(val, encoder.DataOverflowError) and want != iso.NONE_FITS:
                    bad = 'DataOverflowError although %s fits' % (iso.version_name(want),)
                elif kind == 'raise' and not isinstance(val, encoder.DataOverflowError):
                    bad = 'raised %r' % (val,)
            else:
                fit = iso.fits(req, parts, level, eci, micro)
                lv = iso.effective_level(req, level)
                info = 'need %s bits, capacity %s' % (iso.need_bits(req, parts, eci) if iso.modes_available(req, parts) else 'n/a',
                                                      iso.data_capacity_bits(req, lv) if lv in iso.levels_of(req) else 'n/a')
                if kind == 'return' and not fit:
                    bad = 'version %s returned although the content does not fit (%s)' % (version, info)
                elif kind == 'return' and val.version != req:
                    bad = 'version %s returned, %s requested' % (val.version, version)
                elif kind == 'raise' and isinstance(val, encoder.DataOverflowError) and fit:
                    bad = 'DataOverflowError although the content fits version %s (%s)' % (version, info)
                elif kind == 'raise' and not isinstance(val, ValueError):
                    bad = 'raised %r' % (val,)
            if bad:
                short = [(t if len(t) < 12 else '%s*%d' % (t[0], len(t)), encoder.get_mode_name(m), e) for t, m, e in content]
                return dict(confirmed=True,
                            call='segno.encoder.encode(%r, error=%r, version=%r, micro=%r, eci=%r, boost_error=False)'
                                 % (short, level, version, micro, eci),
                            detail=bad)
    return dict(confirmed=False, detail='no failing content found among %d candidates around the model' % tried)


def replay_boost(model, obligation, version, level, eci, is_sa):
    segs = _segments_from_model(model)
    parts = parts_of_segments(segs)
    call = 'encoder.boost_error_level(%r, %r, <Segments modes=%r bit_length=%d>, %r, is_sa=%r)' % (
        version, level, segs.modes, segs.bit_length, eci, is_sa)
    try:
        got = encoder.boost_error_level(version, _lc(level), segs, eci, is_sa=is_sa)
    except Exception as ex:
        return dict(confirmed=True, call=call, detail='raised %r' % (ex,))
    want = level
    if level not in (None, 'H') and len(segs.segments) == 1:
        need = iso.need_bits(version, parts, eci, is_sa)
        for l in iso.levels_of(version):
            if l is not None and iso.LEVEL_ORDER[l] > iso.LEVEL_ORDER[level] and need <= iso.data_capacity_bits(version, l):
                if iso.LEVEL_ORDER[l] > iso.LEVEL_ORDER[want]:
                    want = l
    return dict(confirmed=_ln(got) != want, call=call,
                detail='returned %r; highest fitting level per ISO capacities: %r' % (_ln(got), want))


def replay_api_forward(model, obligation, **kw):
    """call the real public factory natively with a recording stand-in for the
    encoder entry point and sentinel arguments"""
    import inspect
    parts = obligation.split('.')
    fname, clause = parts[2], parts[3]
    seen = {}
    real_encode, real_seq = encoder.encode, encoder.encode_sequence
    seg = encoder._Segment(bytearray([1]), 1, consts.MODE_BYTE, 'iso-8859-1')

    def rec(name, fn):
        sig = inspect.signature(fn)

        def stand_in(*a, **k):
            seen[name] = dict(sig.bind(*a, **k).arguments)
            code = encoder.Code((bytearray([0]),), 1, 1, 0, [seg])
            return code if name == 'encode' else [code, code]
        return stand_in
    encoder.encode = rec('encode', real_encode)
    encoder.encode_sequence = rec('encode_sequence', real_seq)
    try:
        f = getattr(segno, fname)
        own = list(inspect.signature(f).parameters)
        toks = {p: object() for p in own}
        f(**toks)
    finally:
        encoder.encode, encoder.encode_sequence = real_encode, real_seq
    got = seen.get('encode') or seen.get('encode_sequence') or {}
    if clause.startswith('forwards_'):
        p = clause[len('forwards_'):]
        bad = got.get(p, '<default of encode>') is not toks.get(p)
        return dict(confirmed=bad, call='segno.%s(**sentinels) with encoder entry point recorded' % fname,
                    detail='parameter %r reaches the encoder as %r' % (p, got.get(p, '<not passed: default of encode() applies>')))
    if clause.startswith('fixes_'):
        p = clause[len('fixes_'):]
        want = {'make_qr': {'micro': False}, 'make_micro': {'micro': True, 'eci': False}}[fname][p]
        val = got.get(p, inspect.signature(real_encode).parameters[p].default)
        return dict(confirmed=val is not want, call='segno.%s(**sentinels)' % fname,
                    detail='parameter %r reaches the encoder as %r, must be %r' % (p, val, want))
    return dict(confirmed=None, detail='clause not replayable natively')


def replay_padding(model, obligation, version, level):
    """run the three real writers on a real Buffer of the model's length"""
    l = int(model.get('stream_length', 0))
    cap = consts.SYMBOL_CAPACITY[version][_lc(level)]
    ver = None if version >= 1 else version
    buff = encoder.Buffer([1] * l)
    encoder.write_terminator(buff, cap, ver, len(buff))
    l1 = len(buff)
    encoder.write_padding_bits(buff, version, len(buff))
    encoder.write_pad_codewords(buff, version, cap, len(buff))
    bits = list(buff.getbits())
    isocap = iso.data_capacity_bits(version, level)
    want = [1] * l + [iso.stream_bit_after_data(version, level, l, j) for j in range(l, isocap)]
    got = bits[:isocap]
    call = 'Buffer([1]*%d); write_terminator; write_padding_bits; write_pad_codewords  (version %s-%s, capacity %d)' % (
        l, iso.version_name(version), level, cap)
    if got != want or len(bits) < isocap:
        k = next((i for i, (a, b) in enumerate(zip(got, want)) if a != b), min(len(got), len(want)))
        def cw(bs):
            return ' '.join(''.join(map(str, bs[i:i + 8])) for i in range(l1 - l1 % 8, min(len(bs), l1 - l1 % 8 + 32), 8))
        return dict(confirmed=True, call=call,
                    detail='data bits differ from ISO 7.4.9/7.4.10 at bit %d (terminated length %d, total written %d); '
                           'real codewords from there: %s | ISO: %s' % (k, l1, len(bits), cw(bits), cw(want)))
    if 'exact_length' in (obligation or '') and len(bits) != isocap:
        return dict(confirmed=True, call=call, detail='buffer holds %d bits, capacity is %d' % (len(bits), isocap))
    return dict(confirmed=False, call=call, detail='first %d bits equal the ISO stream' % isocap)
