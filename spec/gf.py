"""GF(2^8) with the ISO/IEC 18004 field polynomial x^8+x^4+x^3+x^2+1 (0x11d),
generator element alpha = 2, and Reed-Solomon helpers.  Own tables, built from
the polynomial; segno's tables are only ever compared against these."""
PRIM = 0x11d

EXP = [0] * 512
LOG = [None] * 256
_x = 1
for _i in range(255):
    EXP[_i] = _x
    LOG[_x] = _i
    _x <<= 1
    if _x & 0x100:
        _x ^= PRIM
for _i in range(255, 512):
    EXP[_i] = EXP[_i - 255]


def mul(a, b):
    if a == 0 or b == 0:
        return 0
    return EXP[LOG[a] + LOG[b]]


def mul_slow(a, b):
    """carry-less multiplication modulo the field polynomial (definition)"""
    r = 0
    while b:
        if b & 1:
            r ^= a
        a <<= 1
        if a & 0x100:
            a ^= PRIM
        b >>= 1
    return r


def alpha_pow(k):
    return EXP[k % 255]


def inv(a):
    return EXP[255 - LOG[a]]


def generator_poly(ec):
    """coefficients (highest degree first, monic) of prod_{j<ec} (x - alpha^j)"""
    g = [1]
    for j in range(ec):
        ng = [0] * (len(g) + 1)
        for i, c in enumerate(g):
            ng[i] ^= c
            ng[i + 1] ^= mul(c, alpha_pow(j))
        g = ng
    return g


def syndromes(codeword, ec):
    """S_j = c(alpha^j), first codeword = highest-degree coefficient"""
    out = []
    for j in range(ec):
        s = 0
        for c in codeword:
            s = mul(s, alpha_pow(j)) ^ c
        out.append(s)
    return out


def rs_remainder(data, ec):
    g = generator_poly(ec)
    rem = list(data) + [0] * ec
    for k in range(len(data)):
        c = rem[k]
        if c:
            for n in range(1, len(g)):
                rem[k + n] ^= mul(g[n], c)
    return rem[len(data):]
