"""ISO/IEC 18004 7.8.3 evaluation of data masking results, written from the
standard and from property C06 (every occurrence counts; the symbol edge may
stand in for the light area)."""
N1, N2, N3, N4 = 3, 3, 40, 10
PATTERN = (1, 0, 1, 1, 1, 0, 1)


def n1_line(line):
    score = 0
    run = 0
    prev = None
    for b in line:
        if b == prev:
            run += 1
        else:
            if run >= 5:
                score += N1 + (run - 5)
            run = 1
            prev = b
    if run >= 5:
        score += N1 + (run - 5)
    return score


def n1(matrix):
    size = len(matrix)
    s = 0
    for i in range(size):
        s += n1_line(matrix[i])
        s += n1_line([matrix[r][i] for r in range(size)])
    return s


def n2(matrix):
    size = len(matrix)
    s = 0
    for i in range(size - 1):
        for j in range(size - 1):
            b = matrix[i][j]
            if b == matrix[i][j + 1] == matrix[i + 1][j] == matrix[i + 1][j + 1]:
                s += N2
    return s


def n3_line(line):
    """40 per occurrence of 1011101 that has four light modules - or the symbol edge
    within those four - before or after it"""
    n = len(line)
    s = 0
    for p in range(n - 6):
        if tuple(line[p:p + 7]) != PATTERN:
            continue
        before = line[max(0, p - 4):p]
        after = line[p + 7:p + 11]
        if not any(before) or not any(after):
            s += N3
    return s


def n3(matrix):
    size = len(matrix)
    s = 0
    for i in range(size):
        s += n3_line(list(matrix[i]))
        s += n3_line([matrix[r][i] for r in range(size)])
    return s


def n4_from_count(dark, size):
    """10 per 5% deviation of the dark ratio from 50%, in exact integer arithmetic:
    floor(|100*dark/size^2 - 50| / 5) = floor(|100*dark - 50*size^2| / (5*size^2))"""
    total = size * size
    return N4 * (abs(100 * dark - 50 * total) // (5 * total))


def n4(matrix):
    size = len(matrix)
    dark = sum(sum(1 for b in row if b) for row in matrix)
    return n4_from_count(dark, size)


def penalty(matrix):
    return n1(matrix) + n2(matrix) + n3(matrix) + n4(matrix)


def micro_score(matrix):
    """7.8.3.2: SUM1 dark modules of the right edge, SUM2 of the lower edge (the module of
    the timing pattern in row / column 0 excluded)"""
    size = len(matrix)
    s1 = sum(matrix[i][size - 1] for i in range(1, size))
    s2 = sum(matrix[size - 1][j] for j in range(1, size))
    return s1 * 16 + s2 if s1 <= s2 else s2 * 16 + s1
