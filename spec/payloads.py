"""\
Independent parsers and postcondition checkers for the payload formats that
``segno.helpers`` produces (WIFI, MeCard, vCard 3.0, geo URI, mailto URI,
EPC QR code).

Everything in here is written from the *format definitions*, not from the
helper code:

* MeCard   -- NTT docomo "MECARD" bar code function guide: ``MECARD:`` followed
              by ``KEY:value;`` fields, terminated by an additional ``;``;
              the characters ``\\ ; : ,`` are escaped with a backslash.
              Keys: N, SOUND, TEL, TEL-AV, EMAIL, NOTE, BDAY, ADR, URL, NICKNAME.
              ADR carries seven comma separated parts (PO box, room number,
              house number, city, prefecture, zip code, country).
* WIFI     -- ZXing "Barcode Contents" / WPA3 specification section 7:
              ``WIFI:T:<type>;S:<ssid>;P:<password>;H:<true|false>;;``
              same escaping, terminated by an additional ``;``.
* vCard    -- RFC 2426 / RFC 2425 (vCard 3.0) content lines
              ``[group.]NAME*(;param):value CRLF`` with line folding
              (CRLF followed by one white space continues the line); text values
              escape ``\\ ; ,`` and newline (``\\n``).
* geo      -- RFC 5870 ``geo:<lat>,<lon>`` with
              ``coordinate = [ "-" ] 1*DIGIT [ "." 1*DIGIT ]``.
* mailto   -- RFC 6068 on top of the RFC 3986 character repertoire.
* EPC      -- EPC069-12 v2.1 "Quick Response Code: Guidelines to Enable Data
              Capture for the Initiation of a SEPA Credit Transfer", version 002
              layout (12 elements, the last populated element is not followed
              by a separator), at most 331 bytes, error correction level M,
              QR code version <= 13.

The module is pure standard library and MUST NOT import segno.

The ``parse_*`` functions are strict and raise :class:`ValueError` for malformed
input.  The ``check_*`` functions never raise: they return a list of problem
descriptions (an empty list means that the postcondition holds).
"""
import re
import math
from decimal import Decimal
from urllib.parse import unquote

__all__ = [
    'split_unescaped', 'unescape', 'parse_mecard', 'parse_wifi', 'parse_vcard',
    'vcard_unescape', 'split_vcard_value', 'parse_geo', 'parse_mailto',
    'parse_epc', 'EPC_CHARSETS', 'check_wifi', 'check_mecard', 'check_vcard',
    'check_geo', 'check_mailto', 'check_epc', 'check_epc_symbol',
    'epc_input_violations', 'MECARD_KEYS', 'VCARD_PROPERTIES',
]

# --------------------------------------------------------------------------
# Backslash escaping (MeCard / WIFI)
# --------------------------------------------------------------------------


def split_unescaped(s, sep=';'):
    """\
    Splits `s` at every `sep` which is not escaped, i.e. which is not preceded
    by an odd number of backslashes. The parts are returned *raw* (escape
    sequences are kept). ``sep.join(result) == s`` always holds.
    """
    if not isinstance(sep, str) or len(sep) != 1 or sep == '\\':
        raise ValueError('separator must be a single character other than backslash')
    parts = []
    cur = []
    i, n = 0, len(s)
    while i < n:
        c = s[i]
        if c == '\\':
            # The backslash consumes the following character (if any)
            cur.append(s[i:i + 2])
            i += 2
            continue
        if c == sep:
            parts.append(''.join(cur))
            cur = []
        else:
            cur.append(c)
        i += 1
    parts.append(''.join(cur))
    return parts


def unescape(s):
    """\
    Removes one level of backslash escaping: ``\\x`` becomes ``x`` for any
    character ``x``. A dangling backslash at the end raises ValueError.
    """
    out = []
    i, n = 0, len(s)
    while i < n:
        c = s[i]
        if c == '\\':
            if i + 1 >= n:
                raise ValueError('dangling backslash at the end of the value')
            out.append(s[i + 1])
            i += 2
        else:
            out.append(c)
            i += 1
    return ''.join(out)


_FIELD_KEY = re.compile(r'[A-Za-z][A-Za-z0-9-]*')


def _scan_fields(payload, prefix):
    """\
    Scans a MeCard-like payload. Never raises.

    Returns ``(fields, problems)``: `fields` is a list of ``(key, raw value)``
    and `problems` the list of syntax violations (empty if well-formed).
    """
    problems = []
    if not isinstance(payload, str):
        return [], [f'payload is not a str but {type(payload).__name__}']
    if not payload.startswith(prefix):
        return [], [f'missing {prefix!r} prefix']
    body = payload[len(prefix):]
    parts = split_unescaped(body, ';')
    if len(parts) >= 3 and parts[-1] == '' and parts[-2] == '':
        parts = parts[:-2]
    else:
        problems.append("missing ';;' terminator (payload must end with an unescaped ';;')")
        if parts[-1] == '':
            parts = parts[:-1]
        else:
            problems.append(f'last field {parts[-1]!r} is not closed by an unescaped ";"')
    fields = []
    for idx, part in enumerate(parts):
        if part == '':
            problems.append(f'empty field #{idx}: a ";;" terminator occurs before the end of the payload')
            continue
        key, colon, raw = part.partition(':')
        if not colon:
            problems.append(f'field #{idx} {part!r} has no ":"')
            continue
        if not _FIELD_KEY.fullmatch(key):
            problems.append(f'field #{idx} {part!r} has an invalid key {key!r}')
            continue
        fields.append((key, raw))
    return fields, problems


def _parse_fields(payload, prefix, raw):
    fields, problems = _scan_fields(payload, prefix)
    if problems:
        raise ValueError(problems[0])
    if raw:
        return fields
    return [(k, unescape(v)) for k, v in fields]


def parse_mecard(payload, raw=False):
    """\
    Parses ``MECARD:KEY:value;...;;`` and returns ``[(key, value), ...]`` in
    order of appearance; the values are unescaped (unless `raw` is true).

    Raises ValueError if the prefix or the ``;;`` terminator is missing, if
    anything follows the terminator, or if a field has no ``:``.
    """
    return _parse_fields(payload, 'MECARD:', raw)


def parse_wifi(payload, raw=False):
    """\
    Parses ``WIFI:T:..;S:..;P:..;H:..;;``; same rules as :func:`parse_mecard`.
    """
    return _parse_fields(payload, 'WIFI:', raw)


def _safe_unescape(raw, what, problems):
    try:
        return unescape(raw)
    except ValueError as ex:
        problems.append(f'{what}: {ex} (raw {raw!r})')
        return None


def _is_supplied(val):
    """None, '' and empty sequences count as "not supplied"."""
    if val is None:
        return False
    if isinstance(val, (str, bytes, list, tuple, set, frozenset, dict)):
        return len(val) > 0
    return True


def _multi(val):
    """Normalizes "str, iterable of strings, or None" to a list of str."""
    if val is None:
        return []
    if isinstance(val, str):
        return [val] if val else []
    try:
        return [str(v) for v in val]
    except TypeError:
        return [str(val)]


# --------------------------------------------------------------------------
# WIFI
# --------------------------------------------------------------------------

def check_wifi(payload, ssid, password=None, security=None, hidden=False):
    """\
    Postcondition of ``make_wifi_data(ssid, password, security, hidden)``.

    Expected fields, in this order and nothing else:

    * ``T:<security>`` iff a security value was given (``T:nopass`` is tolerated
      when none was given). The token is compared case-insensitively since the
      authentication type is an enumerated token (WEP / WPA / nopass).
    * ``S:<ssid>`` always
    * ``P:<password>`` iff a password was given (for ``''`` the field may be
      absent or empty)
    * ``H:true`` iff hidden (``H:false`` is tolerated when not hidden)
    """
    problems = []
    try:
        fields, syntax = _scan_fields(payload, 'WIFI:')
        problems.extend(syntax)
        if syntax and not fields and not str(payload).startswith('WIFI:'):
            return problems
        vals = []
        for key, raw in fields:
            vals.append((key, _safe_unescape(raw, f'field {key}', problems), raw))
        i = 0
        # T
        if i < len(vals) and vals[i][0] == 'T':
            val = vals[i][1]
            if security:
                sec = str(security)
                if sec == 'nopass':
                    ok = val == 'nopass'
                else:
                    ok = val is not None and (val == sec or val == sec.upper() or val.upper() == sec.upper())
                if not ok:
                    problems.append(f'T: recovered value {val!r} differs from security {sec!r}')
            elif val != 'nopass':
                problems.append(f'T: no security given but field T carries {val!r}')
            i += 1
        elif security:
            problems.append(f'T: field missing (or not first) although security={security!r}')
        # S
        if i < len(vals) and vals[i][0] == 'S':
            val = vals[i][1]
            if val != str(ssid):
                problems.append(f'S: recovered value {val!r} differs from ssid {str(ssid)!r}')
            i += 1
        else:
            problems.append('S: field missing or out of order')
        # P
        if i < len(vals) and vals[i][0] == 'P':
            val = vals[i][1]
            if password is None:
                problems.append(f'P: no password given but field P carries {val!r}')
            elif val != str(password):
                problems.append(f'P: recovered value {val!r} differs from password {str(password)!r}')
            i += 1
        elif password is not None and str(password) != '':
            problems.append('P: field missing or out of order although a password was given')
        # H
        if i < len(vals) and vals[i][0] == 'H':
            val = vals[i][1]
            if hidden and val != 'true':
                problems.append(f'H: expected "true", got {val!r}')
            if not hidden and val != 'false':
                problems.append(f'H: network is not hidden but field H carries {val!r}')
            i += 1
        elif hidden:
            problems.append('H: field missing or out of order although hidden=True')
        for key, val, raw in vals[i:]:
            problems.append(f'unexpected (forged, duplicate or out-of-order) field {key}:{raw}')
    except Exception as ex:  # pragma: no cover -- the checkers must not raise
        problems.append(f'checker error: {type(ex).__name__}: {ex}')
    return problems


# --------------------------------------------------------------------------
# MeCard
# --------------------------------------------------------------------------

#: helper parameter -> documented NTT docomo MeCard key
MECARD_KEYS = {
    'name': 'N',
    'reading': 'SOUND',
    'phone': 'TEL',
    'videophone': 'TEL-AV',
    'email': 'EMAIL',
    'memo': 'NOTE',
    'birthday': 'BDAY',
    'url': 'URL',
    'nickname': 'NICKNAME',
}

_MECARD_MULTI = ('email', 'phone', 'videophone', 'url')
_MECARD_ADR = ('pobox', 'roomno', 'houseno', 'city', 'prefecture', 'zipcode', 'country')


def check_mecard(payload, key_aliases=None, **fields):
    """\
    Postcondition of ``make_mecard_data(**fields)``.

    Every supplied value must appear as its own field under the documented
    MeCard key, the value recovered verbatim after unescaping. Multi-valued
    parameters (email, phone, videophone, url) produce one field per value, in
    the given order. The address parameters produce a single ADR field with
    exactly seven parts separated by unescaped commas. No additional fields.

    `key_aliases` (optional): mapping ``{documented key: key found in payload}``,
    e.g. ``{'TEL-AV': 'TELAV'}``. It renames the aliased keys before the
    comparison so that the values can still be checked when a producer uses a
    non-standard key. Without it, non-standard keys are reported.
    """
    problems = []
    try:
        unknown = [k for k in fields if k not in MECARD_KEYS and k not in _MECARD_ADR]
        for k in unknown:
            problems.append(f'unknown parameter {k!r}')
        if 'name' not in fields or fields['name'] is None:
            problems.append('parameter "name" is mandatory')
        # Expected fields
        expected = {}
        for param, key in MECARD_KEYS.items():
            val = fields.get(param)
            if param == 'name':
                if val is not None:
                    expected.setdefault(key, []).append(str(val))
                continue
            if not _is_supplied(val):
                continue
            if param in _MECARD_MULTI:
                vals = _multi(val)
            elif param == 'birthday' and hasattr(val, 'strftime'):
                vals = [val.strftime('%Y%m%d')]
            else:
                vals = [str(val)]
            if vals:
                expected.setdefault(key, []).extend(vals)
        adr = [fields.get(p) for p in _MECARD_ADR]
        if any(_is_supplied(p) for p in adr):
            expected['ADR'] = [tuple('' if not _is_supplied(p) else str(p) for p in adr)]
        # Found fields
        parsed, syntax = _scan_fields(payload, 'MECARD:')
        problems.extend(syntax)
        if syntax and not parsed and not str(payload).startswith('MECARD:'):
            return problems
        reverse = {v: k for k, v in (key_aliases or {}).items()}
        found = {}
        for key, raw in parsed:
            found.setdefault(reverse.get(key, key), []).append(raw)
        for key, exp_vals in expected.items():
            raws = found.get(key, [])
            if len(raws) != len(exp_vals):
                problems.append(f'{key}: expected {len(exp_vals)} field(s), found {len(raws)}')
            for n, (exp, raw) in enumerate(zip(exp_vals, raws)):
                what = f'{key}[{n}]'
                if key == 'ADR':
                    parts = split_unescaped(raw, ',')
                    if len(parts) != 7:
                        problems.append(f'{what}: expected 7 comma separated parts, found {len(parts)} in {raw!r}')
                    for pname, e, p in zip(_MECARD_ADR, exp, parts):
                        val = _safe_unescape(p, f'{what}.{pname}', problems)
                        if val is not None and val != e:
                            problems.append(f'{what}.{pname}: recovered value {val!r} differs from input {e!r}')
                    continue
                val = _safe_unescape(raw, what, problems)
                if val is not None and val != exp:
                    problems.append(f'{what}: recovered value {val!r} differs from input {exp!r}')
        for key, raws in found.items():
            if key not in expected:
                for raw in raws:
                    problems.append(f'unexpected field {key}:{raw}')
    except Exception as ex:  # pragma: no cover -- the checkers must not raise
        problems.append(f'checker error: {type(ex).__name__}: {ex}')
    return problems


# --------------------------------------------------------------------------
# vCard 3.0
# --------------------------------------------------------------------------

_VC_NAME = re.compile(r'(?:[A-Za-z0-9-]+\.)?[A-Za-z0-9-]+')
_VC_PARAM = re.compile(r'[A-Za-z0-9-]+(?:=.*)?', re.DOTALL)


def _split_outside_quotes(s, sep):
    """Splits `s` at `sep` not inside double quotes (parameter values)."""
    parts, cur, quoted = [], [], False
    for c in s:
        if c == '"':
            quoted = not quoted
        if c == sep and not quoted:
            parts.append(''.join(cur))
            cur = []
        else:
            cur.append(c)
    parts.append(''.join(cur))
    return parts


def _scan_vcard(payload, unfold=True):
    """\
    Scans a vCard. Never raises. Returns ``(lines, problems)``; `lines` are
    the content lines between VERSION and END as ``(name-with-params, raw value)``.
    """
    problems = []
    if not isinstance(payload, str):
        return [], [f'payload is not a str but {type(payload).__name__}']
    physical = payload.replace('\r\n', '\n').split('\n')
    if physical and physical[-1] == '':
        physical.pop()  # line terminator of the last line
    logical = []
    for no, line in enumerate(physical, start=1):
        if unfold and line[:1] in (' ', '\t'):
            if not logical:
                problems.append(f'line {no}: continuation line without a preceding line')
            else:
                logical[-1][1] += line[1:]
            continue
        logical.append([no, line])
    content = []
    for no, line in logical:
        if line == '':
            problems.append(f'line {no}: empty line')
            continue
        # first ":" outside of a quoted parameter value
        head = _split_outside_quotes(line, ':')
        if len(head) < 2:
            problems.append(f'line {no}: {line!r} has no ":"')
            continue
        lhs = head[0]
        value = line[len(lhs) + 1:]
        pieces = _split_outside_quotes(lhs, ';')
        if not _VC_NAME.fullmatch(pieces[0]):
            problems.append(f'line {no}: {line!r} has an invalid property name {pieces[0]!r}')
            continue
        bad = [p for p in pieces[1:] if not _VC_PARAM.fullmatch(p)]
        if bad:
            problems.append(f'line {no}: {line!r} has an invalid parameter {bad[0]!r}')
            continue
        content.append((no, lhs, value))
    if not content:
        problems.append('no content lines')
        return [], problems

    def is_line(entry, name, value):
        return entry[1].upper() == name and entry[2].strip().upper() == value

    lines = content
    if not is_line(lines[0], 'BEGIN', 'VCARD'):
        problems.append(f'first line is not BEGIN:VCARD but {lines[0][1]}:{lines[0][2]}')
    else:
        lines = lines[1:]
    if not lines or not is_line(lines[0], 'VERSION', '3.0'):
        problems.append('second line is not VERSION:3.0')
    else:
        lines = lines[1:]
    if not lines or not is_line(lines[-1], 'END', 'VCARD'):
        problems.append('last line is not END:VCARD')
    else:
        lines = lines[:-1]
    result = []
    for no, lhs, value in lines:
        up = lhs.upper()
        if up == 'END':
            problems.append(f'line {no}: END:{value} before the last line (content after END)')
        elif up == 'BEGIN':
            problems.append(f'line {no}: additional BEGIN:{value}')
        elif up == 'VERSION':
            problems.append(f'line {no}: additional VERSION:{value}')
        result.append((lhs, value))
    return result, problems


def parse_vcard(payload, unfold=True):
    """\
    Parses a vCard 3.0 object. Lines are separated by CRLF or LF; folded lines
    (line break followed by a space or tab) are unfolded unless `unfold` is
    false. The first line must be ``BEGIN:VCARD``, the second ``VERSION:3.0``,
    the last ``END:VCARD``.

    Returns the remaining content lines as ``[(name-with-params, raw value)]``.
    A bare CR is *not* a line separator and is kept in the raw value (use
    :func:`check_vcard` to flag it).

    Raises ValueError if a line is empty or has no ``:``, has an invalid name,
    if BEGIN / VERSION / END are missing or if anything follows END.
    """
    lines, problems = _scan_vcard(payload, unfold=unfold)
    if problems:
        raise ValueError(problems[0])
    return lines


def split_vcard_value(value, sep=';', strict=False):
    """\
    Splits a vCard value at unescaped `sep` and unescapes every part
    (``\\\\`` -> backslash, ``\\;`` -> ``;``, ``\\,`` -> ``,``, ``\\n`` / ``\\N`` ->
    newline). Pass ``sep=None`` to unescape without splitting.

    Escape sequences which RFC 2426 does not define are kept literally
    (backslash included), as does a dangling backslash; with `strict` they
    raise ValueError.
    """
    parts = [value] if sep is None else split_unescaped(value, sep)
    return [_vcard_unescape_part(p, strict) for p in parts]


def vcard_unescape(value, strict=False):
    """Unescapes a single vCard text value (no splitting)."""
    return _vcard_unescape_part(value, strict)


_VC_ESC = {'\\': '\\', ';': ';', ',': ',', 'n': '\n', 'N': '\n'}


def _vcard_unescape_part(s, strict):
    out = []
    i, n = 0, len(s)
    while i < n:
        c = s[i]
        if c == '\\':
            nxt = s[i + 1:i + 2]
            if nxt in _VC_ESC and nxt != '':
                out.append(_VC_ESC[nxt])
                i += 2
                continue
            if strict:
                raise ValueError(f'invalid escape sequence {s[i:i + 2]!r} in {s!r}')
            out.append(c)
            i += 1
            continue
        out.append(c)
        i += 1
    return ''.join(out)


#: helper parameter -> (vCard 3.0 property incl. parameters, kind, multi-valued)
VCARD_PROPERTIES = {
    'org': ('ORG', 'text', False),
    'email': ('EMAIL', 'text', True),
    'phone': ('TEL', 'text', True),
    'fax': ('TEL;TYPE=FAX', 'text', True),
    'videophone': ('TEL;TYPE=VIDEO', 'text', True),
    'cellphone': ('TEL;TYPE=CELL', 'text', True),
    'homephone': ('TEL;TYPE=HOME', 'text', True),
    'workphone': ('TEL;TYPE=WORK', 'text', True),
    'url': ('URL', 'uri', True),
    'title': ('TITLE', 'text', True),
    'photo_uri': ('PHOTO;VALUE=URI', 'uri', True),
    'nickname': ('NICKNAME', 'text', False),
    'birthday': ('BDAY', 'date', False),
    'source': ('SOURCE', 'uri', False),
    'memo': ('NOTE', 'text', False),
    'rev': ('REV', 'date', False),
}
_VCARD_ADR = ('pobox', 'street', 'city', 'region', 'zipcode', 'country')
_VCARD_OTHER = ('name', 'displayname', 'lat', 'lng')
_DECIMAL = re.compile(r'-?[0-9]+(?:\.[0-9]+)?')


def _norm_vc_key(lhs):
    pieces = _split_outside_quotes(lhs, ';')
    return ';'.join([pieces[0].upper()] + sorted(p.upper() for p in pieces[1:]))


def _check_vc_text(what, raw, exp, problems):
    if len(split_unescaped(raw, ';')) != 1:
        problems.append(f'{what}: unescaped ";" in text value {raw!r}')
    if len(split_unescaped(raw, ',')) != 1:
        problems.append(f'{what}: unescaped "," in text value {raw!r}')
    val = vcard_unescape(raw)
    if val != exp:
        problems.append(f'{what}: recovered value {val!r} differs from input {exp!r}')


def check_vcard(payload, **fields):
    """\
    Postcondition of ``make_vcard_data(**fields)`` (name and displayname are
    passed as keywords, too).

    * the payload is a well-formed vCard 3.0 object: BEGIN:VCARD, VERSION:3.0,
      then N and FN, the further properties, END:VCARD as last line;
    * every supplied value occupies exactly one content line: the number of
      content lines is exactly the number of supplied values, no value contains
      a raw CR or LF;
    * every value is recovered after vCard unescaping. ``name`` is a structured
      value by documentation (its ``;`` separate family name, given name ...),
      it is compared component-wise. URI-valued properties (URL, SOURCE, PHOTO)
      are accepted verbatim or escaped.
    """
    problems = []
    try:
        for k in fields:
            if k not in VCARD_PROPERTIES and k not in _VCARD_ADR and k not in _VCARD_OTHER:
                problems.append(f'unknown parameter {k!r}')
        name = fields.get('name')
        displayname = fields.get('displayname')
        if name is None:
            problems.append('parameter "name" is mandatory')
        if displayname is None:
            problems.append('parameter "displayname" is mandatory')
        lines, syntax = _scan_vcard(payload)
        problems.extend(syntax)
        if not isinstance(payload, str):
            return problems
        for lhs, raw in lines:
            if '\r' in raw or '\n' in raw:
                problems.append(f'{lhs}: raw CR/LF inside the value {raw!r}')
        if not payload.endswith('\n'):
            problems.append('last line is not terminated by a line break')
        # N and FN come first
        rest = list(lines)
        if rest and rest[0][0].upper() == 'N':
            raw = rest.pop(0)[1]
            if name is not None:
                exp = str(name).split(';')
                got = split_unescaped(raw, ';')
                if len(got) > 5:
                    problems.append(f'N: {len(got)} components, at most 5 are allowed: {raw!r}')
                if len(got) != len(exp):
                    problems.append(f'N: {len(got)} component(s) found, expected {len(exp)}: {raw!r}')
                for n, (e, g) in enumerate(zip(exp, got)):
                    val = vcard_unescape(g)
                    if val != e:
                        problems.append(f'N[{n}]: recovered value {val!r} differs from input {e!r}')
        else:
            problems.append('N: third line is not the N property')
        if rest and rest[0][0].upper() == 'FN':
            raw = rest.pop(0)[1]
            if displayname is not None:
                _check_vc_text('FN', raw, str(displayname), problems)
        else:
            problems.append('FN: fourth line is not the FN property')
        # Expected further properties
        expected = {}
        for param, (key, kind, multi) in VCARD_PROPERTIES.items():
            val = fields.get(param)
            if not _is_supplied(val):
                continue
            if multi:
                vals = _multi(val)
            elif kind == 'date' and hasattr(val, 'strftime'):
                alts = {val.strftime('%Y-%m-%d')}
                if hasattr(val, 'isoformat'):
                    alts.add(val.isoformat())
                vals = [alts]
            else:
                vals = [str(val)]
            if vals:
                expected[_norm_vc_key(key)] = (kind, vals)
        adr = [fields.get(p) for p in _VCARD_ADR]
        if any(_is_supplied(p) for p in adr):
            parts = ['' if not _is_supplied(p) else str(p) for p in adr]
            expected['ADR'] = ('adr', [tuple([parts[0], ''] + parts[1:])])
        lat, lng = fields.get('lat'), fields.get('lng')
        if lat is not None and lng is not None:
            expected['GEO'] = ('geo', [(lat, lng)])
        elif lat is not None or lng is not None:
            problems.append('GEO: incomplete geo information (only one of lat / lng) was not refused')
        found = {}
        for lhs, raw in rest:
            found.setdefault(_norm_vc_key(lhs), []).append(raw)
        for key, (kind, exp_vals) in expected.items():
            raws = found.get(key, [])
            if len(raws) != len(exp_vals):
                problems.append(f'{key}: expected {len(exp_vals)} content line(s), found {len(raws)}')
            for n, (exp, raw) in enumerate(zip(exp_vals, raws)):
                what = f'{key}[{n}]'
                if kind == 'text':
                    _check_vc_text(what, raw, exp, problems)
                elif kind == 'uri':
                    if raw != exp and vcard_unescape(raw) != exp:
                        problems.append(f'{what}: recovered value {vcard_unescape(raw)!r} differs from input {exp!r}')
                elif kind == 'date':
                    if isinstance(exp, set):
                        if raw not in exp:
                            problems.append(f'{what}: value {raw!r} is not one of {sorted(exp)!r}')
                    elif raw != exp:
                        problems.append(f'{what}: value {raw!r} differs from input {exp!r}')
                elif kind == 'adr':
                    parts = split_unescaped(raw, ';')
                    if len(parts) != 7:
                        problems.append(f'{what}: expected 7 components, found {len(parts)} in {raw!r}')
                    names = ('pobox', 'extended', 'street', 'city', 'region', 'zipcode', 'country')
                    for pname, e, p in zip(names, exp, parts):
                        if len(split_unescaped(p, ',')) != 1:
                            problems.append(f'{what}.{pname}: unescaped "," in {p!r}')
                        val = vcard_unescape(p)
                        if val != e:
                            problems.append(f'{what}.{pname}: recovered value {val!r} differs from input {e!r}')
                elif kind == 'geo':
                    parts = raw.split(';')
                    if len(parts) != 2 or not all(_DECIMAL.fullmatch(p) for p in parts):
                        problems.append(f'{what}: {raw!r} is not "<decimal>;<decimal>"')
                    try:
                        got = [float(p) for p in parts]
                        if len(got) == 2:
                            for label, g, e in zip(('lat', 'lng'), got, exp):
                                if not abs(g - float(e)) <= 5e-7:
                                    problems.append(f'{what}.{label}: {g!r} differs from input {e!r}')
                    except ValueError:
                        pass
        for key, raws in found.items():
            if key not in expected:
                for raw in raws:
                    problems.append(f'unexpected content line {key}:{raw}')
    except Exception as ex:  # pragma: no cover -- the checkers must not raise
        problems.append(f'checker error: {type(ex).__name__}: {ex}')
    return problems


# --------------------------------------------------------------------------
# geo URI (RFC 5870)
# --------------------------------------------------------------------------

_GEO = re.compile(r'[Gg][Ee][Oo]:(-?[0-9]+(?:\.[0-9]+)?),(-?[0-9]+(?:\.[0-9]+)?)')


def parse_geo(uri):
    """\
    Parses ``geo:<lat>,<lng>`` (2-D form without altitude and parameters) with
    the strict coordinate syntax of RFC 5870 (optional ``-``, digits, optional
    fraction; no ``+``, no exponent, no white space) and returns
    ``(lat, lng)`` as floats. Raises ValueError otherwise.
    """
    if not isinstance(uri, str):
        raise ValueError(f'geo URI is not a str but {type(uri).__name__}')
    m = _GEO.fullmatch(uri)
    if not m:
        raise ValueError(f'not a valid geo URI: {uri!r}')
    return float(m.group(1)), float(m.group(2))


def check_geo(payload, lat, lng, tol=5e-9):
    """\
    Postcondition of ``make_geo_data(lat, lng)``: a valid geo URI whose
    coordinates equal the inputs (up to `tol`, half a unit of the 8th decimal,
    about 0.5 mm) and lie within the WGS-84 range demanded by RFC 5870.
    """
    problems = []
    try:
        try:
            plat, plng = parse_geo(payload)
        except ValueError as ex:
            return [str(ex)]
        for label, got, exp, bound in (('lat', plat, lat, 90), ('lng', plng, lng, 180)):
            try:
                e = float(exp)
            except (TypeError, ValueError):
                problems.append(f'{label}: input {exp!r} is not a number')
                continue
            if not math.isfinite(e):
                problems.append(f'{label}: input {exp!r} is not finite')
                continue
            if not abs(got - e) <= tol * (1 + 1e-6):
                problems.append(f'{label}: {got!r} differs from input {e!r}')
            if not -bound <= got <= bound:
                problems.append(f'{label}: {got!r} is outside of the WGS-84 range -{bound} .. {bound}')
    except Exception as ex:  # pragma: no cover -- the checkers must not raise
        problems.append(f'checker error: {type(ex).__name__}: {ex}')
    return problems


# --------------------------------------------------------------------------
# mailto URI (RFC 6068 / RFC 3986)
# --------------------------------------------------------------------------

_UNRESERVED = frozenset('ABCDEFGHIJKLMNOPQRSTUVWXYZabcdefghijklmnopqrstuvwxyz0123456789-._~')
_SUB_DELIMS = frozenset("!$&'()*+,;=")
_PCHAR = _UNRESERVED | _SUB_DELIMS | frozenset(':@')
_QUERY = _PCHAR | frozenset('/?')
_HEX = frozenset('0123456789ABCDEFabcdef')


def _validate_uri_part(s, allowed, what):
    i, n = 0, len(s)
    while i < n:
        c = s[i]
        if c == '%':
            tri = s[i:i + 3]
            if len(tri) != 3 or tri[1] not in _HEX or tri[2] not in _HEX:
                raise ValueError(f'{what}: invalid percent-encoding {tri!r} in {s!r}')
            i += 3
            continue
        if c not in allowed:
            raise ValueError(f'{what}: character {c!r} is not allowed in a URI (must be percent-encoded) in {s!r}')
        i += 1


def _pct_decode(s):
    return unquote(s, encoding='utf-8', errors='strict')


def parse_mailto(uri):
    """\
    Parses a ``mailto:`` URI.

    Returns ``{'to': [...], 'cc': [...], 'bcc': [...], 'subject': str|None,
    'body': str|None, 'other': [(name, value), ...]}``; all values are
    percent-decoded (UTF-8). ``to`` header fields are appended to the
    addresses of the path, several ``cc`` / ``bcc`` header fields are merged.

    Raises ValueError if the URI contains characters which are not legal per
    RFC 3986 (raw spaces, quotes, backslashes, control characters, non-ASCII,
    ``#``, ``[``, ``]``, stray ``%``), if a header field has no ``=`` or if
    ``subject`` / ``body`` occur more than once.
    """
    if not isinstance(uri, str):
        raise ValueError(f'mailto URI is not a str but {type(uri).__name__}')
    if uri[:7].lower() != 'mailto:':
        raise ValueError(f'missing "mailto:" scheme: {uri!r}')
    rest = uri[7:]
    path, qmark, query = rest.partition('?')
    _validate_uri_part(path, _PCHAR, 'addresses')
    _validate_uri_part(query, _QUERY, 'header fields')
    res = {'to': [], 'cc': [], 'bcc': [], 'subject': None, 'body': None, 'other': []}
    if path:
        res['to'].extend(_pct_decode(a) for a in path.split(','))
    if qmark:
        for hfield in query.split('&'):
            name, eq, value = hfield.partition('=')
            if not eq:
                raise ValueError(f'header field {hfield!r} has no "="')
            name = _pct_decode(name).lower()
            if name in ('to', 'cc', 'bcc'):
                res[name].extend(_pct_decode(a) for a in value.split(','))
            elif name in ('subject', 'body'):
                if res[name] is not None:
                    raise ValueError(f'header field {name!r} occurs more than once')
                res[name] = _pct_decode(value)
            else:
                res['other'].append((name, _pct_decode(value)))
    return res


def check_mailto(payload, to, cc=None, bcc=None, subject=None, body=None):
    """\
    Postcondition of ``make_make_email_data(to, cc, bcc, subject, body)``:
    a valid mailto URI which carries exactly the given recipients and the
    percent-encoded subject / body, and nothing else.
    """
    problems = []
    try:
        try:
            res = parse_mailto(payload)
        except ValueError as ex:
            return [str(ex)]
        if not _multi(to):
            problems.append('"to" is empty but was not refused')
        for label, exp in (('to', to), ('cc', cc), ('bcc', bcc)):
            exp = _multi(exp)
            if res[label] != exp:
                problems.append(f'{label}: recovered {res[label]!r} differs from input {exp!r}')
        for label, exp in (('subject', subject), ('body', body)):
            got = res[label]
            if exp is None or exp == '':
                if got not in (None, ''):
                    problems.append(f'{label}: not given but the URI carries {got!r}')
            elif got != str(exp):
                problems.append(f'{label}: recovered {got!r} differs from input {str(exp)!r}')
        for name, value in res['other']:
            problems.append(f'unexpected header field {name}={value!r}')
    except Exception as ex:  # pragma: no cover -- the checkers must not raise
        problems.append(f'checker error: {type(ex).__name__}: {ex}')
    return problems


# --------------------------------------------------------------------------
# EPC QR code (EPC069-12, version 002)
# --------------------------------------------------------------------------

EPC_CHARSETS = {1: 'utf-8', 2: 'iso-8859-1', 3: 'iso-8859-2', 4: 'iso-8859-4',
                5: 'iso-8859-5', 6: 'iso-8859-7', 7: 'iso-8859-10', 8: 'iso-8859-15'}

_EPC_KEYS = ('service_tag', 'version', 'charset', 'identification', 'bic',
             'name', 'iban', 'amount', 'purpose', 'reference', 'text')
EPC_MAX_BYTES = 331
EPC_MIN_AMOUNT = Decimal('0.01')
EPC_MAX_AMOUNT = Decimal('999999999.99')
_EPC_AMOUNT = re.compile(r'EUR(?:0|[1-9][0-9]{0,8})(?:\.[0-9]{1,2})?')


def _epc_encoding_number(encoding):
    """Documented encoding designator (1..8 or case-insensitive name) -> number, else None."""
    if isinstance(encoding, bool):
        return None
    if isinstance(encoding, int):
        return encoding if encoding in EPC_CHARSETS else None
    if isinstance(encoding, str):
        for no, name in EPC_CHARSETS.items():
            if name == encoding.lower():
                return no
    return None


def parse_epc(payload, encoding=None):
    """\
    Splits an EPC QR code payload into its elements (at ``'\\n'``).

    `payload` may be bytes (decoded with `encoding` if given, otherwise with
    the character set announced in the 3rd line) or str.

    Returns a dict with the keys service_tag, version, charset (int),
    identification, bic, name, iban, amount (str), purpose, reference,
    text (None if the 11th line is absent) and extra (list of further lines).

    Raises ValueError if there are fewer than 10 lines, if the character set
    line is not one of ``1`` .. ``8`` or if the bytes cannot be decoded.
    """
    if isinstance(payload, (bytes, bytearray)):
        payload = bytes(payload)
        raw_lines = payload.split(b'\n')
        if len(raw_lines) < 10:
            raise ValueError(f'EPC payload has {len(raw_lines)} lines, at least 10 are required')
        cs_line = raw_lines[2]
        if len(cs_line) != 1 or cs_line not in b'12345678':
            raise ValueError(f'invalid character set line {cs_line!r}')
        if encoding is None:
            codec = EPC_CHARSETS[int(cs_line)]
        else:
            no = _epc_encoding_number(encoding)
            if no is None:
                raise ValueError(f'unknown encoding {encoding!r}')
            codec = EPC_CHARSETS[no]
        text = payload.decode(codec)  # UnicodeDecodeError is a ValueError
    elif isinstance(payload, str):
        text = payload
    else:
        raise ValueError(f'payload must be bytes or str, got {type(payload).__name__}')
    lines = text.split('\n')
    if len(lines) < 10:
        raise ValueError(f'EPC payload has {len(lines)} lines, at least 10 are required')
    if len(lines[2]) != 1 or lines[2] not in '12345678':
        raise ValueError(f'invalid character set line {lines[2]!r}')
    res = dict(zip(_EPC_KEYS, lines[:10]))
    res['charset'] = int(lines[2])
    res['text'] = lines[10] if len(lines) > 10 else None
    res['extra'] = lines[11:]
    return res


def _epc_amount(amount):
    """Input amount -> Decimal (floats by their shortest repr, i.e. what the caller wrote)."""
    if isinstance(amount, bool):
        raise ValueError('bool is not an amount')
    if isinstance(amount, float):
        return Decimal(repr(amount))
    if isinstance(amount, (int, Decimal, str)):
        return Decimal(amount)
    return Decimal(str(amount))


def epc_input_violations(name, iban, amount, text=None, reference=None, bic=None,
                         purpose=None, encoding=None):
    """\
    Returns the list of documented length / range limits which the arguments
    of ``make_epc_qr`` violate (surrounding white space is not counted).
    If the list is not empty, the helper has to refuse the call with ValueError.

    Limits (EPC069-12 v002 and the helper's documentation): name 1..70
    characters, IBAN 1..34, BIC empty or 8 / 11, purpose at most 4,
    structured reference at most 35, unstructured text at most 140, either
    text or reference but not both, amount 0.01 .. 999999999.99, encoding one of
    the eight documented numbers / names.
    """
    v = []

    def norm(s):
        return '' if s is None else str(s).strip()

    name, iban, text, reference, bic, purpose = map(norm, (name, iban, text, reference, bic, purpose))
    if not 0 < len(name) <= 70:
        v.append(f'name has {len(name)} characters (1..70 allowed)')
    if not 0 < len(iban) <= 34:
        v.append(f'IBAN has {len(iban)} characters (1..34 allowed)')
    if bic and len(bic) not in (8, 11):
        v.append(f'BIC has {len(bic)} characters (8 or 11 allowed)')
    if len(purpose) > 4:
        v.append(f'purpose has {len(purpose)} characters (max. 4 allowed)')
    if len(reference) > 35:
        v.append(f'structured reference has {len(reference)} characters (max. 35 allowed)')
    if len(text) > 140:
        v.append(f'unstructured text has {len(text)} characters (max. 140 allowed)')
    if text and reference:
        v.append('both text and reference are given')
    if not text and not reference:
        v.append('neither text nor reference is given')
    try:
        amt = _epc_amount(amount)
        if not amt.is_finite() or not EPC_MIN_AMOUNT <= amt <= EPC_MAX_AMOUNT:
            v.append(f'amount {amount!r} is outside of 0.01 .. 999999999.99')
    except (ValueError, TypeError, ArithmeticError):
        v.append(f'amount {amount!r} is not a number')
    if encoding is not None and _epc_encoding_number(encoding) is None:
        v.append(f'encoding {encoding!r} is not one of the documented encodings')
    return v


def _same_modulo_outer_space(got, given):
    given = '' if given is None else str(given)
    return got == given or got == given.strip() or got == given.rstrip()


def check_epc(payload_bytes, name, iban, amount, text=None, reference=None, bic=None,
              purpose=None, encoding=None):
    """\
    Postcondition of ``make_epc_qr`` / its payload (bytes).

    * at most 331 bytes;
    * exactly the lines of the version 002 layout in order: BCD, 002, character
      set, SCT, BIC, name, IBAN, amount, purpose, structured reference and --
      iff a text is given -- the unstructured text as 11th and last line
      (the last populated element is not followed by a separator); no further
      lines (a line break smuggled in by a value shows up as surplus line);
    * the character set digit names the encoding actually used: the bytes
      decode with it and re-encode to the same bytes, and it equals the
      requested encoding if one was requested;
    * amount ``EUR#.##``: "." as decimal separator, at most two decimals, no
      trailing ".", no leading zeros, numerically equal to the input (inputs
      with more than two decimals: rounded to the nearest cent, any tie rule);
    * name, IBAN, BIC, purpose, reference, text equal the inputs (surrounding
      white space may be trimmed);
    * the arguments respect the documented limits (otherwise the call should
      have been refused).
    """
    problems = []
    try:
        if not isinstance(payload_bytes, (bytes, bytearray)):
            return [f'payload is not bytes but {type(payload_bytes).__name__}']
        payload_bytes = bytes(payload_bytes)
        if len(payload_bytes) > EPC_MAX_BYTES:
            problems.append(f'payload has {len(payload_bytes)} bytes, max. {EPC_MAX_BYTES} are allowed')
        for violation in epc_input_violations(name, iban, amount, text, reference, bic, purpose, encoding):
            problems.append(f'not refused although {violation}')
        try:
            res = parse_epc(payload_bytes)
        except ValueError as ex:
            problems.append(f'unparsable: {ex}')
            return problems
        codec = EPC_CHARSETS[res['charset']]
        try:
            if payload_bytes.decode(codec).encode(codec) != payload_bytes:
                problems.append(f'charset {res["charset"]} ({codec}): re-encoding does not reproduce the bytes')
        except ValueError as ex:  # pragma: no cover -- parse_epc decoded already
            problems.append(f'charset {res["charset"]} ({codec}): {ex}')
        if encoding is not None:
            want = _epc_encoding_number(encoding)
            if want is not None and want != res['charset']:
                problems.append(f'charset line is {res["charset"]} but encoding {encoding!r} (= {want}) was requested')
        for key, exp in (('service_tag', 'BCD'), ('version', '002'), ('identification', 'SCT')):
            if res[key] != exp:
                problems.append(f'{key}: expected {exp!r}, got {res[key]!r}')
        # number of lines
        has_text = bool(str(text).strip()) if text is not None else False
        if has_text and res['text'] is None:
            problems.append('text: the 11th line (unstructured remittance information) is missing')
        if not has_text and res['text'] is not None:
            problems.append(f'text: no text given but there is an 11th line {res["text"]!r}')
        for line in res['extra']:
            problems.append(f'surplus line after the unstructured text: {line!r}')
        for key in _EPC_KEYS:
            val = res[key]
            if isinstance(val, str) and '\r' in val:
                problems.append(f'{key}: raw CR inside the element {val!r}')
        # values
        for key, given in (('bic', bic), ('name', name), ('iban', iban), ('purpose', purpose),
                           ('reference', reference)):
            if not _same_modulo_outer_space(res[key], given):
                problems.append(f'{key}: {res[key]!r} differs from input {given!r}')
        if res['text'] is not None and not _same_modulo_outer_space(res['text'], text):
            problems.append(f'text: {res["text"]!r} differs from input {text!r}')
        # limits as seen in the payload
        if not 0 < len(res['name']) <= 70:
            problems.append(f'name: {len(res["name"])} characters (1..70 allowed)')
        if not 0 < len(res['iban']) <= 34:
            problems.append(f'iban: {len(res["iban"])} characters (1..34 allowed)')
        if len(res['bic']) not in (0, 8, 11):
            problems.append(f'bic: {len(res["bic"])} characters (0, 8 or 11 allowed)')
        if len(res['purpose']) > 4:
            problems.append(f'purpose: {len(res["purpose"])} characters (max. 4 allowed)')
        if len(res['reference']) > 35:
            problems.append(f'reference: {len(res["reference"])} characters (max. 35 allowed)')
        if res['text'] is not None and len(res['text']) > 140:
            problems.append(f'text: {len(res["text"])} characters (max. 140 allowed)')
        if res['reference'] and res['text']:
            problems.append('both structured reference and unstructured text are populated')
        # amount
        line = res['amount']
        if not _EPC_AMOUNT.fullmatch(line):
            problems.append(f'amount: {line!r} is not of the form EUR#.## '
                            '("." separator, max. 2 decimals, no trailing ".", no leading zeros)')
        try:
            got = Decimal(line[3:])
            if not got.is_finite() or not EPC_MIN_AMOUNT <= got <= EPC_MAX_AMOUNT:
                problems.append(f'amount: {line!r} is outside of 0.01 .. 999999999.99')
            try:
                exp = _epc_amount(amount)
                if exp.is_finite():
                    if exp == exp.quantize(Decimal('0.01')):
                        if got != exp:
                            problems.append(f'amount: {line!r} is not numerically equal to the input {amount!r}')
                    elif abs(got - exp) > Decimal('0.005'):
                        problems.append(f'amount: {line!r} is not the input {amount!r} rounded to cents')
            except (ValueError, TypeError, ArithmeticError):
                pass  # reported by epc_input_violations
        except (ValueError, ArithmeticError):
            if _EPC_AMOUNT.fullmatch(line):  # pragma: no cover
                problems.append(f'amount: {line!r} is not a decimal number')
    except Exception as ex:  # pragma: no cover -- the checkers must not raise
        problems.append(f'checker error: {type(ex).__name__}: {ex}')
    return problems


def check_epc_symbol(version, error):
    """\
    EPC069-12: error correction level M, QR code version at most 13.
    `version` and `error` are ``QRCode.version`` / ``QRCode.error`` of the symbol.
    """
    problems = []
    if error != 'M':
        problems.append(f'error correction level is {error!r}, "M" is mandatory')
    if not isinstance(version, int) or isinstance(version, bool) or not 1 <= version <= 13:
        problems.append(f'QR code version is {version!r}, 1 .. 13 are allowed')
    return problems
