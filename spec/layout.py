"""ISO/IEC 18004 symbol structure: function patterns, format / version
information, placement order, data masks.  Written from the standard (6.3, 7.7,
7.8.2, 7.9, 7.10, Annex C, D, E); nothing is taken from segno."""
from . import iso

FINDER = ((1, 1, 1, 1, 1, 1, 1),
          (1, 0, 0, 0, 0, 0, 1),
          (1, 0, 1, 1, 1, 0, 1),
          (1, 0, 1, 1, 1, 0, 1),
          (1, 0, 1, 1, 1, 0, 1),
          (1, 0, 0, 0, 0, 0, 1),
          (1, 1, 1, 1, 1, 1, 1))
ALIGN = ((1, 1, 1, 1, 1),
         (1, 0, 0, 0, 1),
         (1, 0, 1, 0, 1),
         (1, 0, 0, 0, 1),
         (1, 1, 1, 1, 1))

# module kinds
FINDER_K, SEPARATOR, TIMING, ALIGNMENT, FORMAT, VERSION, DARK, DATA = (
    'finder', 'separator', 'timing', 'alignment', 'format', 'version', 'dark', 'data')


def alignment_positions(v):
    """Annex E: row/column coordinates of the alignment pattern centres"""
    if v < 2:
        return []
    size = iso.symbol_size(v)
    n = v // 7 + 2
    if v == 32:
        step = 26
    else:
        step = (v * 4 + n * 2 + 1) // (n * 2 - 2) * 2
    pos = [size - 7 - i * step for i in range(n - 1)]
    return [6] + sorted(pos)


_cache = {}


def function_map(v):
    """dict (i, j) -> (kind, value) for every module of version v; value is 0/1 for
    fixed function modules and None for format / version / data modules"""
    if v in _cache:
        return _cache[v]
    size = iso.symbol_size(v)
    m = {}
    micro = v < 1
    corners = [(0, 0)] if micro else [(0, 0), (0, size - 7), (size - 7, 0)]
    # finder patterns + separators
    for (r0, c0) in corners:
        for di in range(-1, 8):
            for dj in range(-1, 8):
                i, j = r0 + di, c0 + dj
                if not (0 <= i < size and 0 <= j < size):
                    continue
                if 0 <= di < 7 and 0 <= dj < 7:
                    m[(i, j)] = (FINDER_K, FINDER[di][dj])
                else:
                    m[(i, j)] = (SEPARATOR, 0)
    # timing patterns
    if micro:
        for k in range(8, size):
            m[(0, k)] = (TIMING, 1 - k % 2)
            m[(k, 0)] = (TIMING, 1 - k % 2)
    else:
        for k in range(8, size - 8):
            m[(6, k)] = (TIMING, 1 - k % 2)
            m[(k, 6)] = (TIMING, 1 - k % 2)
    # alignment patterns (not where a finder pattern is)
    pos = alignment_positions(v)
    for ci in pos:
        for cj in pos:
            if (ci, cj) in ((6, 6), (6, pos[-1]), (pos[-1], 6)):
                continue
            for di in range(5):
                for dj in range(5):
                    m[(ci - 2 + di, cj - 2 + dj)] = (ALIGNMENT, ALIGN[di][dj])
    # format information
    for (i, j) in format_positions(v)[0] + (format_positions(v)[1] if not micro else []):
        m[(i, j)] = (FORMAT, None)
    if not micro:
        m[(size - 8, 8)] = (DARK, 1)
    # version information
    if v >= 7:
        for blk in version_positions(v):
            for (i, j) in blk:
                m[(i, j)] = (VERSION, None)
    for i in range(size):
        for j in range(size):
            if (i, j) not in m:
                m[(i, j)] = (DATA, None)
    _cache[v] = m
    return m


def format_positions(v):
    """two lists (copy 1, copy 2) of 15 positions, index = bit number (0 = LSB)"""
    size = iso.symbol_size(v)
    if v < 1:
        c1 = [None] * 15
        for b in range(0, 7):
            c1[b] = (b + 1, 8)          # bits 0..6: column 8, rows 1..7
        c1[7] = (8, 8)
        for b in range(8, 15):
            c1[b] = (8, 15 - b)         # bits 8..14: row 8, columns 7..1
        return [c1, []]
    c1 = [None] * 15
    for b in range(0, 6):
        c1[b] = (b, 8)
    c1[6] = (7, 8)
    c1[7] = (8, 8)
    c1[8] = (8, 7)
    for b in range(9, 15):
        c1[b] = (8, 14 - b)
    c2 = [None] * 15
    for b in range(0, 8):
        c2[b] = (8, size - 1 - b)
    for b in range(8, 15):
        c2[b] = (size - 15 + b, 8)
    return [c1, c2]


def version_positions(v):
    """two lists (lower left, upper right) of 18 positions, index = bit number"""
    size = iso.symbol_size(v)
    ll = [(size - 11 + b % 3, b // 3) for b in range(18)]
    ur = [(b // 3, size - 11 + b % 3) for b in range(18)]
    return [ll, ur]


def bch15_5(data):
    """BCH(15,5) codeword (data in the 5 high bits), generator x^10+x^8+x^5+x^4+x^2+x+1"""
    g = 0b10100110111
    r = data << 10
    for k in range(14, 9, -1):
        if r >> k & 1:
            r ^= g << (k - 10)
    return (data << 10) | r


def format_word(v, level, mask):
    """15-bit format information incl. the ISO mask constant"""
    if v >= 1:
        data = (iso.LEVEL_BITS[level] << 3) | mask
        return bch15_5(data) ^ 0b101010000010010
    sym = {(iso.M1, None): 0, (iso.M2, 'L'): 1, (iso.M2, 'M'): 2, (iso.M3, 'L'): 3, (iso.M3, 'M'): 4,
           (iso.M4, 'L'): 5, (iso.M4, 'M'): 6, (iso.M4, 'Q'): 7}[(v, level)]
    data = (sym << 2) | mask
    return bch15_5(data) ^ 0b100010001000101


def golay18_6(v):
    """(18,6) Golay codeword of the version number, generator x^12+x^11+x^10+x^9+x^8+x^5+x^2+1"""
    g = 0b1111100100101
    r = v << 12
    for k in range(17, 11, -1):
        if r >> k & 1:
            r ^= g << (k - 12)
    return (v << 12) | r


def placement_order(v):
    """7.7.3: positions of the encoding region in the order the bit stream is placed"""
    size = iso.symbol_size(v)
    fm = function_map(v)
    micro = v < 1
    order = []
    col = size - 1
    upward = True
    while col > 0:
        if not micro and col == 6:
            col -= 1
        rows = range(size - 1, -1, -1) if upward else range(size)
        for i in rows:
            for j in (col, col - 1):
                if fm[(i, j)][0] == DATA:
                    order.append((i, j))
        upward = not upward
        col -= 2
    return order


def mask_condition(ref, i, j):
    """Table 10: True where the module is inverted; ref = QR pattern reference 0..7"""
    if ref == 0:
        return (i + j) % 2 == 0
    if ref == 1:
        return i % 2 == 0
    if ref == 2:
        return j % 3 == 0
    if ref == 3:
        return (i + j) % 3 == 0
    if ref == 4:
        return (i // 2 + j // 3) % 2 == 0
    if ref == 5:
        return (i * j) % 2 + (i * j) % 3 == 0
    if ref == 6:
        return ((i * j) % 2 + (i * j) % 3) % 2 == 0
    if ref == 7:
        return ((i + j) % 2 + (i * j) % 3) % 2 == 0
    raise ValueError(ref)


MICRO_MASK_TO_QR = (1, 4, 6, 7)


def mask_condition_for(v, mask, i, j):
    return mask_condition(MICRO_MASK_TO_QR[mask] if v < 1 else mask, i, j)


def n_masks(v):
    return 4 if v < 1 else 8
