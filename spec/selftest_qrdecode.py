"""Self-test of spec/qrdecode.py.

run:  cd /verif && PYTHONPATH=/repo:/verif /venv/bin/python spec/selftest_qrdecode.py

(a) known-answer tests from ISO/IEC 18004:2015 (worked examples of 7.4.3, 7.4.4,
    7.4.6, Annex I) and synthetic symbols produced by a tiny first-principles
    encoder in this file (bit writer per clause 7.4 / 8, RS via spec.gf,
    placement via spec.layout) - incl. ECI 8/16/24 bit forms, FNC1, Structured
    Append, Hanzi, which segno rarely or never emits;
(b) a few hundred segno symbols: no problems, syndromes_ok, payload ==
    expected_payload, level / mask / version equal QRCode.error / mask / version;
(c) corrupt_and_decode with floor(ec/2) codeword errors per block recovers the
    payload of 50 symbols;
(d) robustness: decode() never raises on malformed input.

Genuine deviations of the unchanged library from the standard are listed under
LIBRARY DEVIATIONS and do not influence the exit status.
"""
import random
import sys
import time

from spec import iso, layout, gf, qrdecode
from spec.qrdecode import decode, corrupt_and_decode, expected_payload

FAILS = []
DEVIATIONS = {}      # class -> list of exact calls
COUNTS = {}


def check(cond, what):
    COUNTS['checks'] = COUNTS.get('checks', 0) + 1
    if not cond:
        FAILS.append(what)
        print('FAIL:', what)
    return cond


def deviation(kind, call):
    DEVIATIONS.setdefault(kind, []).append(call)


# ---------------------------------------------------------------- first-principles mini encoder
class W(object):
    """bit writer, clause 7.4"""

    def __init__(self, v):
        self.v = v
        self.bits = []

    def put(self, value, n):
        for k in range(n - 1, -1, -1):
            self.bits.append((value >> k) & 1)
        return self

    def mode(self, name):
        if self.v >= 1:
            code = {'eci': iso.MODE_ECI, 'structured_append': iso.MODE_SA, 'fnc1_first': 0b0101,
                    'fnc1_second': 0b1001}.get(name)
            if code is None:
                code = iso.MODE_INDICATOR[name]
            return self.put(code, 4)
        return self.put(iso.MICRO_MODE_INDICATOR[name], iso.mode_indicator_len(self.v))

    def numeric(self, digits):
        self.mode('numeric').put(len(digits), iso.cci_len('numeric', self.v))
        for k in range(0, len(digits), 3):
            g = digits[k:k + 3]
            self.put(int(g), (4, 7, 10)[len(g) - 1])
        return self

    def alnum(self, text):
        t = qrdecode.ALPHANUMERIC_TABLE
        self.mode('alphanumeric').put(len(text), iso.cci_len('alphanumeric', self.v))
        for k in range(0, len(text), 2):
            g = text[k:k + 2]
            if len(g) == 2:
                self.put(t.index(g[0]) * 45 + t.index(g[1]), 11)
            else:
                self.put(t.index(g), 6)
        return self

    def byte(self, data):
        self.mode('byte').put(len(data), iso.cci_len('byte', self.v))
        for x in bytearray(data):
            self.put(x, 8)
        return self

    def kanji(self, sjis):
        self.mode('kanji').put(len(sjis) // 2, iso.cci_len('kanji', self.v))
        for k in range(0, len(sjis), 2):
            w = (bytearray(sjis)[k] << 8) | bytearray(sjis)[k + 1]
            w -= 0x8140 if w <= 0x9FFC else 0xC140
            self.put((w >> 8) * 0xC0 + (w & 0xFF), 13)
        return self

    def hanzi(self, gb):
        self.mode('hanzi').put(1, 4).put(len(gb) // 2, iso.cci_len('hanzi', self.v))
        for k in range(0, len(gb), 2):
            w = (bytearray(gb)[k] << 8) | bytearray(gb)[k + 1]
            w -= 0xA1A1 if (w >> 8) <= 0xAA else 0xA6A1
            self.put((w >> 8) * 0x60 + (w & 0xFF), 13)
        return self

    def eci(self, n):
        self.mode('eci')
        if n < 128:
            return self.put(n, 8)
        if n < 16384:
            return self.put(0b10, 2).put(n, 14)
        return self.put(0b110, 3).put(n, 21)

    def sa(self, m, n, parity):
        return self.mode('structured_append').put(m - 1, 4).put(n - 1, 4).put(parity, 8)


def finish(v, level, bits):
    """7.4.9 / 7.4.10: terminator, bit padding, pad codewords -> data codewords"""
    cap = iso.data_capacity_bits(v, level)
    assert len(bits) <= cap, (len(bits), cap)
    bits = list(bits)
    bits += [0] * min(cap - len(bits), iso.terminator_len(v))
    bits += [0] * min((-len(bits)) % 8, cap - len(bits))
    k = 0
    while cap - len(bits) >= 8:
        bits += [int(c) for c in ('11101100', '00010001')[k % 2]]
        k += 1
    bits += [0] * (cap - len(bits))
    if v in (iso.M1, iso.M3):
        bits += [0] * 4            # low nibble of the 4-bit codeword, exists for the RS arithmetic only
    return [int(''.join(map(str, bits[k:k + 8])), 2) for k in range(0, len(bits), 8)]


def build_symbol(v, level, mask, data_codewords, ec_override=None):
    """7.5 - 7.10: blocks, RS, interleaving, placement, masking, format / version"""
    shapes = []
    for nb, total, data in iso.block_structure(v, level):
        shapes += [(total, data)] * nb
    assert len(data_codewords) == sum(dat for tot, dat in shapes)
    blocks = []
    pos = 0
    for tot, dat in shapes:
        data = data_codewords[pos:pos + dat]
        pos += dat
        blocks.append((data, gf.rs_remainder(data, tot - dat)))
    if ec_override is not None:
        blocks = [(blocks[0][0], list(ec_override))]
    seq = []
    for i in range(max(len(b[0]) for b in blocks)):
        seq += [(b[0][i], 8) for b in blocks if i < len(b[0])]
    if v in (iso.M1, iso.M3):
        x, n = seq[-1]
        seq[-1] = (x >> 4, 4)
    for i in range(max(len(b[1]) for b in blocks)):
        seq += [(b[1][i], 8) for b in blocks if i < len(b[1])]
    stream = []
    for x, n in seq:
        stream += [(x >> k) & 1 for k in range(n - 1, -1, -1)]
    stream += [0] * iso.remainder_bits(v)
    size = iso.symbol_size(v)
    fm = layout.function_map(v)
    grid = [[0] * size for _ in range(size)]
    for (i, j), (kind, value) in fm.items():
        if value is not None:
            grid[i][j] = value
    order = layout.placement_order(v)
    assert len(order) == len(stream), (len(order), len(stream))
    for bit, (i, j) in zip(stream, order):
        grid[i][j] = bit ^ (1 if layout.mask_condition_for(v, mask, i, j) else 0)
    word = layout.format_word(v, level, mask)
    for copy in layout.format_positions(v):
        for b, (i, j) in enumerate(copy):
            grid[i][j] = (word >> b) & 1
    if v >= 7:
        word = layout.golay18_6(v)
        for copy in layout.version_positions(v):
            for b, (i, j) in enumerate(copy):
                grid[i][j] = (word >> b) & 1
    return grid


def b2i(s):
    return [int(x, 2) for x in s.split()]


# ---------------------------------------------------------------- (a) ISO known answers
def test_iso_examples():
    # Annex C / D known words
    check(layout.format_word(1, 'M', 0) == 0b101010000010010, 'format word M/000')
    check(layout.format_word(1, 'L', 0) == 0b111011111000100, 'format word L/000')
    check(layout.format_word(1, 'M', 2) == 0b101111001111100, 'format word M/010 (Annex I)')
    check(layout.format_word(iso.M1, None, 0) == 0b100010001000101, 'micro format word M1/00')
    check(layout.golay18_6(7) == 0b000111110010010100, 'version information 7 (Annex D)')
    # 7.4.6 kanji examples: 935F -> 0D9F, E4AA -> 1AAA
    check(qrdecode.kanji_from_13bit(0b0110110011111) == (0x935F, True), 'kanji 935F')
    check(qrdecode.kanji_from_13bit(0b1101010101010) == (0xE4AA, True), 'kanji E4AA')
    check(qrdecode.kanji_from_13bit(0)[0] == 0x8140 and qrdecode.kanji_from_13bit(0x1FFF)[0] == 0xEBBF, 'kanji range ends')
    # every 13-bit kanji / hanzi value: inverse of the forward rule of the standard, injective
    seen = set()
    for x in range(1 << 13):
        sj, valid = qrdecode.kanji_from_13bit(x)
        seen.add(sj)
        if 0x8140 <= sj <= 0x9FFC:
            w = sj - 0x8140
        elif 0xE040 <= sj <= 0xEBBF:
            w = sj - 0xC140
        else:
            check(not valid, 'kanji %d out of range flagged' % x)
            continue
        if (w >> 8) * 0xC0 + (w & 0xFF) != x:
            check(False, 'kanji forward(inverse(%d))' % x)
    check(len(seen) == 1 << 13, 'kanji inverse injective')
    n_valid = 0
    for x in range(1 << 13):
        gb, valid = qrdecode.hanzi_from_13bit(x)
        if valid:
            n_valid += 1
            w = gb - (0xA1A1 if (gb >> 8) <= 0xAA else 0xA6A1)
            if (w >> 8) * 0x60 + (w & 0xFF) != x:
                check(False, 'hanzi forward(inverse(%d))' % x)
    check(n_valid == (10 + 75) * 94, 'hanzi: %d valid values' % n_valid)

    # Annex I.2: '01234567', version 1-M, mask 010
    data = b2i('00010000 00100000 00001100 01010110 01100001 10000000 11101100 00010001 '
               '11101100 00010001 11101100 00010001 11101100 00010001 11101100 00010001')
    ec = b2i('10100101 00100100 11010100 11000001 11101101 00110110 11000111 10000111 00101100 01010101')
    check(gf.rs_remainder(data, 10) == ec, 'Annex I.2 error correction codewords')
    check(finish(1, 'M', W(1).numeric('01234567').bits) == data, 'Annex I.2 data codewords from the bit writer')
    d = decode(build_symbol(1, 'M', 2, data, ec_override=ec))
    check(d.problems == [] and d.syndromes_ok, 'Annex I.2 decodes without problems: %r' % d.problems)
    check((d.version, d.level, d.mask, d.is_micro) == (1, 'M', 2, False), 'Annex I.2 version/level/mask')
    check(d.payload == b'01234567' and [s.mode for s in d.segments] == ['numeric'] and d.segments[0].char_count == 8,
          'Annex I.2 payload %r' % d.payload)
    check(d.codewords == data + ec and d.blocks == [(data, ec)], 'Annex I.2 codewords')
    check(d.segments[0].bits == (0, 41) and d.end_of_data == 41, 'Annex I.2 segment bits')
    tp = d.terminator_and_padding
    check(tp['tail_ok'] and tp['terminator_bits'] == 4 and tp['padding_bits'] == 3
          and tp['pad_codewords'] == [0xEC, 0x11] * 5, 'Annex I.2 tail %r' % tp)
    check(d.format_copies == [0b101111001111100] * 2, 'Annex I.2 format copies')

    # Annex I.3: '01234567', M2-L, mask 01
    data = b2i('01000000 00011000 10101100 11000011 00000000')
    ec = b2i('10000110 00001101 00100010 10101110 00110000')
    check(gf.rs_remainder(data, 5) == ec, 'Annex I.3 error correction codewords')
    check(finish(iso.M2, 'L', W(iso.M2).numeric('01234567').bits) == data, 'Annex I.3 data codewords from the bit writer')
    d = decode(build_symbol(iso.M2, 'L', 1, data, ec_override=ec))
    check(d.problems == [] and d.syndromes_ok and d.payload == b'01234567', 'Annex I.3 decodes: %r' % d)
    check((d.version, d.level, d.mask, d.is_micro) == (iso.M2, 'L', 1, True), 'Annex I.3 version/level/mask')
    check(d.terminator_and_padding['tail_ok'] and d.terminator_and_padding['terminator_bits'] == 5, 'Annex I.3 tail')

    # 7.4.3 example 2: '0123456789012345' in M3-M
    bits = [int(c) for c in '00' '10000' '0000001100' '0101011001' '1010100110' '1110000101' '0011101010' '0101']
    check(W(iso.M3).numeric('0123456789012345').bits == bits, '7.4.3 example 2 bit stream')
    d = decode(build_symbol(iso.M3, 'M', 3, finish(iso.M3, 'M', bits)))
    check(d.problems == [] and d.payload == b'0123456789012345' and d.terminator_and_padding['tail_ok'],
          '7.4.3 example 2 decodes: %r %r' % (d, d.terminator_and_padding))
    # 7.4.4 example: 'AC-42' in 1-H
    bits = [int(c) for c in '0010' '000000101' '00111001110' '11100111001' '000010']
    check(W(1).alnum('AC-42').bits == bits, '7.4.4 example bit stream')
    d = decode(build_symbol(1, 'H', 5, finish(1, 'H', bits)))
    check(d.problems == [] and d.payload == b'AC-42' and d.level == 'H' and d.mask == 5, '7.4.4 example decodes: %r' % d)


def test_synthetic(rng):
    n = 0
    # ECI forms, FNC1, SA, hanzi, mixed segments
    w = W(5).sa(3, 7, 0xA5).eci(26).byte(u'ä€'.encode('utf-8')).eci(899).byte(b'\x00\xff') \
        .eci(123456).numeric('0071').alnum('A1 $%*+-./:Z').kanji(u'点茗テ'.encode('shift_jis')) \
        .hanzi(u'书读。'.encode('gb2312'))
    d = decode(build_symbol(5, 'L', 6, finish(5, 'L', w.bits)))
    check(d.problems == [], 'synthetic 5-L problems %r' % d.problems)
    check([s.mode for s in d.segments] == ['structured_append', 'eci', 'byte', 'eci', 'byte', 'eci', 'numeric',
                                           'alphanumeric', 'kanji', 'hanzi'], 'synthetic 5-L modes')
    check(d.sa == (3, 7, 0xA5) and d.sa_raw == (2, 6, 0xA5), 'synthetic SA %r' % (d.sa,))
    check([s.eci for s in d.segments] == [None, 26, 26, 899, 899, 123456, 123456, 123456, 123456, 123456],
          'synthetic ECI in force %r' % [s.eci for s in d.segments])
    check(d.payload == u'ä€'.encode('utf-8') + b'\x00\xff' + b'0071' + b'A1 $%*+-./:Z'
          + u'点茗テ'.encode('shift_jis') + u'书读。'.encode('gb2312'), 'synthetic payload')
    check(d.segments[-1].subset == 1 and d.terminator_and_padding['tail_ok'], 'synthetic hanzi subset / tail')
    check(d.segments[-1].bits[1] == len(w.bits) == d.end_of_data, 'synthetic end of data')
    w = W(2).mode('fnc1_first').alnum('01049').mode('fnc1_second').put(0x41, 8).numeric('5')
    d = decode(build_symbol(2, 'Q', 0, finish(2, 'Q', w.bits)))
    check(d.problems == [] and [s.mode for s in d.segments] == ['fnc1_first', 'alphanumeric', 'fnc1_second', 'numeric']
          and d.segments[2].value == 0x41 and d.payload == b'010495', 'synthetic FNC1 %r' % d)

    # every version x level: random segments filling the symbol to a random distance from capacity
    for v in iso.ALL_VERSIONS:
        for level in iso.levels_of(v):
            cap = iso.data_capacity_bits(v, level)
            for trial in range(2 if v < 10 else 1):
                w = W(v)
                want = b''
                modes = [m for m in iso.MODES if iso.mode_available(m, v)]
                slack = rng.choice([0, 0, 1, 2, 3, 4, 5, 7, 8, 9, 12, 30])
                guard = 0
                while guard < 200:
                    guard += 1
                    m = rng.choice(modes)
                    room = cap - slack - len(w.bits) - iso.mode_indicator_len(v) - iso.cci_len(m, v) - (4 if m == 'hanzi' else 0)
                    maxc = (1 << iso.cci_len(m, v)) - 1
                    if m == 'numeric':
                        c = min(room // 10 * 3 + (2 if room % 10 >= 7 else 1 if room % 10 >= 4 else 0), maxc)
                    elif m == 'alphanumeric':
                        c = min(room // 11 * 2 + (1 if room % 11 >= 6 else 0), maxc)
                    elif m == 'byte':
                        c = min(room // 8, maxc)
                    else:
                        c = min(room // 13, maxc)
                    if room < 0 or c <= 0:
                        if guard > 20:
                            break
                        continue
                    c = c if rng.random() < 0.5 else rng.randint(1, c)
                    c = min(c, 400)
                    if m == 'numeric':
                        s = ''.join(rng.choice('0123456789') for _ in range(c))
                        w.numeric(s)
                        want += s.encode('ascii')
                    elif m == 'alphanumeric':
                        s = ''.join(rng.choice(qrdecode.ALPHANUMERIC_TABLE) for _ in range(c))
                        w.alnum(s)
                        want += s.encode('ascii')
                    elif m == 'byte':
                        s = bytes(bytearray(rng.randrange(256) for _ in range(c)))
                        w.byte(s)
                        want += s
                    elif m == 'kanji':
                        s = bytearray()
                        for _ in range(c):
                            s.append(rng.choice(list(range(0x81, 0xA0)) + list(range(0xE0, 0xEB))))
                            s.append(rng.choice([x for x in range(0x40, 0xFD) if x != 0x7F]))
                        w.kanji(bytes(s))
                        want += bytes(s)
                    else:
                        s = bytearray()
                        for _ in range(c):
                            s.append(rng.choice(list(range(0xA1, 0xAB)) + list(range(0xB0, 0xFB))))
                            s.append(rng.randrange(0xA1, 0xFF))
                        w.hanzi(bytes(s))
                        want += bytes(s)
                    if v < 1 and rng.random() < 0.6:
                        break
                mask = rng.randrange(layout.n_masks(v))
                d = decode(build_symbol(v, level, mask, finish(v, level, w.bits)))
                n += 1
                ok = (d.problems == [] and d.syndromes_ok and d.payload == want and d.version == v and d.level == level
                      and d.mask == mask and d.terminator_and_padding['tail_ok'] and d.end_of_data == len(w.bits)
                      and len(d.data_bits) == cap)
                check(ok, 'synthetic %s-%s mask %d (%d of %d bits): %r %r' % (
                    iso.version_name(v), level, mask, len(w.bits), cap, d.problems, d.terminator_and_padding))
    COUNTS['synthetic symbols'] = n

    # expected_tail against spec.iso.stream_bit_after_data (independently written)
    for v in list(iso.MICRO) + [1, 2]:
        for level in iso.levels_of(v):
            cap = iso.data_capacity_bits(v, level)
            for end in range(cap + 1):
                exp = qrdecode.expected_tail(v, end, cap)[0]
                ref = [iso.stream_bit_after_data(v, level, end, j) for j in range(end, cap)]
                if exp != ref:
                    check(False, 'expected_tail(%s-%s, %d)' % (iso.version_name(v), level, end))
    check(True, 'expected_tail agrees with iso.stream_bit_after_data')


def test_strictness(rng):
    """the decoder must notice violations"""
    base = build_symbol(7, 'Q', 3, finish(7, 'Q', W(7).byte(b'strictness test').bits))
    size = len(base)
    check(decode(base).problems == [], 'strictness base symbol clean')

    def mutated(i, j):
        g = [list(r) for r in base]
        g[i][j] ^= 1
        return g
    fm = layout.function_map(7)
    kinds = {}
    for (i, j), (kind, value) in sorted(fm.items()):
        kinds.setdefault(kind, []).append((i, j))
    for kind, tag in (('finder', 'function-pattern'), ('separator', 'function-pattern'), ('timing', 'function-pattern'),
                      ('alignment', 'function-pattern'), ('dark', 'function-pattern'), ('format', 'format'),
                      ('version', 'version-info'), ('data', 'rs')):
        for (i, j) in rng.sample(kinds[kind], min(6, len(kinds[kind]))):
            d = decode(mutated(i, j))
            check(any(p.startswith(tag) for p in d.problems), 'flip of %s module %r reported: %r' % (kind, (i, j), d.problems))
            if kind != 'data':
                check(d.payload == b'strictness test', 'flip of %s module keeps payload' % kind)
    # one format copy damaged -> still decodes from the other; both differently valid -> disagree
    g = [list(r) for r in base]
    other = layout.format_word(7, 'L', 1)
    for b, (i, j) in enumerate(layout.format_positions(7)[1]):
        g[i][j] = (other >> b) & 1
    d = decode(g)
    check(any('disagree' in p for p in d.problems), 'format copies disagree reported')
    # remainder bits (version 7 has none; use version 2: 7 remainder bits)
    g = build_symbol(2, 'L', 0, finish(2, 'L', W(2).numeric('123').bits))
    i, j = layout.placement_order(2)[-1]
    g[i][j] ^= 1
    check(any(p.startswith('remainder') for p in decode(g).problems), 'remainder bit reported')
    # stream level violations
    for name, bits, needle in (
            ('numeric > 999', W(1).mode('numeric').put(3, 10).put(1000, 10).bits, '> 999'),
            ('numeric > 99', W(1).mode('numeric').put(2, 10).put(100, 7).bits, '> 99'),
            ('numeric > 9', W(1).mode('numeric').put(1, 10).put(10, 4).bits, '> 9'),
            ('alnum pair', W(1).mode('alphanumeric').put(2, 9).put(2025, 11).bits, '>= 2025'),
            ('alnum single', W(1).mode('alphanumeric').put(1, 9).put(45, 6).bits, '>= 45'),
            ('bad mode', W(1).put(0b0110, 4).put(0, 20).bits, 'undefined mode indicator'),
            ('count exceeds', W(1).mode('byte').put(200, 8).put(0, 30).bits, 'only'),
            ('kanji 9FFD', W(1).mode('kanji').put(1, 8).put(0x1E * 0xC0 + 0xBD, 13).bits, 'kanji'),
            ('kanji trail 7F', W(1).mode('kanji').put(1, 8).put(0x3F, 13).bits, 'kanji'),
            ('hanzi subset', W(1).mode('hanzi').put(2, 4).put(1, 8).put(0, 13).bits, 'subset'),
            ('hanzi value', W(1).mode('hanzi').put(1, 4).put(1, 8).put(0x5E, 13).bits, 'hanzi'),
            ('eci form', W(1).mode('eci').put(0xE0, 8).put(0, 16).bits, 'undefined form'),
            ('eci non-minimal', W(1).mode('eci').put(0b10, 2).put(5, 14).byte(b'x').bits, 'outside'),
            ('sa not first', W(1).numeric('1').sa(1, 2, 0).bits, 'not at the start'),
    ):
        d = decode(build_symbol(1, 'L', 0, finish(1, 'L', bits)))
        check(any(needle in p and p.startswith('stream') for p in d.problems), 'strict: %s reported: %r' % (name, d.problems))
    # Micro: mode not available in the version (M2 has no byte mode: indicator 1 = alphanumeric only; M3 2-bit
    # indicator 11 = kanji is fine, so use M1 with a count that exceeds the stream)
    d = decode(build_symbol(iso.M1, None, 0, finish(iso.M1, None, W(iso.M1).put(7, 3).put(0, 10).bits)))
    check(any('only' in p for p in d.problems), 'strict: micro count exceeds stream: %r' % d.problems)
    # tail violations go to terminator_and_padding only
    cw = finish(1, 'L', W(1).byte(b'abc').bits)
    good = decode(build_symbol(1, 'L', 0, cw))
    check(good.terminator_and_padding['tail_ok'] and good.terminator_and_padding['padding_bits'] == 0, 'aligned tail ok')
    bad = list(cw)
    bad[5:] = [0x00] + [(0xEC, 0x11)[k % 2] for k in range(len(cw) - 6)]
    d = decode(build_symbol(1, 'L', 0, bad))
    tp = d.terminator_and_padding
    check(d.problems == [] and d.payload == b'abc' and not tp['tail_ok'] and tp['extra_zero_codeword'],
          'extra zero codeword only in tail_ok: %r %r' % (d.problems, tp))
    bad = list(cw)
    bad[-1] ^= 0x40
    d = decode(build_symbol(1, 'L', 0, bad))
    tp = d.terminator_and_padding
    check(d.problems == [] and not tp['tail_ok'] and not tp['extra_zero_codeword'] and tp['tail_errors'],
          'wrong pad codeword only in tail_ok: %r' % tp)
    # M1/M3: final nibble
    for v, level in ((iso.M1, None), (iso.M3, 'L')):
        cw = finish(v, level, W(v).numeric('12').bits)
        check(decode(build_symbol(v, level, 0, cw)).terminator_and_padding['tail_ok'], 'M1/M3 tail ok')
        cw[-1] = 0x50
        d = decode(build_symbol(v, level, 0, cw))
        check(not d.terminator_and_padding['tail_ok'] and d.terminator_and_padding['final_nibble'] == 5, 'M1/M3 final nibble')
    # micro: symbol number of another version
    g = build_symbol(iso.M2, 'L', 0, finish(iso.M2, 'L', W(iso.M2).numeric('1').bits))
    other = layout.format_word(iso.M4, 'Q', 0)
    for b, (i, j) in enumerate(layout.format_positions(iso.M2)[0]):
        g[i][j] = (other >> b) & 1
    check(any('symbol number' in p for p in decode(g).problems), 'micro symbol number / size mismatch reported')


def test_rs(rng):
    n = 0
    shapes = set()
    for v in iso.ALL_VERSIONS:
        for level in iso.levels_of(v):
            for nb, tot, dat in iso.block_structure(v, level):
                shapes.add((tot, dat))
    for tot, dat in sorted(shapes):
        ec = tot - dat
        data = [rng.randrange(256) for _ in range(dat)]
        block = data + gf.rs_remainder(data, ec)
        for t in sorted(set([1, ec // 2])):
            if t < 1 or t > ec // 2:
                continue
            bad = list(block)
            for k in rng.sample(range(tot), t):
                bad[k] ^= rng.randrange(1, 256)
            fixed, info = qrdecode.rs_correct(bad, ec)
            n += 1
            if not (fixed == block and len(info) == t):
                check(False, 'rs_correct (%d,%d) with %d errors: %r' % (tot, dat, t, info))
    check(True, 'rs_correct on %d block shapes' % len(shapes))
    COUNTS['rs corrections'] = n


# ---------------------------------------------------------------- (b) segno symbols
KANJI_CHARS = u'点茗テ日本語漢字あア　黒'
HANZI_CHARS = u'书读百遍其义自现。中文'


def rnd_content(rng, kind, n):
    if kind == 'numeric':
        return ''.join(rng.choice('0123456789') for _ in range(n))
    if kind == 'alphanumeric':
        return ''.join(rng.choice(qrdecode.ALPHANUMERIC_TABLE) for _ in range(n))
    if kind == 'byte':
        return bytes(bytearray(rng.randrange(256) for _ in range(n)))
    if kind == 'latin1':
        s = ''.join(rng.choice(u'abcxyz äöüßé,.;!') for _ in range(n))
        return s if not s.isdigit() else s + 'a'
    if kind == 'utf8':
        return ''.join(rng.choice(u'ab €ЖΩ中\U0001f600') for _ in range(max(1, n - 1))) + u'€'
    if kind == 'kanji':
        return ''.join(rng.choice(KANJI_CHARS) for _ in range(n))
    if kind == 'hanzi':
        return ''.join(rng.choice(HANZI_CHARS) for _ in range(n))
    raise ValueError(kind)


def call_repr(fn, content, kw):
    args = ', '.join('%s=%r' % (k, v) for k, v in sorted(kw.items()))
    return 'segno.%s(%r%s)' % (fn, content, (', ' + args) if args else '')


def classify(qr, d, content, kw, call, want_eci=None):
    """-> list of failures (strings); records deviations"""
    fails = []
    if d.problems:
        fails.append('problems %r' % d.problems)
    if not d.syndromes_ok:
        fails.append('syndromes')
    want = expected_payload(content, kw.get('mode'), kw.get('encoding'))
    if d.payload != want:
        fails.append('payload %r != expected %r' % (d.payload, want))
    if d.level != qr.error:
        fails.append('level %r != QRCode.error %r' % (d.level, qr.error))
    if d.mask != qr.mask:
        fails.append('mask %r != QRCode.mask %r' % (d.mask, qr.mask))
    if d.version_name != qr.version:
        fails.append('version %r != QRCode.version %r' % (d.version_name, qr.version))
    if d.is_micro != qr.is_micro:
        fails.append('is_micro')
    if 'mask' in kw and kw['mask'] is not None and d.mask != kw['mask']:
        fails.append('mask %r != requested %r' % (d.mask, kw['mask']))
    if want_eci is not None:
        ecis = [s.eci for s in d.segments if s.mode == 'eci']
        if ecis != want_eci:
            fails.append('ECI headers %r != %r' % (ecis, want_eci))
    tp = d.terminator_and_padding
    if not tp.get('tail_ok'):
        if tp.get('extra_zero_codeword'):
            deviation('extra 00000000 codeword before the pad codewords (terminated stream already codeword aligned)', call)
        else:
            fails.append('tail %r' % tp)
    return fails


def test_segno(rng):
    import segno
    cases = []      # (fn, content, kwargs, expected ECI headers or None)

    def add(fn, content, want_eci=None, **kw):
        cases.append((fn, content, kw, want_eci))

    qr_versions = [None, None, 1, 2, 3, 5, 7, 9, 10, 14, 20, 26, 27, 32, 40]
    k = 0
    # single mode, QR, all levels x masks x a spread of versions
    for kind in ('numeric', 'alphanumeric', 'byte', 'latin1', 'utf8', 'kanji', 'hanzi'):
        for level in (None, 'L', 'M', 'Q', 'H'):
            for rep in range(6):
                k += 1
                version = qr_versions[(k * 7 + rep) % len(qr_versions)]
                mask = k % 8 if rep % 3 else None
                n = rng.randint(1, 2 if version == 1 else 3 if version in (2, 3) else 12)   # must fit level H
                content = rnd_content(rng, kind, n)
                kw = dict(error=level, version=version, mask=mask, boost_error=bool(k % 2))
                if kind == 'hanzi':
                    kw['mode'] = 'hanzi'
                if kind == 'byte' and rep == 2:
                    kw['mode'] = 'byte'
                add('make_qr', content, **kw)
    # the ISO example strings, all masks, all levels
    for mask in range(8):
        for level in 'LMQH':
            add('make_qr', '01234567', error=level, version=1, mask=mask, boost_error=False)
    add('make', u'点茗テ')
    add('make', u'点茗テ', micro=False, error='H')
    add('make', u'书读百遍其义自现', mode='hanzi')
    add('make', u'书读百遍其义自现', mode='hanzi', version=27, error='Q', mask=7)
    add('make', 1234567890123)
    add('make', 0)
    add('make', 7, micro=False)
    # big symbols filled close to capacity
    for version, level in ((7, 'L'), (14, 'M'), (27, 'Q'), (32, 'H'), (40, 'L'), (40, 'H'), (10, 'Q'), (26, 'L'), (9, 'H')):
        cap = iso.data_capacity_bits(version, level)
        for kind, per in (('numeric', 10.0 / 3), ('alphanumeric', 5.5), ('byte', 8.0), ('kanji', 13.0)):
            slack = rng.choice([0, 1, 2, 5, 17])
            n = int((cap - 4 - iso.cci_len('byte' if kind == 'byte' else kind, version)) / per) - slack
            add('make', rnd_content(rng, kind, max(1, n)), version=version, error=level, mask=rng.randrange(8), boost_error=False)
    # eci
    for rep in range(8):
        add('make', rnd_content(rng, 'utf8', rng.randint(1, 20)), want_eci=[26], eci=True, encoding='utf-8',
            error=rng.choice('LMQH'), mask=rep)
    add('make', u'äöü', want_eci=[], eci=True)
    add('make', u'äöü', want_eci=[], eci=True, encoding='iso-8859-1')
    add('make', u'Жи', want_eci=[7], eci=True, encoding='iso-8859-5')
    add('make', u'Жи', want_eci=[], eci=False, encoding='iso-8859-5')
    add('make', u'€ uro', want_eci=[], encoding='utf-8')
    add('make', u'点a', want_eci=[20], eci=True, mode='byte', encoding='shift_jis')
    # multi-part content (different modes in sequence; see the deviation probe for same-mode parts)
    for rep in range(24):
        kinds = [rng.choice(['numeric', 'alphanumeric', 'byte', 'kanji', 'latin1']) for _ in range(rng.randint(2, 5))]
        kinds = [kd for i, kd in enumerate(kinds) if i == 0 or kd != kinds[i - 1]]
        parts = []
        prev = None
        for kd in kinds:
            c = rnd_content(rng, kd, rng.randint(1, 9))
            if kd == 'alphanumeric' and c.isdigit():
                c += 'A'
            if kd == 'byte':
                c = b'\x80' + c          # keep it out of the narrower modes
            parts.append(c)
        add('make', parts, error=rng.choice([None, 'L', 'M', 'Q', 'H']), version=rng.choice([None, None, 7, 14]),
            mask=rng.choice([None] + list(range(8))), micro=False)
    add('make', [(u'€', None, 'utf-8'), (u'Ж', None, 'iso-8859-5'), u'plain'], want_eci=[26, 7], eci=True)
    # Micro QR: every version x level x mask
    micro_defs = (('M1', None, ('numeric',)), ('M2', 'L', ('numeric', 'alphanumeric')), ('M2', 'M', ('numeric', 'alphanumeric')),
                  ('M3', 'L', ('numeric', 'alphanumeric', 'byte', 'kanji')), ('M3', 'M', ('numeric', 'alphanumeric', 'byte', 'kanji')),
                  ('M4', 'L', ('numeric', 'alphanumeric', 'byte', 'kanji')), ('M4', 'M', ('numeric', 'alphanumeric', 'byte', 'kanji')),
                  ('M4', 'Q', ('numeric', 'alphanumeric', 'byte', 'kanji')))
    for name, level, kinds in micro_defs:
        v = {'M1': iso.M1, 'M2': iso.M2, 'M3': iso.M3, 'M4': iso.M4}[name]
        cap = iso.data_capacity_bits(v, level)
        for kind in kinds:
            per = {'numeric': 10.0 / 3, 'alphanumeric': 5.5, 'byte': 8.0, 'kanji': 13.0}[kind]
            room = cap - iso.mode_indicator_len(v) - iso.cci_len(kind, v)
            nmax = int(room / per)
            if kind == 'numeric':
                nmax = room // 10 * 3 + (2 if room % 10 >= 7 else 1 if room % 10 >= 4 else 0)
            for mask in range(4):
                n = max(1, nmax - (mask if mask < 3 else rng.randint(0, nmax - 1)))
                c = rnd_content(rng, kind, n)
                if kind == 'alphanumeric' and c.isdigit():
                    c = c[:-1] + 'A'
                if kind == 'byte':
                    c = b'\x80' + c[1:]
                add('make_micro', c, version=name, error=level, mask=mask, boost_error=False)
    for rep in range(12):
        add('make', rnd_content(rng, rng.choice(['numeric', 'alphanumeric']), rng.randint(1, 10)))   # auto -> micro
    add('make_micro', ['12', 'AB'], version='M4')
    add('make_micro', [u'点', '1234'], error='M')

    n_ok = 0
    good = []
    cov = set()
    t0 = time.time()
    for fn, content, kw, want_eci in cases:
        call = call_repr(fn, content, kw)
        try:
            qr = getattr(segno, fn)(content, **kw)
        except Exception as exc:
            check(False, '%s raised %s: %s (self-test generated an invalid call)' % (call[:200], type(exc).__name__, exc))
            continue
        d = decode(qr.matrix)
        fails = classify(qr, d, content, kw, call, want_eci)
        good.append((fn, content, kw, want_eci))
        cov.add(('version', d.version_name))
        cov.add(('level', d.level))
        cov.add(('mask', d.is_micro, d.mask))
        for sg in d.segments:
            cov.add(('mode', d.is_micro, sg.mode))
        if len([sg for sg in d.segments if sg.is_data()]) > 1:
            cov.add('multi')
        if check(not fails, '%s: %s' % (call[:300], '; '.join(fails))):
            n_ok += 1
    for v in (1, 7, 14, 27, 32, 40, 'M1', 'M2', 'M3', 'M4'):
        check(('version', v) in cov, 'coverage: version %s' % v)
    for lv in (None, 'L', 'M', 'Q', 'H'):
        check(('level', lv) in cov, 'coverage: level %s' % lv)
    for m in range(8):
        check(('mask', False, m) in cov and (m > 3 or ('mask', True, m) in cov), 'coverage: mask %d' % m)
    for md in ('numeric', 'alphanumeric', 'byte', 'kanji', 'hanzi', 'eci'):
        check(('mode', False, md) in cov, 'coverage: QR mode %s' % md)
    for md in ('numeric', 'alphanumeric', 'byte', 'kanji'):
        check(('mode', True, md) in cov, 'coverage: Micro mode %s' % md)
    check('multi' in cov, 'coverage: multi-segment symbols')
    COUNTS['segno versions covered'] = len([c for c in cov if c[0] == 'version'])
    COUNTS['segno symbols'] = len(cases)
    COUNTS['segno symbols ok'] = n_ok
    COUNTS['segno seconds'] = round(time.time() - t0, 1)

    # structured append (make_sequence)
    text = ''.join(rng.choice('ABCDEFGHIJKLMNOPQRSTUVWXYZ 0123456789') for _ in range(300))
    seq = segno.make_sequence(text, version=5, error='M')
    payload = b''
    parity = 0
    for x in bytearray(text.encode('ascii')):
        parity ^= x
    for k, qr in enumerate(seq):
        d = decode(qr.matrix)
        check(d.problems == [] and d.sa is not None and d.sa[0] == k + 1 and d.sa[1] == len(seq) and d.sa[2] == parity,
              'make_sequence symbol %d: sa=%r (expected %r) problems=%r' % (k + 1, d.sa, (k + 1, len(seq), parity), d.problems))
        payload += d.payload
    check(len(seq) > 1 and payload == text.encode('ascii'), 'make_sequence payload')

    # deviation probes (known candidates; listed, never failing)
    for fn, content, kw in (('make', ['12', '3'], {}), ('make', ['AB', 'C'], {}), ('make_qr', ['1', '2', '3'], {'version': 1})):
        call = call_repr(fn, content, kw)
        try:
            qr = getattr(segno, fn)(content, **kw)
        except Exception as exc:
            deviation('multi-part content with adjacent same-mode parts', '%s raised %r' % (call, exc))
            continue
        d = decode(qr.matrix)
        want = expected_payload(content)
        if d.payload != want or d.problems:
            deviation('adjacent same-mode parts are merged bit-wise instead of being written as separate segments / one re-packed segment',
                      '%s -> payload %r, expected %r, problems %r' % (call, d.payload, want, d.problems))
    # per-part mode given by name (documented for the global `mode` parameter)
    content = [('12345', 'numeric'), ('ABC', 'alphanumeric'), (u'书读', 'hanzi'), (u'点', 'kanji'), (u'€', 'byte', 'utf-8')]
    call = call_repr('make', content, {'eci': True})
    try:
        qr = segno.make(content, eci=True)
    except Exception as exc:
        deviation('API (not a decoding matter): per-part mode given as a string in a tuple is not accepted',
                  '%s raised %s: %s' % (call, type(exc).__name__, exc))
    else:
        fails = classify(qr, decode(qr.matrix), content, {}, call, [26])
        check(not fails, '%s: %s' % (call, '; '.join(fails)))
    return good


# ---------------------------------------------------------------- (c) error correction
def test_corrupt(rng, cases):
    import segno
    picks = []
    for fn, content, kw, want_eci in cases:
        picks.append((fn, content, kw))
    rng.shuffle(picks)
    chosen = []
    seen = set()
    for fn, content, kw in picks:           # first one symbol per (version, level) seen, then fill up
        key = (kw.get('version'), kw.get('error'))
        if key not in seen:
            seen.add(key)
            chosen.append((fn, content, kw))
        if len(chosen) == 50:
            break
    n_ok = 0
    n_err = 0
    n_beyond = 0
    for fn, content, kw in chosen:
        qr = getattr(segno, fn)(content, **kw)
        clean = decode(qr.matrix)
        d = corrupt_and_decode(qr.matrix, None, rng)
        shapes = qrdecode._block_shapes(clean.version, clean.level)
        want_counts = [(tot - dat) // 2 for tot, dat in shapes]
        ok = (d.payload == clean.payload == expected_payload(content, kw.get('mode'), kw.get('encoding'))
              and d.problems == [] and not d.uncorrectable_blocks and d.errors_corrected == want_counts
              and d.blocks == clean.blocks and not d.syndromes_ok and len(d.injected) == sum(want_counts))
        n_err += len(d.injected)
        if check(ok, 'corrupt_and_decode %s: corrected %r of %r, problems %r' % (
                call_repr(fn, content, kw)[:200], d.errors_corrected, want_counts, d.problems)):
            n_ok += 1
        d2 = corrupt_and_decode(qr.matrix, 1, rng)
        check(d2.payload == clean.payload and d2.errors_corrected == [1] * len(shapes), 'single error per block corrected')
        # beyond the correction capacity: must be reported, never silently accepted (only where a
        # miscorrection to another codeword is practically impossible)
        if min(want_counts) >= 8:
            d3 = corrupt_and_decode(qr.matrix, min(want_counts) + 1, rng)
            n_beyond += 1
            check(d3.uncorrectable_blocks and any(p.startswith('rs') for p in d3.problems),
                  'floor(ec/2)+1 errors per block reported as uncorrectable: %r' % d3.problems[:2])
    COUNTS['corrupted symbols'] = len(chosen)
    COUNTS['corrupted symbols recovered'] = n_ok
    COUNTS['codeword errors injected'] = n_err
    COUNTS['over-capacity corruptions'] = n_beyond
    check(len(chosen) == 50, '50 symbols for corrupt_and_decode (%d)' % len(chosen))


# ---------------------------------------------------------------- (d) robustness
def test_robust(rng):
    n = 0

    def run(m, **kw):
        try:
            d = decode(m, **kw)
        except Exception as exc:
            check(False, 'decode raised %r' % exc)
            return None
        if any(p.startswith('internal') for p in d.problems):
            check(False, 'internal problem: %r' % d.problems)
        return d
    for m in (None, 5, [], [[]], [[1]], 'abc', [[0, 1], [1]], [[0] * 21] * 20, [[0] * 22 for _ in range(22)],
              [[2] * 21 for _ in range(21)], [['x'] * 21 for _ in range(21)], [[None] * 11 for _ in range(11)],
              [[0] * 181 for _ in range(181)], [[1] * 19 for _ in range(19)], [bytearray(21) for _ in range(21)],
              [[0.5] * 21 for _ in range(21)], [[[1]] * 21 for _ in range(21)]):
        for ce in (False, True):
            d = run(m, correct_errors=ce)
            n += 1
            if d is not None:
                check(d.problems != [], 'malformed input %r reported' % (repr(m)[:40],))
    for size in (11, 13, 15, 17, 21, 25, 45, 57, 177):
        for rep in range(3):
            m = [[rng.randrange(2) for _ in range(size)] for _ in range(size)]
            d = run(m, correct_errors=bool(rep % 2))
            n += 1
            check(d is not None and d.problems, 'random matrix %d reported' % size)
    # good symbols with random module flips everywhere (format, function patterns, data)
    for v, level in ((iso.M1, None), (iso.M3, 'L'), (iso.M4, 'Q'), (1, 'H'), (4, 'M'), (7, 'L'), (13, 'Q')):
        cw = finish(v, level, W(v).numeric('31415926'[:5 if v == iso.M1 else 8]).bits)
        base = build_symbol(v, level, 1, cw)
        size = len(base)
        for rep in range(25):
            g = [list(r) for r in base]
            for _ in range(rng.choice([1, 2, 5, 20, 100])):
                g[rng.randrange(size)][rng.randrange(size)] ^= 1
            run(g, correct_errors=True)
            run(g)
            n += 2
            try:
                corrupt_and_decode(g, 2, rng)
            except Exception as exc:
                check(False, 'corrupt_and_decode raised %r' % exc)
    # all-zero / all-capacity streams
    for v, level in ((1, 'L'), (iso.M2, 'L'), (iso.M1, None)):
        n_data = sum(nb * dat for nb, tot, dat in iso.block_structure(v, level))
        for fill in (0x00, 0xFF, 0x77):
            cw = [fill] * n_data
            if v in (iso.M1, iso.M3):
                cw[-1] &= 0xF0
            run(build_symbol(v, level, 0, cw))
            n += 1
    COUNTS['robustness inputs'] = n
    # expected_payload
    check(expected_payload(b'\x00\xff') == b'\x00\xff', 'expected_payload bytes')
    check(expected_payload(42) == b'42', 'expected_payload int')
    check(expected_payload(u'ä') == b'\xe4', 'expected_payload latin1')
    check(expected_payload(u'点') == b'\x93\x5f', 'expected_payload shift_jis')
    check(expected_payload(u'€') == b'\xe2\x82\xac', 'expected_payload utf-8')
    check(expected_payload(u'ä', encoding='utf-8') == b'\xc3\xa4', 'expected_payload encoding')
    check(expected_payload(u'书', mode='hanzi') == b'\xca\xe9', 'expected_payload hanzi')
    check(expected_payload(['1', (u'书', 'hanzi'), (u'ä', None, 'utf-8'), 5]) == b'1\xca\xe9\xc3\xa45', 'expected_payload parts')


def main():
    rng = random.Random(18004)
    t0 = time.time()
    test_iso_examples()
    test_synthetic(rng)
    test_strictness(rng)
    test_rs(rng)
    cases = test_segno(rng)
    test_corrupt(rng, cases)
    test_robust(rng)
    print('python %s, %.1f s' % (sys.version.split()[0], time.time() - t0))
    for k in sorted(COUNTS):
        print('  %-32s %s' % (k, COUNTS[k]))
    print('LIBRARY DEVIATIONS (excluded from pass/fail): %d classes' % len(DEVIATIONS))
    for kind in sorted(DEVIATIONS):
        calls = DEVIATIONS[kind]
        print('  * %s: %d cases' % (kind, len(calls)))
        for c in calls[:4]:
            print('      %s' % c[:260])
        if len(calls) > 4:
            print('      ... and %d more' % (len(calls) - 4))
    if FAILS:
        print('SELFTEST FAILED: %d failures' % len(FAILS))
        return 1
    print('SELFTEST OK')
    return 0


if __name__ == '__main__':
    sys.exit(main())
