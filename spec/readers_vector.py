# -*- coding: utf-8 -*-
"""\
Independent readers for the vector formats written by segno
(SVG, EPS, PDF, LaTeX PGF/TikZ).

The readers are written from the semantics of the formats

* SVG 1.1: XML, ``width``/``height``/``viewBox``, ``transform`` lists, the
  path data grammar (M m L l H h V v Z z incl. implicit repetition and numbers
  without separators), presentation attributes / ``style``, paint inheritance,
* PostScript / EPSF-3.0: DSC comments, a small PostScript interpreter (operand
  stack, ``def`` of procedures, graphics state, CTM, path construction,
  painting operators),
* PDF: file structure (header, indirect objects, cross-reference table,
  trailer, ``startxref``, ``%%EOF``), stream ``/Length`` and ``/FlateDecode``,
  page tree, content stream operators,
* PGF basic layer: ``\\pgfpath...`` commands, ``\\pgfusepath``, coordinate and
  canvas transformations, line width, colours

and NOT from segno's writer code.  Nothing in here imports segno.

All readers return a :class:`Vector`; they never raise on malformed input but
collect ``problems``.  Geometry is computed in *device space* (the unit of the
page: SVG user units of the outermost viewport, PostScript / PDF default user
space, TeX dimensions) with full affine matrices and is only afterwards
divided by the scale the document applied to the stroked path.  So a document
which would draw rotated, non-uniformly scaled or shifted lines is reported
instead of being misread.

Conventions / decisions

* ``Vector.segments`` are in module units, y from the top of the page; the
  readers flip PostScript / PDF / PGF coordinates.
* PDF ``/Length``: for a ``/FlateDecode`` stream the exact number of bytes is
  given by the (self-delimiting) deflate stream; otherwise it is the number of
  bytes between the end-of-line after ``stream`` and the end-of-line marker
  (CRLF, LF or CR) before ``endstream``.
* PDF cross-reference table: every in-use entry of an object which is defined
  in the file must point exactly at ``n g obj``; an in-use entry for an object
  number which is not defined anywhere is only recorded in
  ``info['warnings']`` / ``info['xref_dangling']`` (the property to check
  speaks about defined objects).
* A background which is larger than the page is accepted (it is clipped by
  the page) and recorded in ``info['warnings']``.
* PGF: a pgfpicture declares no page, the position of the origin has no
  influence on the rendering.  ``Vector.scale`` is the scale of the PGF
  transformation if there is one, otherwise the line width (the writer
  multiplied the coordinates itself, a module is as large as the line is
  wide); ``info['scale_source']`` tells which.  ``check_modules`` accepts
  (unless ``strict_origin=True``) rows which are centred on integral y
  values, i.e. a drawing shifted by half a module relative to the origin.

Pure standard library, Python >= 3.8.
"""
import math
import re
import zlib
import xml.etree.ElementTree as ET

__all__ = ('Vector', 'read_svg', 'read_eps', 'read_pdf', 'read_tikz',
           'covered_cells', 'check_modules', 'parse_svg_path', 'parse_color',
           'SVG_COLORS')

_TOL = 1e-6
_MAX_PROBLEMS = 100


class Vector(object):
    """\
    Result of reading a vector document.

    page_width, page_height
        in output units as declared by the document (SVG width/height or
        viewBox if there is no width; EPS %%BoundingBox; PDF /MediaBox; TikZ:
        not declared -> None)
    scale
        scale factor the document applies to the module grid; 1.0 if none
    segments
        stroked horizontal segments (x1, y, x2, y) in MODULE units, y measured
        from the TOP of the page, border offset NOT removed
    line_width
        in module units
    stroke
        (r, g, b) 0..255 or (r, g, b, a) (a: float 0..1) if the document gives
        an opacity; None if the document does not set a colour (= black)
    background
        colour of the (largest) filled axis-parallel rectangle, if any
    background_box
        (x, y, w, h) of that fill in module units, y from the top
    problems
        well-formedness violations
    info
        everything else which has been found
    """
    def __init__(self, kind=''):
        self.kind = kind
        self.page_width = None
        self.page_height = None
        self.scale = 1.0
        self.segments = []
        self.line_width = 1.0
        self.stroke = None
        self.background = None
        self.background_box = None
        self.problems = []
        self.info = {}

    def problem(self, msg):
        if msg in self.problems:
            return
        if len(self.problems) == _MAX_PROBLEMS:
            self.problems.append('... more problems suppressed')
        if len(self.problems) > _MAX_PROBLEMS:
            return
        self.problems.append(msg)

    def warn(self, msg):
        lst = self.info.setdefault('warnings', [])
        if msg not in lst and len(lst) < _MAX_PROBLEMS:
            lst.append(msg)

    def __repr__(self):
        return ('<Vector %s page=%rx%r scale=%r segments=%d line_width=%r stroke=%r '
                'background=%r box=%r problems=%d>'
                % (self.kind, self.page_width, self.page_height, self.scale,
                   len(self.segments), self.line_width, self.stroke,
                   self.background, self.background_box, len(self.problems)))


# ---------------------------------------------------------------------------
# Colours
# ---------------------------------------------------------------------------
def _hx(s):
    return (int(s[0:2], 16), int(s[2:4], 16), int(s[4:6], 16))


# SVG 1.1 / CSS3 named colours (147) plus CSS4 "rebeccapurple"
SVG_COLORS = dict((k, _hx(v)) for k, v in (
    ('aliceblue', 'f0f8ff'), ('antiquewhite', 'faebd7'), ('aqua', '00ffff'),
    ('aquamarine', '7fffd4'), ('azure', 'f0ffff'), ('beige', 'f5f5dc'),
    ('bisque', 'ffe4c4'), ('black', '000000'), ('blanchedalmond', 'ffebcd'),
    ('blue', '0000ff'), ('blueviolet', '8a2be2'), ('brown', 'a52a2a'),
    ('burlywood', 'deb887'), ('cadetblue', '5f9ea0'), ('chartreuse', '7fff00'),
    ('chocolate', 'd2691e'), ('coral', 'ff7f50'), ('cornflowerblue', '6495ed'),
    ('cornsilk', 'fff8dc'), ('crimson', 'dc143c'), ('cyan', '00ffff'),
    ('darkblue', '00008b'), ('darkcyan', '008b8b'), ('darkgoldenrod', 'b8860b'),
    ('darkgray', 'a9a9a9'), ('darkgreen', '006400'), ('darkgrey', 'a9a9a9'),
    ('darkkhaki', 'bdb76b'), ('darkmagenta', '8b008b'), ('darkolivegreen', '556b2f'),
    ('darkorange', 'ff8c00'), ('darkorchid', '9932cc'), ('darkred', '8b0000'),
    ('darksalmon', 'e9967a'), ('darkseagreen', '8fbc8f'), ('darkslateblue', '483d8b'),
    ('darkslategray', '2f4f4f'), ('darkslategrey', '2f4f4f'), ('darkturquoise', '00ced1'),
    ('darkviolet', '9400d3'), ('deeppink', 'ff1493'), ('deepskyblue', '00bfff'),
    ('dimgray', '696969'), ('dimgrey', '696969'), ('dodgerblue', '1e90ff'),
    ('firebrick', 'b22222'), ('floralwhite', 'fffaf0'), ('forestgreen', '228b22'),
    ('fuchsia', 'ff00ff'), ('gainsboro', 'dcdcdc'), ('ghostwhite', 'f8f8ff'),
    ('gold', 'ffd700'), ('goldenrod', 'daa520'), ('gray', '808080'),
    ('grey', '808080'), ('green', '008000'), ('greenyellow', 'adff2f'),
    ('honeydew', 'f0fff0'), ('hotpink', 'ff69b4'), ('indianred', 'cd5c5c'),
    ('indigo', '4b0082'), ('ivory', 'fffff0'), ('khaki', 'f0e68c'),
    ('lavender', 'e6e6fa'), ('lavenderblush', 'fff0f5'), ('lawngreen', '7cfc00'),
    ('lemonchiffon', 'fffacd'), ('lightblue', 'add8e6'), ('lightcoral', 'f08080'),
    ('lightcyan', 'e0ffff'), ('lightgoldenrodyellow', 'fafad2'), ('lightgray', 'd3d3d3'),
    ('lightgreen', '90ee90'), ('lightgrey', 'd3d3d3'), ('lightpink', 'ffb6c1'),
    ('lightsalmon', 'ffa07a'), ('lightseagreen', '20b2aa'), ('lightskyblue', '87cefa'),
    ('lightslategray', '778899'), ('lightslategrey', '778899'), ('lightsteelblue', 'b0c4de'),
    ('lightyellow', 'ffffe0'), ('lime', '00ff00'), ('limegreen', '32cd32'),
    ('linen', 'faf0e6'), ('magenta', 'ff00ff'), ('maroon', '800000'),
    ('mediumaquamarine', '66cdaa'), ('mediumblue', '0000cd'), ('mediumorchid', 'ba55d3'),
    ('mediumpurple', '9370db'), ('mediumseagreen', '3cb371'), ('mediumslateblue', '7b68ee'),
    ('mediumspringgreen', '00fa9a'), ('mediumturquoise', '48d1cc'), ('mediumvioletred', 'c71585'),
    ('midnightblue', '191970'), ('mintcream', 'f5fffa'), ('mistyrose', 'ffe4e1'),
    ('moccasin', 'ffe4b5'), ('navajowhite', 'ffdead'), ('navy', '000080'),
    ('oldlace', 'fdf5e6'), ('olive', '808000'), ('olivedrab', '6b8e23'),
    ('orange', 'ffa500'), ('orangered', 'ff4500'), ('orchid', 'da70d6'),
    ('palegoldenrod', 'eee8aa'), ('palegreen', '98fb98'), ('paleturquoise', 'afeeee'),
    ('palevioletred', 'db7093'), ('papayawhip', 'ffefd5'), ('peachpuff', 'ffdab9'),
    ('peru', 'cd853f'), ('pink', 'ffc0cb'), ('plum', 'dda0dd'),
    ('powderblue', 'b0e0e6'), ('purple', '800080'), ('red', 'ff0000'),
    ('rosybrown', 'bc8f8f'), ('royalblue', '4169e1'), ('saddlebrown', '8b4513'),
    ('salmon', 'fa8072'), ('sandybrown', 'f4a460'), ('seagreen', '2e8b57'),
    ('seashell', 'fff5ee'), ('sienna', 'a0522d'), ('silver', 'c0c0c0'),
    ('skyblue', '87ceeb'), ('slateblue', '6a5acd'), ('slategray', '708090'),
    ('slategrey', '708090'), ('snow', 'fffafa'), ('springgreen', '00ff7f'),
    ('steelblue', '4682b4'), ('tan', 'd2b48c'), ('teal', '008080'),
    ('thistle', 'd8bfd8'), ('tomato', 'ff6347'), ('turquoise', '40e0d0'),
    ('violet', 'ee82ee'), ('wheat', 'f5deb3'), ('white', 'ffffff'),
    ('whitesmoke', 'f5f5f5'), ('yellow', 'ffff00'), ('yellowgreen', '9acd32'),
    ('rebeccapurple', '663399'),
))


def _clamp255(v):
    return max(0, min(255, int(round(v))))


def _css_component(s):
    s = s.strip()
    if s.endswith('%'):
        return _clamp255(float(s[:-1]) * 255.0 / 100.0)
    return _clamp255(float(s))


def _css_alpha(s):
    s = s.strip()
    if s.endswith('%'):
        return max(0.0, min(1.0, float(s[:-1]) / 100.0))
    return max(0.0, min(1.0, float(s)))


def _parse_css_color(s):
    """\
    Parses a CSS / SVG colour value.  Returns (r, g, b), (r, g, b, a) or None
    if the value is not a colour.
    """
    t = s.strip().lower()
    if t in SVG_COLORS:
        return SVG_COLORS[t]
    if t == 'transparent':
        return (0, 0, 0, 0.0)
    m = re.match(r'^#([0-9a-f]+)$', t)
    if m:
        h = m.group(1)
        if len(h) in (3, 4):
            h = ''.join(c + c for c in h)
        if len(h) == 6:
            return _hx(h)
        if len(h) == 8:
            return _hx(h) + (int(h[6:8], 16) / 255.0,)
        return None
    m = re.match(r'^rgba?\(\s*(.*?)\s*\)$', t)
    if m:
        parts = [p for p in re.split(r'\s*,\s*|\s*/\s*|\s+', m.group(1)) if p != '']
        try:
            if len(parts) == 3:
                return tuple(_css_component(p) for p in parts)
            if len(parts) == 4:
                return tuple(_css_component(p) for p in parts[:3]) + (_css_alpha(parts[3]),)
        except ValueError:
            return None
    return None


def parse_color(color):
    """\
    Normalises a colour specification as accepted by the harness:
    a CSS colour string (name, #rgb, #rgba, #rrggbb, #rrggbbaa, rgb(), rgba())
    or a tuple (r, g, b[, a]) of ints 0..255 or of floats 0.0..1.0
    (the alpha value may be a float 0..1 or an int 0..255).

    Returns (r, g, b) or (r, g, b, a) with a as float 0..1; None if `color` is
    None; raises ValueError for anything else.
    """
    if color is None:
        return None
    if isinstance(color, str):
        res = _parse_css_color(color)
        if res is None:
            raise ValueError('Not a colour: %r' % (color,))
        return res
    t = tuple(color)
    if len(t) not in (3, 4):
        raise ValueError('Not a colour: %r' % (color,))
    rgb = t[:3]
    if any(isinstance(c, float) for c in rgb) and all(0.0 <= c <= 1.0 for c in rgb):
        rgb = tuple(_clamp255(c * 255.0) for c in rgb)
    else:
        rgb = tuple(_clamp255(c) for c in rgb)
    if len(t) == 4:
        a = t[3]
        a = float(a) if isinstance(a, float) else a / 255.0
        return rgb + (max(0.0, min(1.0, a)),)
    return rgb


def _float_rgb(r, g, b):
    """(r, g, b) floats 0..1 -> ints 0..255"""
    return (_clamp255(r * 255.0), _clamp255(g * 255.0), _clamp255(b * 255.0))


def _cmyk_rgb(c, m, y, k):
    return _float_rgb((1 - min(1.0, c + k)), (1 - min(1.0, m + k)), (1 - min(1.0, y + k)))


def _colors_equal(found, wanted):
    """found / wanted: normalised tuples; compares rgb and alpha if both have one"""
    if tuple(found[:3]) != tuple(wanted[:3]):
        return False
    if len(found) == 4 and len(wanted) == 4:
        return abs(found[3] - wanted[3]) <= 0.006
    return True


# ---------------------------------------------------------------------------
# Affine maps: (a, b, c, d, e, f):  x' = a*x + c*y + e,  y' = b*x + d*y + f
# ---------------------------------------------------------------------------
_IDENT = (1.0, 0.0, 0.0, 1.0, 0.0, 0.0)


def _mat_mul(m, n):
    """Returns the map which applies `m` first and then `n`."""
    a, b, c, d, e, f = m
    A, B, C, D, E, F = n
    return (a * A + b * C, a * B + b * D,
            c * A + d * C, c * B + d * D,
            e * A + f * C + E, e * B + f * D + F)


def _mat_apply(m, x, y):
    return (m[0] * x + m[2] * y + m[4], m[1] * x + m[3] * y + m[5])


def _mat_delta(m, dx, dy):
    return (m[0] * dx + m[2] * dy, m[1] * dx + m[3] * dy)


def _mat_scale(m):
    """Returns the uniform scale factor of `m` (sqrt of |det|)."""
    return math.sqrt(abs(m[0] * m[3] - m[1] * m[2]))


def _mat_is_uniform(m):
    """True if `m` is a positive uniform scale plus translation (no rotation,
    no skew, no mirroring)."""
    s = max(abs(m[0]), abs(m[3]), 1e-300)
    return (abs(m[1]) <= 1e-9 * s and abs(m[2]) <= 1e-9 * s
            and abs(m[0] - m[3]) <= 1e-9 * s and m[0] > 0)


def _close(a, b, rel=_TOL):
    return abs(a - b) <= rel * max(1.0, abs(a), abs(b))


# ---------------------------------------------------------------------------
# Common post-processing: device space -> module units
# ---------------------------------------------------------------------------
def _finalise(vec, strokes, fills, page, yup):
    """\
    strokes: list of dict(segs=[(x1, y1, x2, y2)] in device space, color, lw (device
             units), ctm (matrix in effect when stroking), order)
    fills:   list of dict(polys=[[(x, y), ...]] in device space, color, order, via)
    page:    (x0, y0, w, h) in device space or None
    yup:     True if the device y axis points upwards
    """
    if page is not None:
        x0, y0, pw, ph = page
        vec.page_width, vec.page_height = pw, ph
    else:
        x0 = y0 = 0.0
        ph = 0.0

    def top(x, y):
        if yup:
            return (x - x0, (y0 + ph) - y)
        return (x - x0, y - y0)

    scale = 1.0
    if strokes:
        first = strokes[0]
        scale = _mat_scale(first['ctm'])
        if not _mat_is_uniform(first['ctm']):
            vec.problem('The stroked path is drawn under a transformation which is not a '
                        'positive uniform scale: %r' % (first['ctm'][:4],))
        for st in strokes[1:]:
            if not _close(_mat_scale(st['ctm']), scale):
                vec.problem('Stroked paths use different scales: %r vs. %r'
                            % (scale, _mat_scale(st['ctm'])))
    elif fills and fills[0].get('ctm') is not None:
        scale = _mat_scale(fills[0]['ctm'])
    if 'scale_override' in vec.info:
        scale = vec.info['scale_override']
    if not (scale > 0 and scale < float('inf')):
        vec.problem('Invalid scale %r' % (scale,))
        scale = 1.0
    vec.scale = scale
    colours = []
    widths = []
    others = []
    zero = 0
    for st in strokes:
        if st['color'] not in colours:
            colours.append(st['color'])
        lw = st['lw'] / scale
        if not any(_close(lw, w) for w in widths):
            widths.append(lw)
        if st.get('cap', 0) != 0:
            vec.problem('Stroke uses a line cap other than "butt": %r' % (st.get('cap'),))
        for (x1, y1, x2, y2) in st['segs']:
            X1, Y1 = top(x1, y1)
            X2, Y2 = top(x2, y2)
            X1, Y1, X2, Y2 = X1 / scale, Y1 / scale, X2 / scale, Y2 / scale
            if abs(X1 - X2) <= 1e-9 and abs(Y1 - Y2) <= 1e-9:
                zero += 1
                continue
            if abs(Y1 - Y2) > 1e-7 * max(1.0, abs(Y1)):
                others.append((X1, Y1, X2, Y2))
                continue
            if X2 < X1:
                X1, X2 = X2, X1
            vec.segments.append((X1, Y1, X2, Y1))
    if strokes:
        vec.stroke = colours[0]
        vec.line_width = widths[0]
        vec.info['strokes'] = colours
        if len(widths) > 1:
            vec.problem('Different line widths are used: %r' % (widths,))
    if zero:
        vec.info['zero_length_segments'] = zero
    if others:
        vec.info['other_segments'] = others
        vec.problem('%d stroked segment(s) which are not horizontal, first: %r'
                    % (len(others), others[0]))
    # Fills
    rects = []
    first_stroke_order = min([st['order'] for st in strokes]) if strokes else None
    for fl in fills:
        for poly in fl['polys']:
            pts = []
            for (x, y) in poly:
                X, Y = top(x, y)
                p = (X / scale, Y / scale)
                if not pts or abs(p[0] - pts[-1][0]) > 1e-9 or abs(p[1] - pts[-1][1]) > 1e-9:
                    pts.append(p)
            if len(pts) > 1 and abs(pts[0][0] - pts[-1][0]) <= 1e-9 and abs(pts[0][1] - pts[-1][1]) <= 1e-9:
                pts.pop()
            if len(pts) < 3:
                continue
            area = 0.0
            axis = True
            for i, (px, py) in enumerate(pts):
                qx, qy = pts[(i + 1) % len(pts)]
                area += px * qy - qx * py
                if abs(px - qx) > 1e-7 * max(1.0, abs(px)) and abs(py - qy) > 1e-7 * max(1.0, abs(py)):
                    axis = False
            area = abs(area) / 2.0
            if area <= 1e-12:
                continue  # degenerate, paints nothing
            xs = [p[0] for p in pts]
            ys = [p[1] for p in pts]
            bx, by, bw, bh = min(xs), min(ys), max(xs) - min(xs), max(ys) - min(ys)
            if not axis or not _close(area, bw * bh):
                vec.problem('A filled path is not an axis-parallel rectangle: %r' % (pts[:6],))
                continue
            rects.append(dict(box=(bx, by, bw, bh), color=fl['color'], order=fl['order'],
                              via=fl.get('via'), area=area))
    if rects:
        vec.info['fills'] = [(r['box'], r['color']) for r in rects]
        bg = max(rects, key=lambda r: r['area'])
        vec.background = bg['color']
        vec.background_box = bg['box']
        if bg.get('via'):
            vec.info['background_via'] = bg['via']
        if first_stroke_order is not None and bg['order'] > first_stroke_order:
            vec.info['background_after_stroke'] = True


# ---------------------------------------------------------------------------
# Rasterisation and the module check
# ---------------------------------------------------------------------------
def _rasterise(segments, line_width, yshift=0.0):
    cells = {}
    problems = []
    if not _close(line_width, 1.0):
        problems.append('Line width is %r module(s), expected 1' % (line_width,))
    bad_y = []
    bad_x = []
    for (x1, y, x2, _y2) in segments:
        y = y + yshift
        r = y - 0.5
        ri = int(round(r))
        if abs(r - ri) > 1e-6:
            bad_y.append((x1, y, x2, y))
            ri = int(math.floor(r))
        c1, c2 = int(round(x1)), int(round(x2))
        if abs(x1 - c1) > 1e-6 or abs(x2 - c2) > 1e-6:
            bad_x.append((x1, y, x2, y))
            c1, c2 = int(math.floor(x1)), int(math.ceil(x2))
        for c in range(min(c1, c2), max(c1, c2)):
            cells[(ri, c)] = cells.get((ri, c), 0) + 1
    if bad_y:
        problems.append('%d segment(s) do not lie on the vertical centre of a module row '
                        '(y - 0.5 is not integral), first: %r' % (len(bad_y), bad_y[0]))
    if bad_x:
        problems.append('%d segment(s) do not start / end at a module boundary '
                        '(x is not integral), first: %r' % (len(bad_x), bad_x[0]))
    return cells, problems


def covered_cells(vec):
    """\
    Rasterises the segments on the module grid.  Returns {(row, col): count},
    rows / cols counted from the top-left of the PAGE (border included).
    Problems (line width != 1, segments off the grid) are added to
    ``vec.problems``.
    """
    cells, problems = _rasterise(vec.segments, vec.line_width)
    for p in problems:
        vec.problem(p)
    return cells


def _examples(items, n=5):
    items = sorted(items)
    return ', '.join(repr(i) for i in items[:n]) + (', ...' if len(items) > n else '')


def check_modules(matrix, vec, scale, border, dark=None, light=None, strict_origin=False):
    """\
    Checks `vec` against the symbol `matrix` (sequence of rows, truthy = dark).
    Returns the list of problems (incl. the well-formedness problems of the
    reader).

    For documents which do not declare a page (PGF) the origin has no influence
    on the rendering; unless `strict_origin` is true a drawing whose rows are
    centred on integral y values (i.e. shifted by half a module) is accepted
    and the shift is recorded in ``vec.info['origin_shift_y']``.
    """
    problems = list(vec.problems)

    def add(msg):
        if msg not in problems:
            problems.append(msg)

    rows = [list(r) for r in matrix]
    h = len(rows)
    w = len(rows[0]) if rows else 0
    W, H = w + 2 * border, h + 2 * border
    # Page
    if vec.page_width is not None and vec.page_height is not None:
        ew, eh = W * scale, H * scale
        if not _close(vec.page_width, ew) or not _close(vec.page_height, eh):
            add('Page is %r x %r, expected %r x %r ((size + 2 * border) * scale)'
                % (vec.page_width, vec.page_height, ew, eh))
    elif vec.kind != 'tikz':
        add('The document does not declare a page size')
    # Scale
    if not _close(vec.scale, scale):
        add('Document scale is %r, expected %r' % (vec.scale, scale))
    # Cover
    yshift = 0.0
    if vec.page_width is None and vec.segments:
        if all(abs(s[1] - round(s[1])) <= 1e-6 for s in vec.segments):
            if strict_origin:
                add('All rows are centred on integral y values: relative to the origin the drawing is '
                    'shifted upwards by half a module (first row centred at y = border instead of border + 0.5)')
            else:
                yshift = 0.5
                vec.info['origin_shift_y'] = 0.5
    cells, rproblems = _rasterise(vec.segments, vec.line_width, yshift)
    for p in rproblems:
        add(p)
    expected = set()
    for r, row in enumerate(rows):
        for c, v in enumerate(row):
            if v:
                expected.add((r + border, c + border))
    missing = [rc for rc in expected if rc not in cells]
    multi = [rc for rc in expected if cells.get(rc, 0) > 1]
    outside = [rc for rc in cells if not (0 <= rc[0] < H and 0 <= rc[1] < W)]
    extra = [rc for rc in cells if rc not in expected and (0 <= rc[0] < H and 0 <= rc[1] < W)]
    if missing:
        add('%d dark module(s) not covered, (row, col) incl. border: %s' % (len(missing), _examples(missing)))
    if multi:
        add('%d dark module(s) covered more than once: %s' % (len(multi), _examples(multi)))
    if extra:
        add('%d light / quiet zone cell(s) covered: %s' % (len(extra), _examples(extra)))
    if outside:
        add('%d covered cell(s) outside of the page: %s' % (len(outside), _examples(outside)))
    off = [s for s in vec.segments
           if s[0] < -1e-6 or s[2] > W + 1e-6 or s[1] + yshift - 0.5 < -1e-6 or s[1] + yshift + 0.5 > H + 1e-6]
    if off and not outside:
        add('%d segment(s) extend beyond the page: %s' % (len(off), _examples(off)))
    if len(vec.info.get('strokes', ())) > 1:
        add('More than one stroke colour is used: %r' % (vec.info['strokes'],))
    # Colours
    if dark is not None:
        wanted = parse_color(dark)
        found = vec.stroke if vec.stroke is not None else (0, 0, 0)
        if vec.segments or expected:
            if not _colors_equal(found, wanted):
                add('Stroke colour is %r, expected %r' % (vec.stroke, wanted))
    if light is not None:
        wanted = parse_color(light)
        if vec.background is None:
            add('No background fill found, expected %r' % (wanted,))
        else:
            if not _colors_equal(vec.background, wanted):
                add('Background colour is %r, expected %r' % (vec.background, wanted))
            # Compare in page units if the document declares a page, else in modules
            if vec.page_width is not None and vec.page_height is not None:
                f, pw, ph, what = vec.scale, vec.page_width, vec.page_height, 'page units'
            else:
                f, pw, ph, what = 1.0, W, H, 'module units'
            bx, by, bw, bh = [v * f for v in vec.background_box]
            tol = 1e-6 * max(1.0, pw, ph)
            if bx > tol or by > tol or bx + bw < pw - tol or by + bh < ph - tol:
                add('Background fill (x, y, w, h) = %r does not cover the page (0, 0, %r, %r) [%s]'
                    % ((bx, by, bw, bh), pw, ph, what))
            elif bx < -tol or by < -tol or bx + bw > pw + tol or by + bh > ph + tol:
                vec.warn('Background fill (x, y, w, h) = %r extends beyond the page (0, 0, %r, %r) [%s]'
                         % ((bx, by, bw, bh), pw, ph, what))
            if vec.info.get('background_after_stroke'):
                add('The background is painted after (= over) the modules')
            if len(vec.info.get('fills', ())) > 1:
                add('More than one filled area: %r' % (vec.info['fills'],))
    elif vec.background is not None:
        add('Unexpected background fill %r %r' % (vec.background, vec.background_box))
    return problems


# ---------------------------------------------------------------------------
# SVG
# ---------------------------------------------------------------------------
_SVG_NS = 'http://www.w3.org/2000/svg'
_NUM = r'[+-]?(?:\d+\.?\d*|\.\d+)(?:[eE][+-]?\d+)?'
_NUM_RE = re.compile(_NUM)
_LENGTH_RE = re.compile(r'^\s*(' + _NUM + r')\s*(em|ex|px|pt|pc|cm|mm|in|%)?\s*$')
_PATH_ARGS = {'M': 2, 'L': 2, 'H': 1, 'V': 1, 'Z': 0,
              'C': 6, 'S': 4, 'Q': 4, 'T': 2, 'A': 7}


def parse_svg_path(d):
    """\
    Parses SVG path data (commands M m L l H h V v Z z).

    Returns (subpaths, problems); a subpath is a dict with the keys ``pts``
    (list of absolute (x, y)) and ``closed``.  According to the SVG error
    handling rules the path is read up to the first error.
    """
    problems = []
    tokens = []
    i, n = 0, len(d)
    while i < n:
        c = d[i]
        if c in ' \t\r\n\x0c,':
            i += 1
            continue
        if c in 'MmZzLlHhVvCcSsQqTtAa':
            tokens.append(c)
            i += 1
            continue
        m = _NUM_RE.match(d, i)
        if m:
            tokens.append(float(m.group()))
            i = m.end()
            continue
        problems.append('Path data: unexpected character %r at position %d' % (c, i))
        break
    subpaths = []
    cur = (0.0, 0.0)
    start = (0.0, 0.0)
    sub = None
    k = 0
    first = True
    while k < len(tokens):
        cmd = tokens[k]
        if not isinstance(cmd, str):
            problems.append('Path data: number %r without command' % (cmd,))
            break
        k += 1
        up = cmd.upper()
        if first and up != 'M':
            problems.append('Path data does not start with a moveto but with %r' % (cmd,))
            break
        nargs = _PATH_ARGS[up]
        if up in 'CSQTA':
            problems.append('Path data: unsupported command %r (curves / arcs)' % (cmd,))
            break
        if nargs == 0:
            if sub is not None:
                sub['closed'] = True
            cur = start
            sub = None
            if k < len(tokens) and not isinstance(tokens[k], str):
                problems.append('Path data: number after closepath')
                break
            first = False
            continue
        groups = 0
        error = False
        while True:
            args = tokens[k:k + nargs]
            if len(args) < nargs or any(isinstance(a, str) for a in args):
                if groups == 0 or (args and not isinstance(args[0], str)):
                    problems.append('Path data: command %r with incomplete arguments' % (cmd,))
                    error = True
                break
            k += nargs
            rel = cmd.islower() and not (first and groups == 0)
            if up == 'M' and groups == 0:
                x, y = args
                if rel:
                    x, y = cur[0] + x, cur[1] + y
                cur = (x, y)
                start = cur
                sub = {'pts': [cur], 'closed': False}
                subpaths.append(sub)
            else:
                if up in 'ML':
                    x, y = args
                    if cmd.islower():
                        x, y = cur[0] + x, cur[1] + y
                elif up == 'H':
                    x, y = (cur[0] + args[0] if cmd.islower() else args[0]), cur[1]
                else:
                    x, y = cur[0], (cur[1] + args[0] if cmd.islower() else args[0])
                if sub is None:
                    # Drawing command after closepath: new subpath at the current point
                    start = cur
                    sub = {'pts': [cur], 'closed': False}
                    subpaths.append(sub)
                cur = (x, y)
                sub['pts'].append(cur)
            groups += 1
            first = False
            if k >= len(tokens) or isinstance(tokens[k], str):
                break
        if error:
            break
    return subpaths, problems


def _svg_transform(value, problems):
    """Parses a transform list; returns the matrix mapping local -> parent."""
    result = _IDENT
    pos = 0
    s = value.strip()
    items = []
    while pos < len(s):
        m = re.compile(r'[\s,]*([A-Za-z]+)\s*\(([^)]*)\)[\s,]*').match(s, pos)
        if not m:
            problems.append('Cannot parse transform %r' % (value,))
            return result
        pos = m.end()
        name = m.group(1)
        try:
            args = [float(x) for x in _NUM_RE.findall(m.group(2))]
        except ValueError:
            args = []
        rest = _NUM_RE.sub('', m.group(2)).replace(',', '').strip()
        if rest:
            problems.append('Cannot parse transform arguments %r' % (m.group(2),))
            return result
        if name == 'scale' and len(args) in (1, 2):
            sx = args[0]
            sy = args[1] if len(args) == 2 else sx
            items.append((sx, 0.0, 0.0, sy, 0.0, 0.0))
        elif name == 'translate' and len(args) in (1, 2):
            items.append((1.0, 0.0, 0.0, 1.0, args[0], args[1] if len(args) == 2 else 0.0))
        elif name == 'matrix' and len(args) == 6:
            items.append(tuple(args))
        elif name == 'rotate' and len(args) in (1, 3):
            a = math.radians(args[0])
            rot = (math.cos(a), math.sin(a), -math.sin(a), math.cos(a), 0.0, 0.0)
            if len(args) == 3:
                cx, cy = args[1], args[2]
                rot = _mat_mul(_mat_mul((1.0, 0.0, 0.0, 1.0, -cx, -cy), rot), (1.0, 0.0, 0.0, 1.0, cx, cy))
            items.append(rot)
        elif name == 'skewX' and len(args) == 1:
            items.append((1.0, 0.0, math.tan(math.radians(args[0])), 1.0, 0.0, 0.0))
        elif name == 'skewY' and len(args) == 1:
            items.append((1.0, math.tan(math.radians(args[0])), 0.0, 1.0, 0.0, 0.0))
        else:
            problems.append('Invalid transform %s(%s)' % (name, m.group(2)))
            return result
    # "transform='A B'": B is applied first to the coordinates, then A
    for it in reversed(items):
        result = _mat_mul(result, it)
    return result


_SVG_PROPS = ('stroke', 'fill', 'stroke-width', 'stroke-opacity', 'fill-opacity',
              'stroke-linecap', 'fill-rule', 'display', 'visibility', 'opacity',
              'stroke-dasharray')


def _svg_local(tag):
    if tag.startswith('{'):
        ns, _, local = tag[1:].partition('}')
        return ns, local
    return None, tag


def _svg_paint(vec, value, opacity, what):
    """Returns None (paints nothing) or a colour tuple."""
    v = value.strip()
    if v.lower() == 'none':
        return None
    clr = _parse_css_color(v)
    if clr is None:
        vec.problem('Unsupported or invalid %s paint %r' % (what, value))
        return None
    alpha = None
    if len(clr) == 4:
        alpha = clr[3]
        clr = clr[:3]
    for o in opacity:
        if o is not None:
            alpha = o if alpha is None else alpha * o
    if alpha is None:
        return clr
    return clr + (alpha,)


def _svg_float(vec, value, default, name):
    if value is None:
        return default
    m = _LENGTH_RE.match(value)
    if not m or m.group(2) not in (None, 'px'):
        vec.problem('Unsupported value %r for %s' % (value, name))
        return default
    return float(m.group(1))


def _svg_opacity(vec, value, name):
    if value is None:
        return None
    try:
        v = value.strip()
        return max(0.0, min(1.0, float(v[:-1]) / 100.0 if v.endswith('%') else float(v)))
    except ValueError:
        vec.problem('Invalid %s %r' % (name, value))
        return None


def read_svg(data):
    """Reads a SVG document (bytes or str)."""
    vec = Vector('svg')
    try:
        _read_svg(vec, data)
    except Exception as ex:  # pragma: no cover - safety net
        vec.problem('Internal reader error: %s: %s' % (type(ex).__name__, ex))
    return vec


def _read_svg(vec, data):
    info = vec.info
    if isinstance(data, str):
        text = data
        raw = data.encode('utf-8')
        parser = ET.XMLParser(encoding='utf-8')
    else:
        raw = bytes(data)
        text = raw.decode('latin-1')
        parser = ET.XMLParser()
    m = re.match(r'<\?xml\s+version\s*=\s*["\']([^"\']*)["\'](?:\s+encoding\s*=\s*["\']([^"\']*)["\'])?', text)
    info['xmldecl'] = bool(m)
    if m:
        info['xml_version'] = m.group(1)
        info['encoding'] = m.group(2)
    info['trailing_newline'] = text.endswith('\n')
    try:
        parser.feed(raw)
        root = parser.close()
    except ET.ParseError as ex:
        vec.problem('XML is not well-formed: %s' % (ex,))
        return
    except (LookupError, ValueError) as ex:
        vec.problem('XML cannot be decoded: %s' % (ex,))
        return
    ns, local = _svg_local(root.tag)
    info['namespace'] = ns
    if local != 'svg':
        vec.problem('Root element is <%s>, expected <svg>' % (local,))
        return
    if ns is not None and ns != _SVG_NS:
        vec.problem('Root element is in namespace %r, expected %r' % (ns, _SVG_NS))
    for key in ('class', 'id', 'version'):
        if root.get(key) is not None:
            info[key] = root.get(key)
    # Viewport
    width = height = None
    unit = None
    for name in ('width', 'height'):
        v = root.get(name)
        if v is None:
            continue
        m = _LENGTH_RE.match(v)
        if not m:
            vec.problem('Invalid %s %r' % (name, v))
            continue
        u = m.group(2) or ''
        if u == '%':
            info[name + '_percent'] = float(m.group(1))
            continue
        if float(m.group(1)) < 0:
            vec.problem('Negative %s %r' % (name, v))
            continue
        if name == 'width':
            width = float(m.group(1))
            unit = u
        else:
            height = float(m.group(1))
            if unit is not None and u != unit:
                vec.problem('width and height use different units: %r / %r' % (unit, u))
    if unit is not None:
        info['unit'] = unit
    viewbox = None
    vb = root.get('viewBox')
    if vb is not None:
        parts = [p for p in re.split(r'[\s,]+', vb.strip()) if p]
        try:
            nums = [float(p) for p in parts]
            if len(nums) != 4 or nums[2] < 0 or nums[3] < 0 or any(not _NUM_RE.fullmatch(p) for p in parts):
                raise ValueError()
            viewbox = tuple(nums)
            info['viewBox'] = viewbox
        except ValueError:
            vec.problem('Invalid viewBox %r' % (vb,))
    if (width is None) != (height is None):
        vec.problem('Only one of width / height is given')
        width = height = None
    base = _IDENT
    page = None
    if width is not None:
        page = (0.0, 0.0, width, height)
        if viewbox is not None:
            minx, miny, vw, vh = viewbox
            if vw <= 0 or vh <= 0:
                vec.problem('viewBox with zero size disables rendering')
            else:
                sx, sy = width / vw, height / vh
                if not _close(sx, sy):
                    vec.problem('viewBox %r and width / height %r x %r have different aspect ratios'
                                % (viewbox, width, height))
                base = (sx, 0.0, 0.0, sy, -minx * sx, -miny * sy)
        info['user_width'], info['user_height'] = (viewbox[2], viewbox[3]) if viewbox else (width, height)
    elif viewbox is not None:
        minx, miny, vw, vh = viewbox
        page = (0.0, 0.0, vw, vh)
        base = (1.0, 0.0, 0.0, 1.0, -minx, -miny)
        info['user_width'], info['user_height'] = vw, vh
        info['page_from'] = 'viewBox'
    else:
        vec.problem('Neither width / height nor a viewBox is given')
    if root.get('transform') is not None:
        vec.warn('transform attribute on the root <svg> element (not valid in SVG 1.1) is ignored')
    strokes = []
    fills = []
    counter = [0]

    def props_of(el, inherited):
        props = dict(inherited)
        # "opacity" is not inherited but applies to the whole subtree -> multiply
        own = {}
        for name in _SVG_PROPS:
            if el.get(name) is not None:
                own[name] = el.get(name)
        style = el.get('style')
        if style:
            for decl in style.split(';'):
                if ':' in decl:
                    k, _, v = decl.partition(':')
                    k = k.strip().lower()
                    if k in _SVG_PROPS:
                        own[k] = v.strip()
        for k, v in own.items():
            if v.strip().lower() == 'inherit':
                continue
            if k == 'opacity':
                o = _svg_opacity(vec, v, 'opacity')
                if o is not None:
                    props['opacity'] = o if props.get('opacity') is None else props['opacity'] * o
            else:
                props[k] = v
        return props

    def paint(el, ctm, props, subpaths):
        if props.get('display', '').strip() == 'none' or props.get('visibility', 'visible').strip() in ('hidden', 'collapse'):
            info['invisible_elements'] = info.get('invisible_elements', 0) + 1
            return
        counter[0] += 1
        order = counter[0]
        painted = False
        fill = _svg_paint(vec, props.get('fill', 'black'),
                          (_svg_opacity(vec, props.get('fill-opacity'), 'fill-opacity'), props.get('opacity')),
                          'fill')
        stroke = _svg_paint(vec, props.get('stroke', 'none'),
                            (_svg_opacity(vec, props.get('stroke-opacity'), 'stroke-opacity'), props.get('opacity')),
                            'stroke')
        if fill is not None and not (len(fill) == 4 and fill[3] == 0.0):
            polys = []
            for sp in subpaths:
                pts = [_mat_apply(ctm, x, y) for (x, y) in sp['pts']]
                if len(pts) >= 3:
                    area = 0.0
                    for i, (px, py) in enumerate(pts):
                        qx, qy = pts[(i + 1) % len(pts)]
                        area += px * qy - qx * py
                    if abs(area) > 1e-12:
                        polys.append(pts)
            if polys:
                fills.append(dict(polys=polys, color=fill, order=order, ctm=ctm))
                painted = True
        if stroke is not None and not (len(stroke) == 4 and stroke[3] == 0.0):
            sw = _svg_float(vec, props.get('stroke-width'), 1.0, 'stroke-width')
            cap = props.get('stroke-linecap', 'butt').strip()
            if props.get('stroke-dasharray', 'none').strip() != 'none':
                vec.problem('stroke-dasharray is used')
            segs = []
            for sp in subpaths:
                pts = [_mat_apply(ctm, x, y) for (x, y) in sp['pts']]
                for i in range(len(pts) - 1):
                    segs.append(pts[i] + pts[i + 1])
                if sp['closed'] and len(pts) > 1:
                    segs.append(pts[-1] + pts[0])
            if segs and sw > 0:
                strokes.append(dict(segs=segs, color=stroke, lw=sw * _mat_scale(ctm), ctm=ctm,
                                    order=order, cap=0 if cap == 'butt' else cap))
                painted = True
        if not painted:
            info['invisible_elements'] = info.get('invisible_elements', 0) + 1

    def user_length(value, name, ref):
        if value is None:
            return 0.0
        m = _LENGTH_RE.match(value)
        if not m:
            vec.problem('Invalid length %r for %s' % (value, name))
            return 0.0
        if m.group(2) == '%':
            if ref is None:
                vec.problem('Percentage %r without known viewport' % (value,))
                return 0.0
            return float(m.group(1)) * ref / 100.0
        if m.group(2) not in (None, 'px'):
            vec.problem('Unsupported unit in %s=%r' % (name, value))
        return float(m.group(1))

    def walk(el, ctm, inherited, is_root=False):
        ens, tag = _svg_local(el.tag)
        if ens != ns:
            if ens is not None and ens != _SVG_NS:
                info.setdefault('foreign_elements', []).append(el.tag)
                return
            vec.problem('Element <%s> is in namespace %r but the root is in %r' % (tag, ens, ns))
        props = props_of(el, inherited)
        if not is_root and el.get('transform') is not None:
            pr = []
            t = _svg_transform(el.get('transform'), pr)
            for p in pr:
                vec.problem(p)
            ctm = _mat_mul(t, ctm)
        if tag in ('svg', 'g'):
            if tag == 'svg' and not is_root:
                vec.problem('Nested <svg> elements are not supported')
                return
            for child in el:
                walk(child, ctm, props)
        elif tag == 'path':
            d = el.get('d')
            if d is None:
                vec.problem('<path> without "d" attribute')
                return
            subpaths, pr = parse_svg_path(d)
            for p in pr:
                vec.problem(p)
            info['paths'] = info.get('paths', 0) + 1
            paint(el, ctm, props, subpaths)
        elif tag == 'rect':
            x = user_length(el.get('x'), 'x', info.get('user_width'))
            y = user_length(el.get('y'), 'y', info.get('user_height'))
            rw = user_length(el.get('width'), 'width', info.get('user_width'))
            rh = user_length(el.get('height'), 'height', info.get('user_height'))
            if (el.get('rx') or '0').strip() not in ('0', '0.0') or (el.get('ry') or '0').strip() not in ('0', '0.0'):
                vec.problem('<rect> with rounded corners')
            if rw > 0 and rh > 0:
                pts = [(x, y), (x + rw, y), (x + rw, y + rh), (x, y + rh)]
                paint(el, ctm, props, [{'pts': pts, 'closed': True}])
        elif tag in ('title', 'desc'):
            info.setdefault(tag, ''.join(el.itertext()))
        elif tag in ('defs', 'style', 'metadata'):
            info.setdefault('ignored_elements', []).append(tag)
        else:
            vec.problem('Unexpected element <%s>' % (tag,))

    walk(root, base, {}, is_root=True)
    _finalise(vec, strokes, fills, page, yup=False)


# ---------------------------------------------------------------------------
# EPS (PostScript)
# ---------------------------------------------------------------------------
class _PSName(str):
    """Executable name"""


class _PSLit(str):
    """Literal name (/name)"""


class _PSProc(list):
    """Procedure { ... }"""


class _PSString(str):
    pass


class _PSMark(object):
    pass


class _PSError(Exception):
    pass


_PS_WS = ' \t\r\n\x0c\x00'
_PS_DELIM = '()<>[]{}/%'
_PS_INT = re.compile(r'^[+-]?\d+$')
_PS_REAL = re.compile(r'^[+-]?(?:\d+\.?\d*|\.\d+)(?:[eE][+-]?\d+)?$')
_PS_RADIX = re.compile(r'^(\d+)#([0-9a-zA-Z]+)$')


def _ps_tokenize(text):
    """Yields tokens: numbers, _PSName, _PSLit, _PSString or the delimiters
    '{', '}', '[', ']', '<<', '>>'.  Raises _PSError on syntax errors."""
    i, n = 0, len(text)
    while i < n:
        c = text[i]
        if c in _PS_WS:
            i += 1
        elif c == '%':
            while i < n and text[i] not in '\r\n':
                i += 1
        elif c == '(':
            depth = 1
            i += 1
            buf = []
            while i < n and depth:
                ch = text[i]
                if ch == '\\' and i + 1 < n:
                    nxt = text[i + 1]
                    m = re.match(r'[0-7]{1,3}', text[i + 1:i + 4])
                    if m:
                        buf.append(chr(int(m.group(), 8) & 0xFF))
                        i += 1 + len(m.group())
                        continue
                    buf.append({'n': '\n', 'r': '\r', 't': '\t', 'b': '\b', 'f': '\x0c',
                                '\n': '', '\r': ''}.get(nxt, nxt))
                    i += 2
                    continue
                if ch == '(':
                    depth += 1
                elif ch == ')':
                    depth -= 1
                    if not depth:
                        i += 1
                        break
                buf.append(ch)
                i += 1
            if depth:
                raise _PSError('unterminated string')
            yield _PSString(''.join(buf))
        elif c == ')':
            raise _PSError('unbalanced ")"')
        elif c == '<':
            if text[i:i + 2] == '<<':
                yield '<<'
                i += 2
            elif text[i:i + 2] == '<~':
                raise _PSError('ASCII85 strings are not supported')
            else:
                j = text.find('>', i)
                if j < 0:
                    raise _PSError('unterminated hex string')
                hx = re.sub(r'\s+', '', text[i + 1:j])
                if not re.match(r'^[0-9a-fA-F]*$', hx):
                    raise _PSError('invalid hex string')
                if len(hx) % 2:
                    hx += '0'
                yield _PSString(''.join(chr(int(hx[k:k + 2], 16)) for k in range(0, len(hx), 2)))
                i = j + 1
        elif c == '>':
            if text[i:i + 2] == '>>':
                yield '>>'
                i += 2
            else:
                raise _PSError('unexpected ">"')
        elif c in '[]{}':
            yield c
            i += 1
        elif c == '/':
            immediate = text[i:i + 2] == '//'
            j = i + (2 if immediate else 1)
            k = j
            while k < n and text[k] not in _PS_WS and text[k] not in _PS_DELIM:
                k += 1
            if immediate:
                raise _PSError('immediately evaluated names are not supported')
            yield _PSLit(text[j:k])
            i = k
        else:
            k = i
            while k < n and text[k] not in _PS_WS and text[k] not in _PS_DELIM:
                k += 1
            tok = text[i:k]
            i = k
            if _PS_INT.match(tok):
                yield int(tok)
            elif _PS_REAL.match(tok):
                yield float(tok)
            else:
                m = _PS_RADIX.match(tok)
                if m and 2 <= int(m.group(1)) <= 36:
                    try:
                        yield int(m.group(2), int(m.group(1)))
                        continue
                    except ValueError:
                        pass
                yield _PSName(tok)


def _ps_parse(text):
    """Returns the program as list of objects (procedures nested)."""
    stack = [[]]
    for tok in _ps_tokenize(text):
        if tok == '{' and not isinstance(tok, (_PSString, _PSName, _PSLit)):
            stack.append(_PSProc())
        elif tok == '}' and not isinstance(tok, (_PSString, _PSName, _PSLit)):
            if len(stack) == 1:
                raise _PSError('unbalanced "}"')
            proc = stack.pop()
            stack[-1].append(proc)
        elif tok in ('[', ']', '<<', '>>') and not isinstance(tok, (_PSString, _PSLit)):
            stack[-1].append(_PSName(tok))
        else:
            stack[-1].append(tok)
    if len(stack) != 1:
        raise _PSError('unbalanced "{"')
    return stack[0]


class _GState(object):
    def __init__(self):
        self.ctm = _IDENT
        self.color = None       # None = initial colour (black), never set
        self.lw = 1.0
        self.cap = 0
        self.path = []          # list of {'pts': [...device...], 'closed': bool}
        self.cur = None         # device space
        self.via = None

    def copy(self):
        g = _GState()
        g.ctm, g.color, g.lw, g.cap, g.cur, g.via = self.ctm, self.color, self.lw, self.cap, self.cur, self.via
        g.path = [{'pts': list(sp['pts']), 'closed': sp['closed']} for sp in self.path]
        return g


class _PSInterp(object):
    def __init__(self, vec, bbox):
        self.vec = vec
        self.bbox = bbox
        self.ostack = []
        self.dstack = [{}]
        self.gs = _GState()
        self.gstack = []
        self.strokes = []
        self.fills = []
        self.order = 0
        self.steps = 0
        self.stopped = False

    # -- helpers
    def pop(self, kind=None):
        if not self.ostack:
            raise _PSError('stackunderflow')
        v = self.ostack.pop()
        if kind == 'num':
            if isinstance(v, bool) or not isinstance(v, (int, float)):
                raise _PSError('typecheck (number expected, got %r)' % (v,))
        elif kind is not None and not isinstance(v, kind):
            raise _PSError('typecheck (got %r)' % (v,))
        return v

    def popn(self, n):
        vals = [self.pop('num') for _ in range(n)]
        vals.reverse()
        return vals

    def lookup(self, name):
        for d in reversed(self.dstack):
            if name in d:
                return d[name]
        return None

    def run(self, objs):
        try:
            for o in objs:
                self.exec_obj(o, 0, True)
                if self.stopped:
                    break
        except _PSError as ex:
            self.vec.problem('PostScript error: %s' % (ex,))
        except RecursionError:
            self.vec.problem('PostScript error: recursion too deep')

    def exec_obj(self, o, depth, direct):
        self.steps += 1
        if self.steps > 2000000:
            raise _PSError('too many steps (endless loop?)')
        if isinstance(o, _PSName):
            val = self.lookup(o)
            if val is not None or any(o in d for d in self.dstack):
                if isinstance(val, _PSProc):
                    if depth > 60:
                        raise _PSError('procedure nesting too deep in %s' % (o,))
                    for item in val:
                        self.exec_obj(item, depth + 1, False)
                elif isinstance(val, _PSName):
                    self.exec_obj(val, depth + 1, False)
                else:
                    self.ostack.append(val)
                return
            meth = _PS_OPS.get(o)
            if meth is None:
                raise _PSError('unknown operator "%s" (undefined)' % (o,))
            try:
                meth(self)
            except _PSError as ex:
                raise _PSError('%s in "%s"' % (ex, o))
            return
        # numbers, strings, literal names, procedures (not executed when encountered)
        self.ostack.append(o)

    # -- path helpers
    def need_cur(self):
        if self.gs.cur is None:
            raise _PSError('nocurrentpoint')
        return self.gs.cur

    def move_to(self, pt):
        gs = self.gs
        if gs.path and len(gs.path[-1]['pts']) == 1 and not gs.path[-1]['closed']:
            gs.path[-1]['pts'][0] = pt  # consecutive movetos
        else:
            gs.path.append({'pts': [pt], 'closed': False})
        gs.cur = pt
        gs.via = None

    def line_to(self, pt):
        gs = self.gs
        if not gs.path or gs.path[-1]['closed']:
            gs.path.append({'pts': [gs.cur], 'closed': False})
        gs.path[-1]['pts'].append(pt)
        gs.cur = pt

    def do_stroke(self, path=None):
        gs = self.gs
        self.order += 1
        segs = []
        for sp in (gs.path if path is None else path):
            pts = sp['pts']
            for i in range(len(pts) - 1):
                segs.append(pts[i] + pts[i + 1])
            if sp['closed'] and len(pts) > 1:
                segs.append(pts[-1] + pts[0])
        if segs:
            self.strokes.append(dict(segs=segs, color=gs.color, lw=gs.lw * _mat_scale(gs.ctm),
                                     ctm=gs.ctm, order=self.order, cap=gs.cap))

    def do_fill(self, path=None, via=None):
        gs = self.gs
        self.order += 1
        polys = [list(sp['pts']) for sp in (gs.path if path is None else path) if len(sp['pts']) >= 3]
        if polys:
            self.fills.append(dict(polys=polys, color=gs.color if gs.color is not None else (0, 0, 0),
                                   order=self.order, ctm=gs.ctm, via=via or gs.via))

    def rect_path(self, x, y, w, h):
        ctm = self.gs.ctm
        pts = [_mat_apply(ctm, x, y), _mat_apply(ctm, x + w, y),
               _mat_apply(ctm, x + w, y + h), _mat_apply(ctm, x, y + h)]
        return [{'pts': pts, 'closed': True}]


def _ps_ops():
    ops = {}

    def op(name):
        def deco(f):
            ops[name] = f
            return f
        return deco

    @op('def')
    def _(it):
        val = it.pop()
        key = it.pop()
        if not isinstance(key, (_PSLit, _PSName, _PSString, int)):
            raise _PSError('typecheck (key %r)' % (key,))
        it.dstack[-1][str(key)] = val

    @op('bind')
    def _(it):
        it.ostack.append(it.pop(_PSProc))

    @op('load')
    def _(it):
        key = it.pop()
        val = it.lookup(str(key))
        if val is None:
            if str(key) in _PS_OPS:
                val = _PSName(str(key))
            else:
                raise _PSError('undefined %r' % (key,))
        it.ostack.append(val)

    @op('exec')
    def _(it):
        o = it.pop()
        if isinstance(o, _PSProc):
            for item in o:
                it.exec_obj(item, 1, False)
        else:
            it.exec_obj(o, 1, False)

    @op('repeat')
    def _(it):
        proc = it.pop(_PSProc)
        n = it.pop('num')
        for _i in range(int(n)):
            for item in proc:
                it.exec_obj(item, 1, False)

    @op('for')
    def _(it):
        proc = it.pop(_PSProc)
        limit = it.pop('num')
        inc = it.pop('num')
        init = it.pop('num')
        if inc == 0:
            raise _PSError('rangecheck')
        v = init
        while (inc > 0 and v <= limit) or (inc < 0 and v >= limit):
            it.ostack.append(v)
            for item in proc:
                it.exec_obj(item, 1, False)
            v += inc

    @op('if')
    def _(it):
        proc = it.pop(_PSProc)
        cond = it.pop(bool)
        if cond:
            for item in proc:
                it.exec_obj(item, 1, False)

    @op('ifelse')
    def _(it):
        p2 = it.pop(_PSProc)
        p1 = it.pop(_PSProc)
        cond = it.pop(bool)
        for item in (p1 if cond else p2):
            it.exec_obj(item, 1, False)

    @op('true')
    def _(it):
        it.ostack.append(True)

    @op('false')
    def _(it):
        it.ostack.append(False)

    for name, fn in (('eq', lambda a, b: a == b), ('ne', lambda a, b: a != b),
                     ('gt', lambda a, b: a > b), ('ge', lambda a, b: a >= b),
                     ('lt', lambda a, b: a < b), ('le', lambda a, b: a <= b)):
        def cmp_(it, fn=fn):
            b = it.pop()
            a = it.pop()
            try:
                it.ostack.append(bool(fn(a, b)))
            except TypeError:
                raise _PSError('typecheck')
        ops[name] = cmp_

    @op('dict')
    def _(it):
        it.pop('num')
        it.ostack.append({})

    @op('begin')
    def _(it):
        it.dstack.append(it.pop(dict))

    @op('end')
    def _(it):
        if len(it.dstack) == 1:
            raise _PSError('dictstackunderflow')
        it.dstack.pop()

    @op('userdict')
    def _(it):
        it.ostack.append(it.dstack[0])

    @op('currentdict')
    def _(it):
        it.ostack.append(it.dstack[-1])

    @op('[')
    def _(it):
        it.ostack.append(_PSMark())

    @op('<<')
    def _(it):
        it.ostack.append(_PSMark())

    @op('mark')
    def _(it):
        it.ostack.append(_PSMark())

    @op(']')
    def _(it):
        items = []
        while True:
            v = it.pop()
            if isinstance(v, _PSMark):
                break
            items.append(v)
        items.reverse()
        it.ostack.append(items)

    @op('>>')
    def _(it):
        items = []
        while True:
            v = it.pop()
            if isinstance(v, _PSMark):
                break
            items.append(v)
        items.reverse()
        if len(items) % 2:
            raise _PSError('rangecheck')
        it.ostack.append(dict((str(items[i]), items[i + 1]) for i in range(0, len(items), 2)))

    @op('cleartomark')
    def _(it):
        while not isinstance(it.pop(), _PSMark):
            pass

    @op('pop')
    def _(it):
        it.pop()

    @op('dup')
    def _(it):
        v = it.pop()
        it.ostack.extend((v, v))

    @op('exch')
    def _(it):
        b = it.pop()
        a = it.pop()
        it.ostack.extend((b, a))

    @op('copy')
    def _(it):
        n = int(it.pop('num'))
        if n < 0 or n > len(it.ostack):
            raise _PSError('rangecheck')
        if n:
            it.ostack.extend(it.ostack[-n:])

    @op('index')
    def _(it):
        n = int(it.pop('num'))
        if n < 0 or n >= len(it.ostack):
            raise _PSError('rangecheck')
        it.ostack.append(it.ostack[-1 - n])

    @op('roll')
    def _(it):
        j = int(it.pop('num'))
        n = int(it.pop('num'))
        if n < 0 or n > len(it.ostack):
            raise _PSError('rangecheck')
        if n:
            part = it.ostack[-n:]
            j %= n
            part = part[-j:] + part[:-j] if j else part
            it.ostack[-n:] = part

    @op('clear')
    def _(it):
        del it.ostack[:]

    for name, fn in (('add', lambda a, b: a + b), ('sub', lambda a, b: a - b),
                     ('mul', lambda a, b: a * b)):
        def arith(it, fn=fn):
            a, b = it.popn(2)
            it.ostack.append(fn(a, b))
        ops[name] = arith

    @op('div')
    def _(it):
        a, b = it.popn(2)
        if b == 0:
            raise _PSError('undefinedresult')
        it.ostack.append(a / float(b))

    @op('idiv')
    def _(it):
        a, b = it.popn(2)
        if b == 0:
            raise _PSError('undefinedresult')
        it.ostack.append(int(a / b))

    @op('neg')
    def _(it):
        it.ostack.append(-it.pop('num'))

    @op('abs')
    def _(it):
        it.ostack.append(abs(it.pop('num')))

    @op('round')
    def _(it):
        it.ostack.append(math.floor(it.pop('num') + 0.5))

    # -- graphics state
    @op('gsave')
    def _(it):
        it.gstack.append(it.gs.copy())

    @op('grestore')
    def _(it):
        if not it.gstack:
            it.vec.problem('grestore without matching gsave')
            return
        it.gs = it.gstack.pop()

    @op('save')
    def _(it):
        it.gstack.append(it.gs.copy())
        it.ostack.append(_PSString('-save-'))

    @op('restore')
    def _(it):
        it.pop()
        if not it.gstack:
            it.vec.problem('restore without matching save')
            return
        it.gs = it.gstack.pop()

    @op('setlinewidth')
    def _(it):
        it.gs.lw = float(it.pop('num'))

    @op('setlinecap')
    def _(it):
        it.gs.cap = int(it.pop('num'))

    @op('setlinejoin')
    def _(it):
        it.pop('num')

    @op('setmiterlimit')
    def _(it):
        it.pop('num')

    @op('setdash')
    def _(it):
        it.pop('num')
        arr = it.pop(list)
        if arr:
            it.vec.problem('setdash with a dash pattern is used')

    @op('setrgbcolor')
    def _(it):
        r, g, b = it.popn(3)
        it.gs.color = _float_rgb(r, g, b)
        it.vec.info.setdefault('colors_raw', []).append((r, g, b))

    @op('setgray')
    def _(it):
        g = it.pop('num')
        it.gs.color = _float_rgb(g, g, g)

    @op('setcmykcolor')
    def _(it):
        c, m, y, k = it.popn(4)
        it.gs.color = _cmyk_rgb(c, m, y, k)

    @op('scale')
    def _(it):
        sx, sy = it.popn(2)
        it.gs.ctm = _mat_mul((float(sx), 0.0, 0.0, float(sy), 0.0, 0.0), it.gs.ctm)
        it.vec.info.setdefault('scale_ops', []).append((sx, sy))

    @op('translate')
    def _(it):
        tx, ty = it.popn(2)
        it.gs.ctm = _mat_mul((1.0, 0.0, 0.0, 1.0, float(tx), float(ty)), it.gs.ctm)

    @op('rotate')
    def _(it):
        a = math.radians(it.pop('num'))
        it.gs.ctm = _mat_mul((math.cos(a), math.sin(a), -math.sin(a), math.cos(a), 0.0, 0.0), it.gs.ctm)

    @op('concat')
    def _(it):
        arr = it.pop(list)
        if len(arr) != 6 or any(not isinstance(v, (int, float)) for v in arr):
            raise _PSError('rangecheck')
        it.gs.ctm = _mat_mul(tuple(float(v) for v in arr), it.gs.ctm)

    # -- path construction
    @op('newpath')
    def _(it):
        it.gs.path = []
        it.gs.cur = None
        it.gs.via = None

    @op('moveto')
    def _(it):
        x, y = it.popn(2)
        it.move_to(_mat_apply(it.gs.ctm, x, y))

    @op('rmoveto')
    def _(it):
        dx, dy = it.popn(2)
        cx, cy = it.need_cur()
        ddx, ddy = _mat_delta(it.gs.ctm, dx, dy)
        it.move_to((cx + ddx, cy + ddy))

    @op('lineto')
    def _(it):
        x, y = it.popn(2)
        it.need_cur()
        it.line_to(_mat_apply(it.gs.ctm, x, y))

    @op('rlineto')
    def _(it):
        dx, dy = it.popn(2)
        cx, cy = it.need_cur()
        ddx, ddy = _mat_delta(it.gs.ctm, dx, dy)
        it.line_to((cx + ddx, cy + ddy))

    @op('closepath')
    def _(it):
        gs = it.gs
        if gs.path and not gs.path[-1]['closed']:
            gs.path[-1]['closed'] = True
            gs.cur = gs.path[-1]['pts'][0]

    @op('currentpoint')
    def _(it):
        it.need_cur()
        raise _PSError('currentpoint is not supported')

    @op('clippath')
    def _(it):
        if it.bbox is None:
            raise _PSError('clippath without known %%BoundingBox')
        llx, lly, urx, ury = it.bbox
        it.gs.path = [{'pts': [(llx, lly), (urx, lly), (urx, ury), (llx, ury)], 'closed': True}]
        it.gs.cur = (llx, lly)
        it.gs.via = 'clippath'
        it.vec.info['clippath'] = True

    # -- painting
    @op('stroke')
    def _(it):
        it.do_stroke()
        ops['newpath'](it)

    def fill(it):
        it.do_fill()
        ops['newpath'](it)
    ops['fill'] = fill
    ops['eofill'] = fill

    @op('rectfill')
    def _(it):
        x, y, w, h = it.popn(4)
        it.do_fill(it.rect_path(x, y, w, h), via='rectfill')

    @op('rectstroke')
    def _(it):
        x, y, w, h = it.popn(4)
        it.do_stroke(it.rect_path(x, y, w, h))

    @op('clip')
    def _(it):
        it.vec.warn('clip is ignored by the reader')

    @op('showpage')
    def _(it):
        it.vec.info['showpage'] = it.vec.info.get('showpage', 0) + 1

    @op('stop')
    def _(it):
        it.stopped = True

    return ops


_PS_OPS = _ps_ops()


def read_eps(data):
    """Reads an EPS document (bytes or str)."""
    vec = Vector('eps')
    try:
        _read_eps(vec, data)
    except Exception as ex:  # pragma: no cover - safety net
        vec.problem('Internal reader error: %s: %s' % (type(ex).__name__, ex))
    return vec


def _read_eps(vec, data):
    info = vec.info
    if isinstance(data, (bytes, bytearray)):
        text = bytes(data).decode('latin-1')
    else:
        text = data
    lines = re.split(r'\r\n|\n|\r', text)
    # Header
    m = re.match(r'^%!PS-Adobe-(\d+\.\d+)(?:\s+EPSF-(\d+\.\d+))?\s*$', lines[0]) if lines else None
    if not m:
        vec.problem('First line is not a "%%!PS-Adobe-3.0 EPSF-3.0" header: %r' % (lines[0][:60] if lines else '',))
    else:
        info['ps_version'] = m.group(1)
        info['epsf_version'] = m.group(2)
        if m.group(2) is None:
            vec.problem('Header lacks the EPSF-x.y keyword: %r' % (lines[0],))
    # DSC comments
    bbox = None
    bbox_atend = False
    in_header = True
    dsc = {}
    for idx, line in enumerate(lines):
        if len(line) > 255:
            vec.problem('Line %d is longer than 255 characters (%d)' % (idx + 1, len(line)))
        if in_header and idx > 0 and not (line.startswith('%%') or line.startswith('%!')):
            in_header = False
        if line.startswith('%%EndComments'):
            in_header = False
        m = re.match(r'^%%([A-Za-z]+):?\s*(.*)$', line)
        if not m:
            continue
        key, val = m.group(1), m.group(2).strip()
        dsc.setdefault(key, val)
        if key in ('BoundingBox', 'HiResBoundingBox'):
            if val == '(atend)':
                if key == 'BoundingBox':
                    bbox_atend = True
                continue
            if key == 'BoundingBox' and not in_header and not bbox_atend:
                continue
            parts = val.split()
            try:
                nums = tuple(float(p) for p in parts)
                if len(nums) != 4 or any(not _PS_REAL.match(p) for p in parts):
                    raise ValueError()
            except ValueError:
                vec.problem('Invalid %%%%%s: %r' % (key, val))
                continue
            if key == 'BoundingBox':
                if bbox is None or bbox_atend:
                    bbox = nums
                    info['bbox_is_integer'] = all(_PS_INT.match(p) for p in parts)
            else:
                info['hires_bbox'] = nums
    info['dsc'] = dsc
    if bbox is None:
        vec.problem('No %%BoundingBox found')
    else:
        info['bbox'] = bbox
        if bbox[2] < bbox[0] or bbox[3] < bbox[1]:
            vec.problem('%%%%BoundingBox is not llx lly urx ury with llx <= urx, lly <= ury: %r' % (bbox,))
            bbox = None
    # Trailer
    nonblank = [ln for ln in lines if ln.strip()]
    if not nonblank or nonblank[-1].rstrip() != '%%EOF':
        vec.problem('Missing %%EOF at the end of the document')
    if dsc.get('DocumentData', '').startswith('Clean7Bit'):
        bad = [c for c in text if ord(c) > 126 or (ord(c) < 32 and c not in '\t\r\n')]
        if bad:
            vec.problem('DocumentData is Clean7Bit but the document contains %d other byte(s)' % (len(bad),))
    # Program
    try:
        program = _ps_parse(text)
    except _PSError as ex:
        vec.problem('PostScript syntax error: %s' % (ex,))
        program = []
    interp = _PSInterp(vec, bbox)
    interp.run(program)
    if interp.gstack:
        vec.problem('%d gsave / save without matching grestore / restore' % (len(interp.gstack),))
    if interp.ostack:
        vec.problem('%d object(s) left on the operand stack: %r' % (len(interp.ostack), interp.ostack[:5]))
    if len(interp.dstack) > 1:
        vec.problem('%d "begin" without matching "end"' % (len(interp.dstack) - 1,))
    if any(len(sp['pts']) > 1 for sp in interp.gs.path):
        vec.problem('A path has been constructed but never painted')
    info['definitions'] = sorted(interp.dstack[0].keys())
    page = None
    if bbox is not None:
        page = (bbox[0], bbox[1], bbox[2] - bbox[0], bbox[3] - bbox[1])
    _finalise(vec, interp.strokes, interp.fills, page, yup=True)


# ---------------------------------------------------------------------------
# PDF
# ---------------------------------------------------------------------------
class _PDFName(str):
    pass


class _PDFKeyword(str):
    pass


class _PDFRef(object):
    def __init__(self, num, gen):
        self.num, self.gen = num, gen

    def __repr__(self):
        return '%d %d R' % (self.num, self.gen)


class _PDFSyntax(Exception):
    def __init__(self, msg, pos):
        Exception.__init__(self, '%s at offset %d' % (msg, pos))
        self.pos = pos


_PDF_WS = b'\x00\t\n\x0c\r '
_PDF_DELIM = b'()<>[]{}/%'
_PDF_WS_CLASS = rb'[\x00\t\n\x0c\r ]'
_PDF_INT = re.compile(rb'^[+-]?\d+$')
_PDF_REAL = re.compile(rb'^[+-]?(?:\d+\.?\d*|\.\d+)$')
_PDF_OBJ_RE = re.compile(rb'(\d+)' + _PDF_WS_CLASS + rb'+(\d+)' + _PDF_WS_CLASS
                         + rb'+obj(?=[\x00\t\n\x0c\r ()<>\[\]{}/%]|$)')


class _PDFLexer(object):
    def __init__(self, data, pos=0, refs=True):
        self.data = data
        self.pos = pos
        self.refs = refs

    def skip_ws(self, comments=True):
        data, n = self.data, len(self.data)
        while self.pos < n:
            c = data[self.pos:self.pos + 1]
            if c in _PDF_WS:
                self.pos += 1
            elif comments and c == b'%':
                while self.pos < n and data[self.pos:self.pos + 1] not in b'\r\n':
                    self.pos += 1
            else:
                break

    def regular(self):
        """Reads a run of regular characters (may be empty)."""
        data, n = self.data, len(self.data)
        start = self.pos
        while self.pos < n and data[self.pos:self.pos + 1] not in _PDF_WS and data[self.pos:self.pos + 1] not in _PDF_DELIM:
            self.pos += 1
        return data[start:self.pos]

    def read_object(self, depth=0):
        if depth > 50:
            raise _PDFSyntax('nesting too deep', self.pos)
        self.skip_ws()
        data = self.data
        if self.pos >= len(data):
            raise _PDFSyntax('unexpected end of data', self.pos)
        c = data[self.pos:self.pos + 1]
        if c == b'/':
            self.pos += 1
            raw = self.regular()
            try:
                name = re.sub(rb'#([0-9a-fA-F]{2})', lambda m: bytes([int(m.group(1), 16)]), raw)
            except ValueError:
                name = raw
            return _PDFName(name.decode('latin-1'))
        if c == b'(':
            return self._string()
        if c == b'<':
            if data[self.pos:self.pos + 2] == b'<<':
                start = self.pos
                self.pos += 2
                result = {}
                while True:
                    self.skip_ws()
                    if self.pos >= len(data):
                        raise _PDFSyntax('unterminated dictionary', start)
                    if data[self.pos:self.pos + 2] == b'>>':
                        self.pos += 2
                        return result
                    kpos = self.pos
                    key = self.read_object(depth + 1)
                    if not isinstance(key, _PDFName):
                        raise _PDFSyntax('dictionary key %r is not a name' % (key,), kpos)
                    vpos = self.pos
                    val = self.read_object(depth + 1)
                    if isinstance(val, _PDFKeyword):
                        raise _PDFSyntax('unexpected keyword %r in dictionary' % (str(val),), vpos)
                    result[str(key)] = val
            end = data.find(b'>', self.pos)
            if end < 0:
                raise _PDFSyntax('unterminated hex string', self.pos)
            hx = re.sub(_PDF_WS_CLASS + rb'+', b'', data[self.pos + 1:end])
            if not re.match(rb'^[0-9a-fA-F]*$', hx):
                raise _PDFSyntax('invalid hex string', self.pos)
            if len(hx) % 2:
                hx += b'0'
            self.pos = end + 1
            return bytes(int(hx[i:i + 2], 16) for i in range(0, len(hx), 2))
        if c == b'[':
            start = self.pos
            self.pos += 1
            result = []
            while True:
                self.skip_ws()
                if self.pos >= len(data):
                    raise _PDFSyntax('unterminated array', start)
                if data[self.pos:self.pos + 1] == b']':
                    self.pos += 1
                    return result
                vpos = self.pos
                val = self.read_object(depth + 1)
                if isinstance(val, _PDFKeyword):
                    raise _PDFSyntax('unexpected keyword %r in array' % (str(val),), vpos)
                result.append(val)
        if c in b')>]{}':
            if data[self.pos:self.pos + 2] == b'>>':
                raise _PDFSyntax('unexpected ">>"', self.pos)
            raise _PDFSyntax('unexpected %r' % (c.decode('latin-1'),), self.pos)
        tok = self.regular()
        if _PDF_INT.match(tok):
            val = int(tok)
            if self.refs and val >= 0 and tok[:1] not in b'+-':
                save = self.pos
                self.skip_ws()
                t2 = self.regular()
                if _PDF_INT.match(t2) and t2[:1] not in b'+-':
                    self.skip_ws()
                    t3 = self.regular()
                    if t3 == b'R':
                        return _PDFRef(val, int(t2))
                self.pos = save
            return val
        if _PDF_REAL.match(tok):
            return float(tok)
        if tok == b'true':
            return True
        if tok == b'false':
            return False
        if tok == b'null':
            return None
        return _PDFKeyword(tok.decode('latin-1'))

    def _string(self):
        data, n = self.data, len(self.data)
        start = self.pos
        self.pos += 1
        depth = 1
        buf = bytearray()
        while self.pos < n:
            c = data[self.pos:self.pos + 1]
            if c == b'\\':
                nxt = data[self.pos + 1:self.pos + 2]
                m = re.match(rb'[0-7]{1,3}', data[self.pos + 1:self.pos + 4])
                if m:
                    buf.append(int(m.group(), 8) & 0xFF)
                    self.pos += 1 + len(m.group())
                    continue
                if nxt == b'\r' and data[self.pos + 2:self.pos + 3] == b'\n':
                    self.pos += 3
                    continue
                buf += {b'n': b'\n', b'r': b'\r', b't': b'\t', b'b': b'\b', b'f': b'\x0c',
                        b'\n': b'', b'\r': b''}.get(nxt, nxt)
                self.pos += 2
                continue
            if c == b'(':
                depth += 1
            elif c == b')':
                depth -= 1
                if depth == 0:
                    self.pos += 1
                    return bytes(buf)
            buf += c
            self.pos += 1
        raise _PDFSyntax('unterminated string', start)


def _pdf_show(tok):
    if isinstance(tok, bytes):
        tok = tok.decode('latin-1')
    return tok if len(tok) <= 40 else tok[:40] + '...'


def read_pdf(data):
    """Reads a PDF document (bytes)."""
    vec = Vector('pdf')
    try:
        _read_pdf(vec, data)
    except Exception as ex:  # pragma: no cover - safety net
        vec.problem('Internal reader error: %s: %s' % (type(ex).__name__, ex))
    return vec


def _read_pdf(vec, data):
    info = vec.info
    if isinstance(data, str):
        data = data.encode('latin-1', 'replace')
    data = bytes(data)
    n = len(data)
    # -- Header
    m = re.match(rb'%PDF-(\d)\.(\d)', data)
    if not m:
        m2 = re.search(rb'%PDF-(\d)\.(\d)', data[:1024])
        if m2:
            vec.problem('The %%PDF-x.y header is not at offset 0 but at %d' % (m2.start(),))
        else:
            vec.problem('Missing %PDF-x.y header')
    else:
        info['version'] = '%s.%s' % (m.group(1).decode(), m.group(2).decode())
        if m.group(1) not in (b'1', b'2'):
            vec.problem('Unknown PDF version %s' % (info['version'],))
    objects = {}
    obj_order = []
    xrefs = []
    startxrefs = []
    eof_marks = []
    garbage = [0]

    def resolve(val, seen=0):
        while isinstance(val, _PDFRef) and seen < 20:
            rec = objects.get(val.num)
            val = rec['value'] if rec is not None and rec['gen'] == val.gen else None
            seen += 1
        return val

    def find_length_forward(ref):
        mm = re.search(rb'(?<![0-9])' + str(ref.num).encode() + _PDF_WS_CLASS + rb'+' + str(ref.gen).encode()
                       + _PDF_WS_CLASS + rb'+obj' + _PDF_WS_CLASS + rb'*(\d+)', data)
        return int(mm.group(1)) if mm else None

    def parse_stream(rec, lex):
        """lex.pos is directly behind the keyword 'stream'"""
        num = rec['num']
        d = rec['value']
        pos = lex.pos
        if data[pos:pos + 2] == b'\r\n':
            start = pos + 2
        elif data[pos:pos + 1] == b'\n':
            start = pos + 1
        else:
            vec.problem('Object %d: keyword "stream" is not followed by CRLF or LF (offset %d)' % (num, pos))
            start = pos + (1 if data[pos:pos + 1] == b'\r' else 0)
        declared = d.get('Length') if isinstance(d, dict) else None
        if not isinstance(d, dict):
            vec.problem('Object %d: stream without stream dictionary' % (num,))
        if isinstance(declared, _PDFRef):
            rl = resolve(declared)
            declared = rl if rl is not None else find_length_forward(declared)
        if isinstance(declared, bool) or not isinstance(declared, int) or declared < 0:
            vec.problem('Object %d: stream /Length is missing or not a non-negative integer: %r' % (num, declared))
            declared = None
        idx = data.find(b'endstream', start)
        if declared is not None and 0 <= idx < start + declared:
            # "endstream" occurs inside the (binary) stream data by chance?  If the
            # keyword is found exactly where /Length says, trust /Length.
            mm = re.match(rb'(?:\r\n|\n|\r)?endstream', data[start + declared:start + declared + 11])
            if mm:
                idx = start + declared + mm.end() - len(b'endstream')
        if idx < 0:
            vec.problem('Object %d: stream without "endstream"' % (num,))
            rec['stream'] = data[start:]
            lex.pos = n
            return
        if data[idx - 2:idx] == b'\r\n' and idx - 2 >= start:
            eol = 2
        elif data[idx - 1:idx] in (b'\n', b'\r') and idx - 1 >= start:
            eol = 1
        else:
            eol = 0
            vec.warn('Object %d: no end-of-line marker before "endstream"' % (num,))
        canonical = idx - eol - start
        filters = d.get('Filter') if isinstance(d, dict) else None
        filters = resolve(filters)
        if filters is None:
            filters = []
        elif not isinstance(filters, list):
            filters = [filters]
        rec['filters'] = [str(f) for f in filters]
        actual = canonical
        raw = data[start:idx]
        decoded = None
        if rec['filters'] == ['FlateDecode']:
            # The deflate stream is self-delimiting -> exact length of the data
            try:
                dec = zlib.decompressobj()
                decoded = dec.decompress(raw)
                if dec.eof:
                    actual = len(raw) - len(dec.unused_data)
                    if dec.unused_data not in (b'', b'\r\n', b'\n', b'\r'):
                        vec.problem('Object %d: %d byte(s) of garbage between the compressed data and "endstream"'
                                    % (num, len(dec.unused_data)))
                else:
                    vec.problem('Object %d: compressed stream is truncated' % (num,))
            except zlib.error as ex:
                vec.problem('Object %d: cannot inflate the stream: %s' % (num, ex))
                decoded = None
        elif rec['filters']:
            vec.problem('Object %d: unsupported stream filter(s) %r' % (num, rec['filters']))
        else:
            decoded = data[start:start + canonical]
        rec['length_declared'] = declared
        rec['length_actual'] = actual
        if declared is not None and declared != actual:
            vec.problem('Object %d: /Length is %d but the stream data is %d bytes long'
                        % (num, declared, actual))
        rec['stream'] = decoded
        lex.pos = idx + len(b'endstream')

    def parse_obj(m):
        num, gen = int(m.group(1)), int(m.group(2))
        rec = dict(num=num, gen=gen, pos=m.start(), value=None)
        if num in objects:
            vec.problem('Object %d is defined more than once (offsets %d and %d)'
                        % (num, objects[num]['pos'], m.start()))
        objects[num] = rec
        obj_order.append(num)
        lex = _PDFLexer(data, m.end())
        try:
            rec['value'] = lex.read_object()
        except _PDFSyntax as ex:
            vec.problem('Object %d %d: %s' % (num, gen, ex))
            nxt = data.find(b'endobj', m.end())
            return nxt + 6 if nxt >= 0 else max(lex.pos, m.end()) + 1
        if isinstance(rec['value'], _PDFKeyword):
            vec.problem('Object %d %d: unexpected keyword "%s" instead of an object value (offset %d)'
                        % (num, gen, _pdf_show(rec['value']), lex.pos))
            return lex.pos
        lex.skip_ws()
        kpos = lex.pos
        kw = lex.regular()
        if kw == b'stream':
            parse_stream(rec, lex)
            lex.skip_ws()
            kpos = lex.pos
            kw = lex.regular()
        if kw == b'endobj':
            return lex.pos
        shown = _pdf_show(kw) if kw else _pdf_show(data[kpos:kpos + 10])
        vec.problem('Object %d %d: malformed or missing keyword: expected "endobj" but found "%s" at offset %d'
                    % (num, gen, shown, kpos))
        if kw in (b'xref', b'trailer', b'startxref') or _PDF_INT.match(kw) or not kw:
            return kpos if kw else kpos + 1
        return lex.pos

    def parse_xref(pos):
        sec = dict(pos=pos, entries={}, trailer=None, order=[])
        xrefs.append(sec)
        p = pos + 4
        mm = re.compile(rb'[ \t]*(\r\n|\n|\r)').match(data, p)
        if not mm:
            vec.problem('Keyword "xref" at offset %d is not followed by an end-of-line' % (pos,))
        else:
            p = mm.end()
        sub_re = re.compile(rb'(\d+) (\d+)[ ]?(\r\n|\n|\r)')
        strict_re = re.compile(rb'(\d{10}) (\d{5}) ([nf])( \r| \n|\r\n)')
        lenient_re = re.compile(rb'[\x00\t\n\x0c\r ]*(\d+)[ \t]+(\d+)[ \t]+([nf])[\x00\t\n\x0c\r ]*')
        any_sub = False
        while True:
            mm = sub_re.match(data, p)
            if not mm:
                break
            any_sub = True
            first, count = int(mm.group(1)), int(mm.group(2))
            p = mm.end()
            for i in range(count):
                me = strict_re.match(data, p)
                if not me:
                    me = lenient_re.match(data, p)
                    if not me:
                        vec.problem('Cross-reference table: entry for object %d is missing or unreadable (offset %d)'
                                    % (first + i, p))
                        return p
                    vec.problem('Cross-reference table: entry for object %d is not in the 20 byte format '
                                '"nnnnnnnnnn ggggg n eol": %r' % (first + i, data[p:me.end()]))
                p = me.end()
                onum = first + i
                if onum in sec['entries']:
                    vec.problem('Cross-reference table: more than one entry for object %d' % (onum,))
                sec['entries'][onum] = (int(me.group(1)), int(me.group(2)), me.group(3).decode())
                sec['order'].append(onum)
        if not any_sub:
            vec.problem('Cross-reference table at offset %d has no subsection header "first count"' % (pos,))
        return p

    # -- Sequential scan of the file body
    pos = 0
    if m:
        while pos < n and data[pos:pos + 1] not in b'\r\n':
            pos += 1
    lex = _PDFLexer(data)
    while True:
        lex.pos = pos
        lex.skip_ws(comments=False)
        pos = lex.pos
        if pos >= n:
            break
        if data[pos:pos + 1] == b'%':
            end = pos
            while end < n and data[end:end + 1] not in b'\r\n':
                end += 1
            if data[pos:end].startswith(b'%%EOF'):
                eof_marks.append(pos)
                if data[pos:end].rstrip() != b'%%EOF':
                    vec.problem('Garbage after %%%%EOF: %r' % (data[pos:end][:30],))
            pos = end
            continue
        mo = _PDF_OBJ_RE.match(data, pos)
        if mo:
            pos = parse_obj(mo)
            continue
        lex.pos = pos
        tok = lex.regular()
        if tok == b'xref':
            pos = parse_xref(pos)
            continue
        if tok == b'trailer':
            try:
                val = lex.read_object()
                if not isinstance(val, dict):
                    raise _PDFSyntax('trailer is not followed by a dictionary', pos)
                if xrefs and xrefs[-1]['trailer'] is None:
                    xrefs[-1]['trailer'] = val
                else:
                    vec.problem('"trailer" at offset %d without preceding cross-reference table' % (pos,))
                    xrefs.append(dict(pos=None, entries={}, trailer=val, order=[]))
                pos = lex.pos
            except _PDFSyntax as ex:
                vec.problem('Trailer: %s' % (ex,))
                pos = max(lex.pos, pos + 7)
            continue
        if tok == b'startxref':
            lex.skip_ws()
            t2 = lex.regular()
            if _PDF_INT.match(t2):
                startxrefs.append((pos, int(t2)))
                pos = lex.pos
            else:
                vec.problem('"startxref" at offset %d is not followed by an integer' % (pos,))
                pos = pos + 9
            continue
        garbage[0] += 1
        if garbage[0] <= 10:
            vec.problem('Unexpected token "%s" at offset %d (malformed keyword?)'
                        % (_pdf_show(tok) if tok else _pdf_show(data[pos:pos + 1]), pos))
        pos = pos + max(1, len(tok))
    info['objects'] = dict((k, v['pos']) for k, v in objects.items())
    # -- End of file
    if not eof_marks:
        vec.problem('Missing %%EOF')
    elif data.rstrip(_PDF_WS)[-5:] != b'%%EOF':
        vec.problem('%%EOF is not the last line of the file')
    # -- startxref / xref
    sec = None
    if not startxrefs:
        vec.problem('Missing "startxref"')
    else:
        sx_pos, sx_val = startxrefs[-1]
        info['startxref'] = sx_val
        if data[sx_val:sx_val + 4] != b'xref' or (sx_val > 0 and data[sx_val - 1:sx_val] not in _PDF_WS):
            where = [s['pos'] for s in xrefs if s['pos'] is not None]
            vec.problem('startxref (%d) does not point at the keyword "xref"%s; found %r'
                        % (sx_val, (' (which is at offset %s)' % where[-1]) if where else '', data[sx_val:sx_val + 10]))
        for s in xrefs:
            if s['pos'] == sx_val:
                sec = s
    if sec is None:
        real = [s for s in xrefs if s['pos'] is not None]
        if real:
            sec = real[-1]
        else:
            vec.problem('No cross-reference table found (cross-reference streams are not supported)')
    if len([s for s in xrefs if s['pos'] is not None]) > 1:
        vec.warn('More than one cross-reference section (incremental update); only the last one is checked')
    trailer = None
    if sec is not None:
        entries = sec['entries']
        info['xref'] = dict(entries)
        trailer = sec['trailer']
        if 0 not in entries:
            vec.problem('Cross-reference table has no entry for object 0')
        elif entries[0][2] != 'f' or entries[0][1] != 65535:
            vec.problem('Cross-reference entry 0 must be free with generation 65535: %r' % (entries[0],))
        elif entries[0][0] != 0 and not any(k != 0 and e[2] == 'f' for k, e in entries.items()):
            vec.problem('Cross-reference entry 0 links to free object %d but there are no other free entries'
                        % (entries[0][0],))
        for onum in sorted(entries):
            off, gen, kind = entries[onum]
            if kind != 'n':
                if onum in objects and onum != 0:
                    vec.problem('Object %d is defined but its cross-reference entry is marked free' % (onum,))
                continue
            rec = objects.get(onum)
            if rec is not None:
                if off != rec['pos']:
                    vec.problem('Cross-reference offset of object %d is %d but "%d %d obj" is at offset %d'
                                % (onum, off, onum, rec['gen'], rec['pos']))
                if gen != rec['gen']:
                    vec.problem('Cross-reference generation of object %d is %d but the object has generation %d'
                                % (onum, gen, rec['gen']))
            else:
                mo = _PDF_OBJ_RE.match(data, off)
                if mo:
                    vec.problem('Cross-reference offset %d of object %d points at object %s'
                                % (off, onum, int(mo.group(1))))
                else:
                    vec.warn('Cross-reference table has an in-use entry for object %d which is not defined '
                             'in the file; offset %d points at %r' % (onum, off, data[off:off + 10]))
                    info.setdefault('xref_dangling', []).append(onum)
        for onum in obj_order:
            if onum not in entries:
                vec.problem('Object %d (offset %d) has no cross-reference entry' % (onum, objects[onum]['pos']))
        if trailer is None:
            vec.problem('Missing trailer dictionary')
    if trailer is None:
        with_trailer = [s for s in xrefs if s['trailer'] is not None]
        if with_trailer:
            trailer = with_trailer[-1]['trailer']
    page = None
    content = None
    if trailer is not None:
        info['trailer'] = trailer
        size = trailer.get('Size')
        if sec is not None and sec['entries']:
            if isinstance(size, bool) or not isinstance(size, int) or size != max(sec['entries']) + 1:
                vec.problem('Trailer /Size is %r but the highest cross-reference entry is %d'
                            % (size, max(sec['entries'])))
        if 'Info' in trailer:
            docinfo = resolve(trailer['Info'])
            if not isinstance(docinfo, dict):
                vec.problem('Trailer /Info %r does not refer to a dictionary' % (trailer['Info'],))
            else:
                info['docinfo'] = docinfo
        root = trailer.get('Root')
        catalog = resolve(root)
        if not isinstance(root, _PDFRef) or not isinstance(catalog, dict):
            vec.problem('Trailer /Root %r does not refer to a catalog dictionary' % (root,))
        else:
            if catalog.get('Type') != 'Catalog':
                vec.problem('Catalog /Type is %r' % (catalog.get('Type'),))
            pages = []

            def collect(node_ref, inherited, depth):
                node = resolve(node_ref)
                if not isinstance(node, dict) or depth > 20:
                    vec.problem('Page tree node %r is not a dictionary' % (node_ref,))
                    return
                inh = dict(inherited)
                for key in ('MediaBox', 'CropBox', 'Rotate', 'Resources'):
                    if key in node:
                        inh[key] = node[key]
                if node.get('Type') == 'Pages':
                    kids = resolve(node.get('Kids'))
                    if not isinstance(kids, list):
                        vec.problem('Pages node without /Kids array')
                        return
                    before = len(pages)
                    for kid in kids:
                        collect(kid, inh, depth + 1)
                    cnt = resolve(node.get('Count'))
                    if cnt != len(pages) - before:
                        vec.problem('Pages /Count is %r but %d page(s) found' % (cnt, len(pages) - before))
                elif node.get('Type') == 'Page':
                    if not isinstance(node.get('Parent'), _PDFRef) or not isinstance(resolve(node.get('Parent')), dict):
                        vec.problem('Page without valid /Parent')
                    pages.append((node, inh))
                else:
                    vec.problem('Page tree node with /Type %r' % (node.get('Type'),))

            collect(catalog.get('Pages'), {}, 0)
            info['page_count'] = len(pages)
            if len(pages) != 1:
                vec.problem('Expected exactly one page, found %d' % (len(pages),))
            if pages:
                node, inh = pages[0]
                mb = resolve(inh.get('MediaBox'))
                if isinstance(mb, list):
                    mb = [resolve(v) for v in mb]
                if (not isinstance(mb, list) or len(mb) != 4
                        or any(isinstance(v, bool) or not isinstance(v, (int, float)) for v in mb)):
                    vec.problem('Page without valid /MediaBox: %r' % (mb,))
                else:
                    llx, lly = min(mb[0], mb[2]), min(mb[1], mb[3])
                    urx, ury = max(mb[0], mb[2]), max(mb[1], mb[3])
                    page = (float(llx), float(lly), float(urx - llx), float(ury - lly))
                    info['mediabox'] = tuple(mb)
                if resolve(inh.get('Rotate')) not in (None, 0):
                    vec.problem('Page /Rotate %r is not supported' % (inh.get('Rotate'),))
                if resolve(node.get('UserUnit')) not in (None, 1, 1.0):
                    vec.problem('Page /UserUnit %r is not supported' % (node.get('UserUnit'),))
                if 'CropBox' in inh:
                    info['cropbox'] = inh['CropBox']
                contents = node.get('Contents')
                refs = resolve(contents) if isinstance(resolve(contents), list) else [contents]
                chunks = []
                for ref in refs:
                    rec = objects.get(ref.num) if isinstance(ref, _PDFRef) else None
                    if rec is not None and rec['gen'] != ref.gen:
                        rec = None
                    if rec is None or 'filters' not in rec:
                        vec.problem('Page /Contents %r does not refer to a stream object' % (ref,))
                        continue
                    info['length_declared'] = rec.get('length_declared')
                    info['length_actual'] = rec.get('length_actual')
                    info['filters'] = rec.get('filters')
                    if rec.get('stream') is not None:
                        chunks.append(rec['stream'])
                if chunks:
                    content = b'\n'.join(chunks)
    strokes, fills = [], []
    if content is not None:
        info['content'] = content
        strokes, fills = _pdf_content(vec, content)
    _finalise(vec, strokes, fills, page, yup=True)


_PDF_OPERANDS = {
    'q': 0, 'Q': 0, 'cm': 6, 'w': 1, 'J': 1, 'j': 1, 'M': 1, 'd': 2, 'ri': 1, 'i': 1, 'gs': 1,
    'm': 2, 'l': 2, 're': 4, 'h': 0, 'c': 6, 'v': 4, 'y': 4,
    'S': 0, 's': 0, 'f': 0, 'F': 0, 'f*': 0, 'B': 0, 'B*': 0, 'b': 0, 'b*': 0, 'n': 0,
    'W': 0, 'W*': 0, 'RG': 3, 'rg': 3, 'G': 1, 'g': 1, 'K': 4, 'k': 4,
}


def _pdf_content(vec, content):
    """Interprets a page content stream; returns (strokes, fills) in device space."""
    strokes, fills = [], []
    lex = _PDFLexer(content, 0, refs=False)
    gs = _GState()
    fill_color = [None]
    stack = []
    operands = []
    order = [0]
    unknown = 0

    def nums(ops_):
        if any(isinstance(v, bool) or not isinstance(v, (int, float)) for v in ops_):
            raise ValueError('numeric operands expected, got %r' % (ops_,))
        return [float(v) for v in ops_]

    def close_sub():
        if gs.path and not gs.path[-1]['closed'] and len(gs.path[-1]['pts']) > 0:
            gs.path[-1]['closed'] = True
            gs.cur = gs.path[-1]['pts'][0]

    def do_stroke():
        order[0] += 1
        segs = []
        for sp in gs.path:
            pts = sp['pts']
            for i in range(len(pts) - 1):
                segs.append(pts[i] + pts[i + 1])
            if sp['closed'] and len(pts) > 1:
                segs.append(pts[-1] + pts[0])
        if segs:
            strokes.append(dict(segs=segs, color=gs.color, lw=gs.lw * _mat_scale(gs.ctm), ctm=gs.ctm,
                                order=order[0], cap=gs.cap))

    def do_fill():
        order[0] += 1
        polys = [list(sp['pts']) for sp in gs.path if len(sp['pts']) >= 3]
        if polys:
            fills.append(dict(polys=polys, color=fill_color[0] if fill_color[0] is not None else (0, 0, 0),
                              order=order[0], ctm=gs.ctm))

    def end_path():
        gs.path = []
        gs.cur = None

    while True:
        lex.skip_ws()
        if lex.pos >= len(content):
            break
        opos = lex.pos
        try:
            tok = lex.read_object()
        except _PDFSyntax as ex:
            vec.problem('Content stream: %s' % (ex,))
            break
        if not isinstance(tok, _PDFKeyword):
            operands.append(tok)
            if len(operands) > 64:
                vec.problem('Content stream: too many operands without operator at offset %d' % (opos,))
                break
            continue
        op = str(tok)
        args, operands = operands, []
        if op not in _PDF_OPERANDS:
            unknown += 1
            if unknown <= 10:
                vec.problem('Content stream: unknown operator "%s" at offset %d' % (_pdf_show(op), opos))
            continue
        if len(args) != _PDF_OPERANDS[op]:
            vec.problem('Content stream: operator "%s" at offset %d with %d operand(s), expected %d'
                        % (op, opos, len(args), _PDF_OPERANDS[op]))
            continue
        try:
            if op == 'q':
                stack.append((gs.ctm, gs.color, gs.lw, gs.cap, fill_color[0]))
            elif op == 'Q':
                if not stack:
                    vec.problem('Content stream: "Q" without matching "q" at offset %d' % (opos,))
                else:
                    gs.ctm, gs.color, gs.lw, gs.cap, fill_color[0] = stack.pop()
            elif op == 'cm':
                gs.ctm = _mat_mul(tuple(nums(args)), gs.ctm)
                vec.info.setdefault('cm_ops', []).append(tuple(args))
            elif op == 'w':
                gs.lw = nums(args)[0]
            elif op == 'J':
                gs.cap = int(nums(args)[0])
            elif op in ('j', 'M', 'ri', 'i', 'gs'):
                pass
            elif op == 'd':
                if args[0]:
                    vec.problem('Content stream: dash pattern %r is used' % (args[0],))
            elif op == 'm':
                x, y = nums(args)
                pt = _mat_apply(gs.ctm, x, y)
                if gs.path and len(gs.path[-1]['pts']) == 1 and not gs.path[-1]['closed']:
                    gs.path[-1]['pts'][0] = pt
                else:
                    gs.path.append({'pts': [pt], 'closed': False})
                gs.cur = pt
            elif op == 'l':
                x, y = nums(args)
                if gs.cur is None:
                    vec.problem('Content stream: "l" without current point at offset %d' % (opos,))
                    continue
                if not gs.path or gs.path[-1]['closed']:
                    gs.path.append({'pts': [gs.cur], 'closed': False})
                pt = _mat_apply(gs.ctm, x, y)
                gs.path[-1]['pts'].append(pt)
                gs.cur = pt
            elif op == 're':
                x, y, w, h = nums(args)
                pts = [_mat_apply(gs.ctm, x, y), _mat_apply(gs.ctm, x + w, y),
                       _mat_apply(gs.ctm, x + w, y + h), _mat_apply(gs.ctm, x, y + h)]
                gs.path.append({'pts': pts, 'closed': True})
                gs.cur = pts[0]
            elif op == 'h':
                close_sub()
            elif op in ('c', 'v', 'y'):
                vec.problem('Content stream: curve operator "%s" is not supported' % (op,))
            elif op == 'S':
                do_stroke()
                end_path()
            elif op == 's':
                close_sub()
                do_stroke()
                end_path()
            elif op in ('f', 'F', 'f*'):
                do_fill()
                end_path()
            elif op in ('B', 'B*'):
                do_fill()
                do_stroke()
                end_path()
            elif op in ('b', 'b*'):
                close_sub()
                do_fill()
                do_stroke()
                end_path()
            elif op == 'n':
                end_path()
            elif op in ('W', 'W*'):
                vec.warn('Clipping operator "%s" is ignored by the reader' % (op,))
            elif op == 'RG':
                gs.color = _float_rgb(*nums(args))
            elif op == 'rg':
                fill_color[0] = _float_rgb(*nums(args))
            elif op == 'G':
                g = nums(args)[0]
                gs.color = _float_rgb(g, g, g)
            elif op == 'g':
                g = nums(args)[0]
                fill_color[0] = _float_rgb(g, g, g)
            elif op == 'K':
                gs.color = _cmyk_rgb(*nums(args))
            elif op == 'k':
                fill_color[0] = _cmyk_rgb(*nums(args))
        except ValueError as ex:
            vec.problem('Content stream: operator "%s" at offset %d: %s' % (op, opos, ex))
    if operands:
        vec.problem('Content stream: %d operand(s) without operator at the end' % (len(operands),))
    if stack:
        vec.problem('Content stream: unbalanced q/Q: %d "q" without matching "Q"' % (len(stack),))
    if any(len(sp['pts']) > 1 for sp in gs.path):
        vec.problem('Content stream: a path has been constructed but never painted')
    return strokes, fills


# ---------------------------------------------------------------------------
# LaTeX PGF / TikZ (PGF basic layer)
# ---------------------------------------------------------------------------
# TeX units in pt
_TEX_UNITS = {
    'pt': 1.0, 'bp': 72.27 / 72.0, 'in': 72.27, 'cm': 72.27 / 2.54, 'mm': 72.27 / 25.4,
    'pc': 12.0, 'dd': 1238.0 / 1157.0, 'cc': 12.0 * 1238.0 / 1157.0, 'sp': 1.0 / 65536.0,
}
_TEX_DIM_RE = re.compile(r'^\s*([+-]?(?:\d+\.?\d*|\.\d+))\s*([a-z]{2})?\s*$')
# xcolor base colours (rgb 0..1)
_XCOLOR_BASE = {
    'red': (1, 0, 0), 'green': (0, 1, 0), 'blue': (0, 0, 1), 'cyan': (0, 1, 1), 'magenta': (1, 0, 1),
    'yellow': (1, 1, 0), 'black': (0, 0, 0), 'gray': (.5, .5, .5), 'white': (1, 1, 1),
    'darkgray': (.25, .25, .25), 'lightgray': (.75, .75, .75), 'brown': (.75, .5, .25),
    'lime': (.75, 1, 0), 'olive': (.5, .5, 0), 'orange': (1, .5, 0), 'pink': (1, .75, .75),
    'purple': (.75, 0, .25), 'teal': (0, .5, .5), 'violet': (.5, 0, .5),
}


class _TeXError(Exception):
    pass


class _TeXScanner(object):
    def __init__(self, text):
        self.s = text
        self.i = 0

    def skip(self):
        s, n = self.s, len(self.s)
        while self.i < n:
            c = s[self.i]
            if c in ' \t\r\n':
                self.i += 1
            elif c == '%':
                while self.i < n and s[self.i] != '\n':
                    self.i += 1
            else:
                break

    def at_end(self):
        self.skip()
        return self.i >= len(self.s)

    def token(self):
        """Returns ('cs', name), ('{',), ('}',), ('char', c) or None"""
        self.skip()
        s = self.s
        if self.i >= len(s):
            return None
        c = s[self.i]
        if c == '\\':
            m = re.compile(r'\\([A-Za-z@]+|.)', re.S).match(s, self.i)
            if not m:
                self.i += 1
                return ('char', '\\')
            self.i = m.end()
            return ('cs', m.group(1))
        self.i += 1
        if c == '{':
            return ('{',)
        if c == '}':
            return ('}',)
        return ('char', c)

    def group(self, raw=False):
        """Reads a brace delimited argument, returns its content (comments removed
        unless `raw`)."""
        self.skip()
        s, n = self.s, len(self.s)
        if self.i >= n or s[self.i] != '{':
            raise _TeXError('"{" expected at position %d, found %r' % (self.i, s[self.i:self.i + 10]))
        depth = 0
        buf = []
        while self.i < n:
            c = s[self.i]
            if c == '\\' and self.i + 1 < n:
                buf.append(s[self.i:self.i + 2])
                self.i += 2
                continue
            if c == '%' and not raw:
                while self.i < n and s[self.i] != '\n':
                    self.i += 1
                continue
            if c == '{':
                depth += 1
                if depth == 1:
                    self.i += 1
                    continue
            elif c == '}':
                depth -= 1
                if depth == 0:
                    self.i += 1
                    return ''.join(buf)
            buf.append(c)
            self.i += 1
        raise _TeXError('unbalanced "{"')

    def optional(self):
        self.skip()
        if self.i < len(self.s) and self.s[self.i] == '[':
            end = self.s.find(']', self.i)
            if end < 0:
                raise _TeXError('unterminated optional argument')
            val = self.s[self.i + 1:end]
            self.i = end + 1
            return val
        return None


class _PGFState(object):
    def __init__(self):
        self.lw = 0.4           # pt, PGF default
        self.stroke = None
        self.fill = None
        self.stroke_opacity = None
        self.fill_opacity = None
        self.coord = _IDENT     # coordinate transformation (does not affect the line width)
        self.canvas = _IDENT    # canvas transformation (low level)
        self.cap = 0

    def copy(self):
        st = _PGFState()
        st.__dict__.update(self.__dict__)
        return st


def read_tikz(text):
    """Reads a PGF picture (LaTeX source, str or bytes)."""
    vec = Vector('tikz')
    try:
        _read_tikz(vec, text)
    except Exception as ex:  # pragma: no cover - safety net
        vec.problem('Internal reader error: %s: %s' % (type(ex).__name__, ex))
    return vec


def _read_tikz(vec, text):
    info = vec.info
    if isinstance(text, (bytes, bytearray)):
        text = bytes(text).decode('utf-8', 'replace')
    sc = _TeXScanner(text)
    units = []
    defined = {}
    state = _PGFState()
    stack = []          # (kind, name, saved state)
    path = []
    cur = [None]
    strokes, fills = [], []
    order = [0]
    pictures = [0]
    in_picture = [False]

    def dim(s):
        m = _TEX_DIM_RE.match(s)
        if not m:
            raise _TeXError('cannot parse dimension %r' % (s,))
        val, unit = float(m.group(1)), m.group(2)
        if unit is None:
            raise _TeXError('dimension %r without unit' % (s,))
        if unit not in _TEX_UNITS:
            raise _TeXError('unsupported unit in dimension %r' % (s,))
        if unit not in units:
            units.append(unit)
        return val * _TEX_UNITS[unit]

    def number(s):
        try:
            return float(s.strip())
        except ValueError:
            raise _TeXError('cannot parse number %r' % (s,))

    def point(s):
        """Parses a PGF point expression -> (x, y) in pt (untransformed)."""
        ps = _TeXScanner(s)
        tok = ps.token()
        if tok is None or tok[0] != 'cs':
            raise _TeXError('cannot parse point %r' % (s,))
        if tok[1] in ('pgfqpoint', 'pgfpoint'):
            x = dim(ps.group())
            y = dim(ps.group())
        elif tok[1] == 'pgfpointorigin':
            x = y = 0.0
        elif tok[1] in ('pgfpointxy', 'pgfqpointxy'):
            x = number(ps.group()) * _TEX_UNITS['cm']
            y = number(ps.group()) * _TEX_UNITS['cm']
            if 'cm' not in units:
                units.append('cm')
        else:
            raise _TeXError('unsupported point command \\%s' % (tok[1],))
        if not ps.at_end():
            raise _TeXError('cannot parse point %r' % (s,))
        return x, y

    def device(pt):
        return _mat_apply(state.canvas, *_mat_apply(state.coord, pt[0], pt[1]))

    def colour_from_model(model, spec):
        model = model.strip()
        parts = [p.strip() for p in spec.split(',')]
        try:
            if model == 'rgb' and len(parts) == 3:
                return _float_rgb(*[float(p) for p in parts])
            if model == 'RGB' and len(parts) == 3:
                return tuple(_clamp255(float(p)) for p in parts)
            if model == 'gray' and len(parts) == 1:
                g = float(parts[0])
                return _float_rgb(g, g, g)
            if model == 'HTML' and len(parts) == 1 and re.match(r'^[0-9a-fA-F]{6}$', parts[0]):
                return _hx(parts[0])
            if model == 'cmyk' and len(parts) == 4:
                return _cmyk_rgb(*[float(p) for p in parts])
        except ValueError:
            pass
        raise _TeXError('unsupported colour specification [%s]{%s}' % (model, spec))

    def colour_by_name(name):
        name = name.strip()
        info.setdefault('color_names', []).append(name)
        if name in defined:
            return defined[name]
        if name in _XCOLOR_BASE:
            return _float_rgb(*_XCOLOR_BASE[name])
        if name.lower() in SVG_COLORS and re.match(r'^[A-Za-z]+$', name):
            # xcolor's "svgnames" (DarkBlue) / same names in lower case
            return SVG_COLORS[name.lower()]
        raise _TeXError('unknown colour name %r' % (name,))

    def add_alpha(clr, opacity):
        if clr is None:
            clr = (0, 0, 0) if opacity is not None else None
        if clr is not None and opacity is not None:
            return tuple(clr[:3]) + (opacity,)
        return clr

    def use_path(actions):
        acts = [a.strip() for a in actions.split(',') if a.strip()]
        for a in acts:
            if a not in ('stroke', 'draw', 'fill', 'clip', 'discard'):
                raise _TeXError('unknown \\pgfusepath action %r' % (a,))
        order[0] += 1
        if 'fill' in acts:
            polys = [list(sp['pts']) for sp in path if len(sp['pts']) >= 3]
            if polys:
                clr = add_alpha(state.fill, state.fill_opacity) or (0, 0, 0)
                fills.append(dict(polys=polys, color=clr, order=order[0],
                                  ctm=_mat_mul(state.coord, state.canvas)))
        if 'stroke' in acts or 'draw' in acts:
            segs = []
            for sp in path:
                pts = sp['pts']
                for i in range(len(pts) - 1):
                    segs.append(pts[i] + pts[i + 1])
                if sp['closed'] and len(pts) > 1:
                    segs.append(pts[-1] + pts[0])
            if segs:
                strokes.append(dict(segs=segs, color=add_alpha(state.stroke, state.stroke_opacity),
                                    lw=state.lw * _mat_scale(state.canvas),
                                    ctm=_mat_mul(state.coord, state.canvas), order=order[0], cap=state.cap))
        if 'clip' in acts:
            vec.warn('\\pgfusepath{clip} is ignored by the reader')
        del path[:]
        cur[0] = None

    def command(name):
        if name == 'begin' or name == 'end':
            env = sc.group().strip()
            if name == 'begin':
                stack.append(('env', env, state.copy()))
                if env == 'pgfpicture':
                    pictures[0] += 1
                    if in_picture[0]:
                        raise _TeXError('nested pgfpicture')
                    in_picture[0] = True
                    # A picture starts with the default graphic parameters
                    state.lw = 0.4
                    state.coord = _IDENT
                    state.canvas = _IDENT
                elif env in ('pgfscope', 'document', 'center'):
                    pass
                elif env == 'tikzpicture':
                    raise _TeXError('tikzpicture (TikZ frontend) is not supported')
                else:
                    raise _TeXError('unknown environment %r' % (env,))
            else:
                if not stack or stack[-1][0] != 'env' or stack[-1][1] != env:
                    raise _TeXError('\\end{%s} does not match %s' % (env, ('\\begin{%s}' % stack[-1][1]) if stack and stack[-1][0] == 'env' else 'an open "{"' if stack else 'anything'))
                saved = stack.pop()[2]
                state.__dict__.update(saved.__dict__)
                if env == 'pgfpicture':
                    in_picture[0] = False
                    if any(len(sp['pts']) > 1 for sp in path):
                        vec.problem('A path has been constructed but never used (\\pgfusepath)')
                    del path[:]
                    cur[0] = None
            return
        if name == 'href':
            info['href'] = sc.group(raw=True)
            return
        if name in ('documentclass', 'usepackage'):
            sc.optional()
            sc.group()
            return
        if name == 'pgfsetlinewidth':
            state.lw = dim(sc.group())
            info['linewidth_raw'] = state.lw
            return
        if name in ('pgfsetbuttcap', 'pgfsetroundcap', 'pgfsetrectcap'):
            state.cap = {'pgfsetbuttcap': 0, 'pgfsetroundcap': 'round', 'pgfsetrectcap': 'rect'}[name]
            return
        if name in ('pgfsetmiterjoin', 'pgfsetroundjoin', 'pgfsetbeveljoin'):
            return
        if name == 'definecolor':
            cname = sc.group().strip()
            model = sc.group()
            spec = sc.group()
            defined[cname] = colour_from_model(model, spec)
            return
        if name in ('color', 'pgfsetcolor', 'pgfsetstrokecolor', 'pgfsetfillcolor'):
            model = sc.optional() if name == 'color' else None
            arg = sc.group()
            clr = colour_from_model(model, arg) if model is not None else colour_by_name(arg)
            if name in ('color', 'pgfsetcolor', 'pgfsetstrokecolor'):
                state.stroke = clr
            if name in ('color', 'pgfsetcolor', 'pgfsetfillcolor'):
                state.fill = clr
            return
        if name in ('pgfsetstrokeopacity', 'pgfsetfillopacity'):
            v = max(0.0, min(1.0, number(sc.group())))
            if name == 'pgfsetstrokeopacity':
                state.stroke_opacity = v
            else:
                state.fill_opacity = v
            return
        if name == 'pgfpathmoveto':
            pt = device(point(sc.group()))
            if path and len(path[-1]['pts']) == 1 and not path[-1]['closed']:
                path[-1]['pts'][0] = pt
            else:
                path.append({'pts': [pt], 'closed': False})
            cur[0] = pt
            return
        if name == 'pgfpathlineto':
            pt = device(point(sc.group()))
            if cur[0] is None:
                raise _TeXError('\\pgfpathlineto without current point')
            if not path or path[-1]['closed']:
                path.append({'pts': [cur[0]], 'closed': False})
            path[-1]['pts'].append(pt)
            cur[0] = pt
            return
        if name == 'pgfpathclose':
            if path and not path[-1]['closed']:
                path[-1]['closed'] = True
                cur[0] = path[-1]['pts'][0]
            return
        if name in ('pgfpathrectangle', 'pgfpathrectanglecorners'):
            p1 = point(sc.group())
            p2 = point(sc.group())
            if name == 'pgfpathrectangle':
                p2 = (p1[0] + p2[0], p1[1] + p2[1])
            pts = [device(p1), device((p2[0], p1[1])), device(p2), device((p1[0], p2[1]))]
            path.append({'pts': pts, 'closed': True})
            cur[0] = None
            return
        if name == 'pgfusepath':
            use_path(sc.group())
            return
        if name == 'pgftransformshift':
            x, y = point(sc.group())
            state.coord = _mat_mul((1.0, 0.0, 0.0, 1.0, x, y), state.coord)
            return
        if name in ('pgftransformscale', 'pgftransformxscale', 'pgftransformyscale'):
            f = number(sc.group())
            sx = f if name != 'pgftransformyscale' else 1.0
            sy = f if name != 'pgftransformxscale' else 1.0
            state.coord = _mat_mul((sx, 0.0, 0.0, sy, 0.0, 0.0), state.coord)
            info.setdefault('transform_scales', []).append((sx, sy))
            return
        if name == 'pgftransformcm':
            a, b, c, d = [number(sc.group()) for _ in range(4)]
            x, y = point(sc.group())
            state.coord = _mat_mul((a, b, c, d, x, y), state.coord)
            return
        if name == 'pgftransformreset':
            state.coord = _IDENT
            return
        if name in ('pgfsys@transformcm', 'pgflowlevel@transformcm'):
            a, b, c, d = [number(sc.group()) for _ in range(4)]
            e = dim(sc.group())
            f = dim(sc.group())
            state.canvas = _mat_mul((a, b, c, d, e, f), state.canvas)
            return
        if name in ('makeatletter', 'makeatother', 'centering', 'noindent', 'par', 'relax',
                    'pgfsetbaseline', 'pgfpathclose'):
            if name == 'pgfsetbaseline':
                sc.group()
            return
        raise _TeXError('unknown command \\%s' % (name,))

    while True:
        try:
            tok = sc.token()
            if tok is None:
                break
            if tok[0] == 'cs':
                command(tok[1])
            elif tok[0] == '{':
                stack.append(('group', None, state.copy()))
            elif tok[0] == '}':
                if not stack or stack[-1][0] != 'group':
                    vec.problem('Unbalanced "}" at position %d' % (sc.i - 1,))
                else:
                    saved = stack.pop()[2]
                    state.__dict__.update(saved.__dict__)
            else:
                if in_picture[0]:
                    vec.problem('Unexpected character %r inside of the picture at position %d' % (tok[1], sc.i - 1))
                else:
                    info['text_outside_picture'] = True
        except _TeXError as ex:
            vec.problem('TeX: %s' % (ex,))
            if len(vec.problems) >= _MAX_PROBLEMS:
                break
    for kind, name, _st in stack:
        if kind == 'env':
            vec.problem('\\begin{%s} without matching \\end{%s}' % (name, name))
        else:
            vec.problem('Unbalanced "{"')
    if pictures[0] != 1:
        vec.problem('Expected exactly one pgfpicture, found %d' % (pictures[0],))
    # Units: report everything in the unit of the document if it uses only one
    unit = units[0] if len(units) == 1 else 'pt'
    info['unit'] = unit
    if len(units) > 1:
        info['units'] = list(units)
    f = _TEX_UNITS[unit]
    if f != 1.0:
        for st in strokes:
            st['segs'] = [tuple(v / f for v in seg) for seg in st['segs']]
            st['lw'] = st['lw'] / f
            m = st['ctm']
            st['ctm'] = m[:4] + (m[4] / f, m[5] / f)
        for fl in fills:
            fl['polys'] = [[(x / f, y / f) for (x, y) in poly] for poly in fl['polys']]
    # The module size: the scale of the transformation if there is one,
    # otherwise the coordinates have been multiplied by the writer and a
    # module is as large as the line is wide.
    if strokes:
        ts = _mat_scale(strokes[0]['ctm'])
        if _close(ts, 1.0):
            info['scale_source'] = 'linewidth'
            info['scale_override'] = strokes[0]['lw']
        else:
            info['scale_source'] = 'transform'
    _finalise(vec, strokes, fills, None, yup=True)
    info.pop('scale_override', None)
