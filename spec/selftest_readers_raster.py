"""Self-test of spec/readers_raster.py.

Run:  cd /verif && PYTHONPATH=/repo:/verif /venv/bin/python spec/selftest_readers_raster.py

 (a) hand-built tiny files of every format (built here from the format
     specifications with zlib / binascii.crc32 / struct) decode to the expected pixels;
 (b) corrupted variants produce problems (and never raise);
 (c) real segno output is read back and checked with check_modules / check_grid.
     Cases in which the unchanged library violates the expectation are listed
     under 'LIBRARY DEVIATIONS' and do not influence the exit status.

Exit status 0 iff (a), (b) and the non-deviating part of (c) pass.
"""
import io
import os
import random
import struct
import sys
import zlib
import binascii

sys.path.insert(0, os.path.dirname(os.path.dirname(os.path.abspath(__file__))))

from spec.readers_raster import (Raster, read_png, read_pbm, read_pam, read_ppm, read_xbm,  # noqa: E402
                                 read_xpm, read_txt, read_ansi_terminal, read_compact_terminal,
                                 check_modules, check_grid)

FAILURES = []
COUNTS = {'a': 0, 'b': 0, 'c': 0, 'c_skipped': 0}


def fail(section, msg):
    FAILURES.append('(%s) %s' % (section, msg))


def expect(section, cond, msg):
    COUNTS[section] += 1
    if not cond:
        fail(section, msg)


B = (0, 0, 0, 255)
W = (255, 255, 255, 255)


# ----------------------------------------------------------------------------
# A minimal PNG *encoder* written from the specification (test side only)
# ----------------------------------------------------------------------------

SIG = b'\x89PNG\r\n\x1a\n'


def chunk(ctype, data, crc=None):
    if crc is None:
        crc = binascii.crc32(ctype + data) & 0xffffffff
    return struct.pack('>I', len(data)) + ctype + data + struct.pack('>I', crc)


def ihdr(w, h, depth, ctype, interlace=0):
    return chunk(b'IHDR', struct.pack('>IIBBBBB', w, h, depth, ctype, 0, 0, interlace))


def pack_samples(samples, depth):
    """Pack a scanline of samples, leftmost sample in the high-order bits."""
    if depth == 16:
        return b''.join(struct.pack('>H', s) for s in samples)
    if depth == 8:
        return bytes(samples)
    out = bytearray()
    acc = 0
    nbits = 0
    for s in samples:
        acc = (acc << depth) | s
        nbits += depth
        if nbits == 8:
            out.append(acc)
            acc = nbits = 0
    if nbits:
        out.append(acc << (8 - nbits))
    return bytes(out)


def paeth(a, b, c):
    p = a + b - c
    pa, pb, pc = abs(p - a), abs(p - b), abs(p - c)
    if pa <= pb and pa <= pc:
        return a
    return b if pb <= pc else c


def filter_row(ftype, cur, prev, bpp):
    """PNG spec 9.2: filter a raw scanline (forward direction)."""
    out = bytearray([ftype])
    for i, x in enumerate(cur):
        a = cur[i - bpp] if i >= bpp else 0
        b = prev[i]
        c = prev[i - bpp] if i >= bpp else 0
        if ftype == 0:
            v = x
        elif ftype == 1:
            v = x - a
        elif ftype == 2:
            v = x - b
        elif ftype == 3:
            v = x - ((a + b) >> 1)
        elif ftype == 4:
            v = x - paeth(a, b, c)
        else:
            v = x             # illegal filter type for negative tests
        out.append(v & 0xff)
    return bytes(out)


def filtered(rows_samples, depth, channels, filters):
    """rows_samples: list of sample lists -> filtered byte stream."""
    bpp = max(1, depth * channels // 8)
    out = b''
    prev = None
    for y, samples in enumerate(rows_samples):
        cur = pack_samples(samples, depth)
        if prev is None:
            prev = bytes(len(cur))
        out += filter_row(filters[y % len(filters)], cur, prev, bpp)
        prev = cur
    return out


def make_png(w, h, depth, ctype, rows_samples, filters=(0,), extra=(), idat_split=None,
             interlace=0, stream=None):
    channels = {0: 1, 2: 3, 3: 1, 4: 2, 6: 4}[ctype]
    if stream is None:
        stream = filtered(rows_samples, depth, channels, filters)
    z = zlib.compress(stream)
    out = SIG + ihdr(w, h, depth, ctype, interlace)
    for c in extra:
        out += c
    if idat_split:
        out += chunk(b'IDAT', z[:idat_split]) + chunk(b'IDAT', z[idat_split:])
    else:
        out += chunk(b'IDAT', z)
    return out + chunk(b'IEND', b'')


def scale255(v, maxval):
    return int(v * 255 / maxval + 0.5)


def sample(x, y, k, depth):
    """Deterministic, well mixed test sample."""
    return (x * 37 + y * 91 + k * 53 + 11) * 2654435761 % (1 << 32) >> 7 & ((1 << depth) - 1)


def test_png_good():
    w, h = 3, 2
    combos = [(0, d) for d in (1, 2, 4, 8, 16)] + [(2, 8), (2, 16), (3, 1), (3, 2), (3, 4), (3, 8),
                                                    (4, 8), (4, 16), (6, 8), (6, 16)]
    filter_sets = [(0,), (1,), (2,), (3,), (4,), (4, 3), (1, 2), (3, 4), (2, 1)]
    for ctype, depth in combos:
        channels = {0: 1, 2: 3, 3: 1, 4: 2, 6: 4}[ctype]
        maxv = (1 << depth) - 1
        palette = [((i * 70 + 5) % 256, (i * 33 + 9) % 256, (i * 11 + 200) % 256)
                   for i in range(min(1 << depth, 7))]
        for with_trns in (False, True):
            if with_trns and ctype in (4, 6):
                continue
            rows = []
            for y in range(h):
                row = []
                for x in range(w):
                    for k in range(channels):
                        s = sample(x, y, k, depth)
                        if ctype == 3:
                            s %= len(palette)
                        row.append(s)
                rows.append(row)
            extra = []
            trns = None
            if ctype == 3:
                extra.append(chunk(b'PLTE', b''.join(bytes(p) for p in palette)))
                if with_trns:
                    trns = [0, 128][:len(palette)]
                    extra.append(chunk(b'tRNS', bytes(trns)))
            elif with_trns and ctype == 0:
                trns = (rows[1][1],)
                extra.append(chunk(b'tRNS', struct.pack('>H', *trns)))
            elif with_trns and ctype == 2:
                trns = tuple(rows[0][3:6])
                extra.append(chunk(b'tRNS', struct.pack('>HHH', *trns)))
            expected = []
            for y in range(h):
                erow = []
                for x in range(w):
                    s = rows[y][x * channels:(x + 1) * channels]
                    if ctype == 3:
                        a = trns[s[0]] if trns and s[0] < len(trns) else 255
                        erow.append(palette[s[0]] + (a,))
                    elif ctype == 0:
                        g = scale255(s[0], maxv)
                        erow.append((g, g, g, 0 if trns and tuple(s) == trns else 255))
                    elif ctype == 2:
                        erow.append(tuple(scale255(v, maxv) for v in s)
                                    + (0 if trns and tuple(s) == trns else 255,))
                    elif ctype == 4:
                        g = scale255(s[0], maxv)
                        erow.append((g, g, g, scale255(s[1], maxv)))
                    else:
                        erow.append(tuple(scale255(v, maxv) for v in s))
                expected.append(erow)
            for filters in filter_sets:
                data = make_png(w, h, depth, ctype, rows, filters, extra)
                r = read_png(data)
                label = 'PNG ctype=%d depth=%d trns=%s filters=%r' % (ctype, depth, with_trns, filters)
                expect('a', r.problems == [], '%s: problems %r' % (label, r.problems))
                expect('a', (r.width, r.height) == (w, h) and r.pixels == expected,
                       '%s: pixels %r != %r' % (label, r.pixels, expected))
                expect('a', r.info.get('bit_depth') == depth and r.info.get('colour_type') == ctype,
                       '%s: info %r' % (label, r.info))
            if with_trns:
                flat = [p for row in expected for p in row]
                expect('a', any(p[3] != 255 for p in flat), 'PNG ctype=%d depth=%d: tRNS test has no '
                       'transparent pixel (test construction)' % (ctype, depth))
    # wider rows so that Sub / Average / Paeth really reach back over several pixels
    for ctype, depth, channels in ((0, 1, 1), (0, 8, 1), (2, 8, 3), (6, 8, 4), (3, 4, 1), (4, 16, 2)):
        w2, h2 = 11, 5
        pal = [(i, 255 - i, (i * 7) % 256) for i in range(16)]
        rows = [[sample(x, y, k, depth) for x in range(w2) for k in range(channels)] for y in range(h2)]
        extra = [chunk(b'PLTE', b''.join(bytes(p) for p in pal))] if ctype == 3 else []
        r0 = read_png(make_png(w2, h2, depth, ctype, rows, (0,), extra))
        for filters in ((1,), (2,), (3,), (4,), (0, 1, 2, 3, 4), (4, 3, 2, 1, 0)):
            r = read_png(make_png(w2, h2, depth, ctype, rows, filters, extra, idat_split=5))
            expect('a', r.problems == [] and r0.problems == [] and r.pixels == r0.pixels,
                   'PNG 11x5 ctype=%d depth=%d filters=%r differs from the unfiltered encoding (%r)'
                   % (ctype, depth, filters, r.problems))
            expect('a', r.info['idat_chunks'] == 2, 'split IDAT not counted')
    # 1-bit greyscale, explicit expectation (the case segno writes): 10 x 2, rows 0b1010011001 / inverse
    bits = [1, 0, 1, 0, 0, 1, 1, 0, 0, 1]
    rows = [bits, [1 - b for b in bits]]
    r = read_png(make_png(10, 2, 1, 0, rows))
    expect('a', r.problems == [] and r.pixels == [[W if b else B for b in row] for row in rows],
           '1-bit greyscale 10x2: %r %r' % (r.problems, r.pixels))
    # pHYs, tEXt, unknown ancillary chunk
    extra = [chunk(b'pHYs', struct.pack('>IIB', 11811, 11811, 1)), chunk(b'tEXt', b'Comment\x00hi'),
             chunk(b'prVt', b'xyz')]
    r = read_png(make_png(10, 2, 1, 0, rows, extra=extra))
    expect('a', r.problems == [] and abs(r.info['dpi'][0] - 300) < 0.01 and r.info['phys'] == (11811, 11811, 1),
           'pHYs: %r %r' % (r.problems, r.info))
    expect('a', r.info['chunks'] == ['IHDR', 'pHYs', 'tEXt', 'prVt', 'IDAT', 'IEND'], 'chunk list %r' % r.info['chunks'])
    r = read_png(make_png(10, 2, 1, 0, rows, extra=[chunk(b'pHYs', struct.pack('>IIB', 3, 2, 0))]))
    expect('a', r.problems == [] and 'dpi' not in r.info and r.info['phys'] == (3, 2, 0), 'pHYs unit 0: %r' % r.info)
    # Adam7 interlace, 5x5 8-bit greyscale + 9x3 RGB: encode the seven passes by hand
    for (w2, h2, ctype, channels) in ((5, 5, 0, 1), (9, 3, 2, 3), (1, 1, 0, 1), (3, 7, 6, 4)):
        img = [[[sample(x, y, k, 8) for k in range(channels)] for x in range(w2)] for y in range(h2)]
        stream = b''
        for xs, ys, dx, dy in ((0, 0, 8, 8), (4, 0, 8, 8), (0, 4, 4, 8), (2, 0, 4, 4), (0, 2, 2, 4),
                               (1, 0, 2, 2), (0, 1, 1, 2)):
            prows = [[v for x in range(xs, w2, dx) for v in img[y][x]] for y in range(ys, h2, dy)]
            if prows and prows[0]:
                stream += filtered(prows, 8, channels, (4, 1, 3))
        r = read_png(make_png(w2, h2, 8, ctype, None, interlace=1, stream=stream))
        if ctype == 0:
            exp = [[(p[0], p[0], p[0], 255) for p in row] for row in img]
        elif ctype == 2:
            exp = [[tuple(p) + (255,) for p in row] for row in img]
        else:
            exp = [[tuple(p) for p in row] for row in img]
        expect('a', r.problems == [] and r.pixels == exp, 'Adam7 %dx%d ctype %d: %r' % (w2, h2, ctype, r.problems))


def test_netpbm_good():
    # P1 with comments, white space optional between the bits
    data = b'P1\n# a comment\n3 2 # another\n1 0 1\n010\n'
    r = read_pbm(data)
    expect('a', r.problems == [] and r.pixels == [[B, W, B], [W, B, W]], 'P1: %r %r' % (r.problems, r.pixels))
    r = read_pbm(b'P1 3 2 101010')
    expect('a', r.problems == [] and r.pixels == [[B, W, B], [W, B, W]], 'P1 compact: %r' % r.problems)
    # P4 3x2: rows 101 -> 0b10100000, 011 -> 0b01100000 ; padding bits set in second row (don't care)
    r = read_pbm(b'P4\n#c\n3 2\n' + bytes([0b10100000, 0b01111111]))
    expect('a', r.problems == [] and r.pixels == [[B, W, B], [W, B, B]] and r.info['nonzero_padding'],
           'P4 3x2: %r %r' % (r.problems, r.pixels))
    # P4 10x2: two bytes per row; the raster starts directly after ONE white space, first raster byte is 0x0a
    r = read_pbm(b'P4 10 2\n' + bytes([0x0a, 0x40, 0xff, 0x80]))
    exp = [[W, W, W, W, B, W, B, W, W, B], [B] * 9 + [W]]
    expect('a', r.problems == [] and r.pixels == exp, 'P4 10x2: %r %r' % (r.problems, r.pixels))
    r = read_pbm(b'P4 8 1#x\n' + bytes([0x23]))     # comment ends the height token; raster byte is '#'
    expect('a', r.problems == [] and r.pixels == [[W, W, B, W, W, W, B, B]], 'P4 comment delimiter: %r' % r.problems)
    # P6
    body = bytes([255, 0, 0, 0, 255, 0, 0, 0, 255, 10, 20, 30, 0, 0, 0, 255, 255, 255])
    r = read_ppm(b'P6 # comment\n3 2 255\n' + body)
    exp = [[(255, 0, 0, 255), (0, 255, 0, 255), (0, 0, 255, 255)], [(10, 20, 30, 255), B, W]]
    expect('a', r.problems == [] and r.pixels == exp and r.info['maxval'] == 255, 'P6: %r %r' % (r.problems, r.pixels))
    r = read_ppm(b'P6\n2 1\n15\n' + bytes([15, 0, 3, 0, 15, 5]))
    expect('a', r.problems == [] and r.pixels == [[(255, 0, 51, 255), (0, 255, 85, 255)]], 'P6 maxval 15: %r' % r.pixels)

    # P7
    def pam(w, h, depth, maxval, tt, body, comment=True):
        hd = b'P7\n' + (b'# comment\n' if comment else b'') + \
            ('WIDTH %d\nHEIGHT %d\nDEPTH %d\nMAXVAL %d\n' % (w, h, depth, maxval)).encode()
        for t in tt:
            hd += b'TUPLTYPE ' + t.encode() + b'\n'
        return hd + b'ENDHDR\n' + body
    r = read_pam(pam(3, 2, 1, 1, ['BLACKANDWHITE'], bytes([1, 0, 1, 0, 0, 1])))
    expect('a', r.problems == [] and r.pixels == [[W, B, W], [B, B, W]], 'PAM BW: %r %r' % (r.problems, r.pixels))
    r = read_pam(pam(3, 2, 2, 1, ['BLACKANDWHITE_ALPHA'], bytes([1, 1, 0, 1, 1, 0, 0, 0, 0, 1, 1, 1])))
    exp = [[W, B, (255, 255, 255, 0)], [(0, 0, 0, 0), B, W]]
    expect('a', r.problems == [] and r.pixels == exp, 'PAM BW_ALPHA: %r %r' % (r.problems, r.pixels))
    r = read_pam(pam(3, 2, 1, 255, ['GRAYSCALE'], bytes([0, 1, 2, 100, 200, 255])))
    exp = [[(v, v, v, 255) for v in (0, 1, 2)], [(v, v, v, 255) for v in (100, 200, 255)]]
    expect('a', r.problems == [] and r.pixels == exp, 'PAM GRAY: %r' % r.problems)
    r = read_pam(pam(2, 1, 1, 15, ['GRAYSCALE'], bytes([3, 15])))
    expect('a', r.problems == [] and r.pixels == [[(51, 51, 51, 255), W]], 'PAM GRAY maxval 15: %r' % r.pixels)
    r = read_pam(pam(2, 1, 2, 255, ['GRAYSCALE_ALPHA'], bytes([7, 0, 9, 128])))
    expect('a', r.problems == [] and r.pixels == [[(7, 7, 7, 0), (9, 9, 9, 128)]], 'PAM GRAY_ALPHA: %r' % r.pixels)
    r = read_pam(pam(3, 2, 3, 255, ['RGB'], body))
    expect('a', r.problems == [] and r.pixels == [[(255, 0, 0, 255), (0, 255, 0, 255), (0, 0, 255, 255)],
                                                  [(10, 20, 30, 255), B, W]], 'PAM RGB: %r' % r.problems)
    r = read_pam(pam(2, 1, 4, 255, ['RGB_ALPHA'], bytes([1, 2, 3, 4, 5, 6, 7, 255]), comment=False))
    expect('a', r.problems == [] and r.pixels == [[(1, 2, 3, 4), (5, 6, 7, 255)]], 'PAM RGBA: %r' % r.pixels)
    r = read_pam(pam(1, 1, 4, 65535, ['RGB_ALPHA'], struct.pack('>HHHH', 65535, 0, 0x8000, 65535)))
    expect('a', r.problems == [] and r.pixels == [[(255, 0, 128, 255)]], 'PAM 16 bit: %r %r' % (r.problems, r.pixels))
    r = read_pam(pam(1, 1, 4, 255, ['RGB_ALPHA'.split('_')[0] + '_ALPHA'], bytes([9, 8, 7, 6])))
    expect('a', r.problems == [], 'PAM: %r' % r.problems)


def test_c_formats_good():
    xbm = ('#define t_width 10\n#define t_height 2\n/* c */\n'
           'static unsigned char t_bits[] = {\n  0x05, 0x02,\n  0xf0, 0x01 };\n')
    # row 0: 0x05 -> pixels 0 and 2; 0x02 -> pixel 9.   row 1: 0xf0 -> 4..7; 0x01 -> 8
    exp = [[B, W, B, W, W, W, W, W, W, B], [W, W, W, W, B, B, B, B, B, W]]
    for src in (xbm, xbm.encode('ascii'), xbm.replace('unsigned char', 'char'),
                xbm.replace('t_height 2', 't_height 2\n#define t_x_hot 1\n#define t_y_hot 0')):
        r = read_xbm(src)
        expect('a', r.problems == [] and (r.width, r.height) == (10, 2) and r.pixels == exp
               and r.info['name'] == 't', 'XBM: %r %r' % (r.problems, r.pixels))
    r = read_xbm('#define t_width 3\n#define t_height 2\nstatic char t_bits[] = { 0xfd, 0x02, };')
    expect('a', r.problems == [] and r.pixels == [[B, W, B], [W, B, W]] and r.info['nonzero_padding'],
           'XBM 3x2: %r %r' % (r.problems, r.pixels))
    xpm = ('/* XPM */\nstatic char *img[] = {\n/* values */\n"3 2 3 1",\n"  c None",\n"X c #0a141e",\n'
           '". c #FFFF00",\n"X. ",\n" X."\n};\n')
    d, y, t = (10, 20, 30, 255), (255, 255, 0, 255), (0, 0, 0, 0)
    for src in (xpm, xpm.encode('ascii')):
        r = read_xpm(src)
        expect('a', r.problems == [] and r.pixels == [[d, y, t], [t, d, y]] and r.info['name'] == 'img',
               'XPM cpp 1: %r %r' % (r.problems, r.pixels))
    xpm2 = ('/* XPM */\nstatic const char * const x_y[] = {\n"2 2 2 2 0 1",\n"ab m black c #000000000000",\n'
            '"c  s light c white m white",\n"abc ",\n"c ab",\n};\n')
    r = read_xpm(xpm2)
    expect('a', r.problems == [] and r.pixels == [[B, W], [W, B]] and r.info['hotspot'] == (0, 1)
           and r.info['cpp'] == 2, 'XPM cpp 2: %r %r' % (r.problems, r.pixels))


def test_text_good():
    expect('a', read_txt('010\n111\n') == [[0, 1, 0], [1, 1, 1]], 'txt')
    expect('a', read_txt('01\r\n10') == [[0, 1], [1, 0]], 'txt crlf / no trailing newline')
    expect('a', read_txt('') == [], 'txt empty')
    E = '\x1b'
    ansi = (E + '[7m    ' + E + '[0m' + E + '[49m  ' + E + '[0m\n'
            + E + '[49m  ' + E + '[0m' + E + '[7m  ' + E + '[0m' + E + '[49m  ' + E + '[0m\n')
    expect('a', read_ansi_terminal(ansi) == [[0, 0, 1], [1, 0, 1]], 'ansi: %r' % read_ansi_terminal(ansi))
    # same picture, different but equivalent SGR usage (state persists; 27 = positive; ESC[m = reset)
    ansi2 = E + '[0;7m    ' + E + '[27m  ' + E + '[m\n  ' + E + '[7m  ' + E + '[m  \n'
    expect('a', read_ansi_terminal(ansi2) == [[0, 0, 1], [1, 0, 1]], 'ansi2: %r' % read_ansi_terminal(ansi2))
    # compact: 3 columns, 3 module rows -> 2 text lines, last half row = padding (unpainted)
    #   rows: [0,1,0] / [1,1,0] / [0,0,1]    (1 = dark = unpainted)
    comp = '▀ █\n▀▀ \n'
    expect('a', read_compact_terminal(comp) == [[0, 1, 0], [1, 1, 0], [0, 0, 1]],
           'compact: %r' % read_compact_terminal(comp))
    comp = '▄\n'       # 1x1: light would be upper painted; here upper unpainted (dark) and padding painted
    expect('a', read_compact_terminal(comp) == [[1], [0]], 'compact no padding drop: %r' % read_compact_terminal(comp))
    expect('a', read_compact_terminal('▀\n') == [[0]], 'compact 1x1')
    expect('a', read_compact_terminal(E + '[7m▄█' + E + '[0m\n') == [[0, 1], [1, 1]],
           'compact reverse: %r' % read_compact_terminal(E + '[7m▄█' + E + '[0m\n'))
    # check_modules / check_grid on hand-made data
    m = [[1, 0], [0, 1]]
    ras = Raster(4, 4, [[W] * 4, [W, B, W, W], [W, W, B, W], [W] * 4])
    expect('a', check_modules(m, ras, 1, 1, B, W) == [], 'check_modules ok case: %r' % check_modules(m, ras, 1, 1, B, W))
    expect('a', check_modules(m, ras, 1, 1, (0, 0, 0), (255, 255, 255)) == [], 'check_modules rgb tuples')
    tr = (1, 2, 3, 0)
    ras2 = Raster(4, 4, [[tr if p == W else p for p in row] for row in ras.pixels])
    expect('a', check_modules(m, ras2, 1, 1, B, None) == [], 'check_modules transparent light')
    big = Raster(4, 4, [[B, B, W, W], [B, B, W, W], [W, W, B, B], [W, W, B, B]])
    expect('a', check_modules(m, big, 2, 0, B, W) == [], 'check_modules scale 2')
    expect('a', check_grid(m, [[0, 0, 0, 0], [0, 1, 0, 0], [0, 0, 1, 0], [0, 0, 0, 0]], 1) == [], 'check_grid ok')
    expect('a', check_grid(m, [[1, 0], [0, 1]], 0) == [], 'check_grid border 0')


# ----------------------------------------------------------------------------
# (b) corrupted files
# ----------------------------------------------------------------------------

def has(problems, *words):
    return any(all(w.lower() in p.lower() for w in words) for p in problems)


def test_png_bad():
    bits = [1, 0, 1, 0, 0, 1, 1, 0, 0, 1]
    rows = [bits, [1 - b for b in bits]]
    good = make_png(10, 2, 1, 0, rows)
    stream = filtered(rows, 1, 1, (0,))
    z = zlib.compress(stream)
    assert read_png(good).problems == []

    def bad(label, data, *words):
        try:
            r = read_png(data)
        except Exception as ex:       # must never raise
            expect('b', False, 'PNG %s: raised %r' % (label, ex))
            return None
        expect('b', r.problems != [] and (not words or has(r.problems, *words)),
               'PNG %s: expected a problem mentioning %r, got %r' % (label, words, r.problems))
        return r

    # flipped CRC byte of every single chunk in turn
    pos = 8
    while pos < len(good):
        length, = struct.unpack('>I', good[pos:pos + 4])
        name = good[pos + 4:pos + 8].decode()
        crc_at = pos + 8 + length
        for k in range(4):
            d = bytearray(good)
            d[crc_at + k] ^= 0x01
            bad('CRC byte %d of %s flipped' % (k, name), bytes(d), 'CRC', name)
        pos = crc_at + 4
    d = bytearray(good)
    d[8 + 8 + 3] ^= 0x40          # flip a data bit inside IHDR (width), CRC unchanged
    bad('IHDR data bit flipped', bytes(d), 'CRC', 'IHDR')
    d = bytearray(good)
    d[good.index(b'IDAT') + 6] ^= 0x10
    bad('IDAT data bit flipped', bytes(d), 'CRC', 'IDAT')
    # truncated IDAT (valid CRC over the shortened data)
    for cut in (1, 4, 5, len(z) // 2):
        bad('IDAT truncated by %d' % cut, SIG + ihdr(10, 2, 1, 0) + chunk(b'IDAT', z[:-cut]) + chunk(b'IEND', b''))
    r = bad('IDAT truncated (adler)', SIG + ihdr(10, 2, 1, 0) + chunk(b'IDAT', z[:-2]) + chunk(b'IEND', b''), 'zlib')
    bad('file truncated inside IDAT', good[:good.index(b'IDAT') + 10], 'truncated')
    bad('file truncated: no IEND', good[:-12], 'IEND')
    bad('empty IDAT', SIG + ihdr(10, 2, 1, 0) + chunk(b'IDAT', b'') + chunk(b'IEND', b''))
    bad('no IDAT', SIG + ihdr(10, 2, 1, 0) + chunk(b'IEND', b''), 'no IDAT')
    # wrong IHDR length (CRC valid)
    body = struct.pack('>IIBBBBB', 10, 2, 1, 0, 0, 0, 0)
    bad('IHDR 14 bytes', SIG + chunk(b'IHDR', body + b'\0') + chunk(b'IDAT', z) + chunk(b'IEND', b''), 'IHDR', '13')
    bad('IHDR 12 bytes', SIG + chunk(b'IHDR', body[:-1]) + chunk(b'IDAT', z) + chunk(b'IEND', b''), 'IHDR', '13')
    bad('IHDR not first', SIG + chunk(b'tEXt', b'a\0b') + ihdr(10, 2, 1, 0) + chunk(b'IDAT', z) + chunk(b'IEND', b''),
        'first chunk')
    bad('two IHDR', SIG + ihdr(10, 2, 1, 0) + ihdr(10, 2, 1, 0) + chunk(b'IDAT', z) + chunk(b'IEND', b''), 'IHDR', 'times')
    # signature
    bad('signature', b'\x89PNG\n\n\x1a\n' + good[8:], 'signature')
    bad('empty', b'')
    bad('signature only', SIG)
    bad('not a png', b'P4\n1 1\n\x00')
    # illegal colour type / bit depth combinations
    for ctype, depth in ((0, 3), (2, 4), (3, 16), (4, 4), (6, 2), (1, 8), (5, 8), (7, 8), (0, 0), (0, 32)):
        bad('ctype %d depth %d' % (ctype, depth), SIG + ihdr(10, 2, depth, ctype) + chunk(b'IDAT', z) + chunk(b'IEND', b''),
            'IHDR')
    bad('compression method', SIG + chunk(b'IHDR', struct.pack('>IIBBBBB', 10, 2, 1, 0, 1, 0, 0)) + chunk(b'IDAT', z)
        + chunk(b'IEND', b''), 'compression')
    bad('filter method', SIG + chunk(b'IHDR', struct.pack('>IIBBBBB', 10, 2, 1, 0, 0, 1, 0)) + chunk(b'IDAT', z)
        + chunk(b'IEND', b''), 'filter method')
    bad('interlace method', SIG + chunk(b'IHDR', struct.pack('>IIBBBBB', 10, 2, 1, 0, 0, 0, 2)) + chunk(b'IDAT', z)
        + chunk(b'IEND', b''), 'interlace')
    bad('zero width', SIG + ihdr(0, 2, 1, 0) + chunk(b'IDAT', z) + chunk(b'IEND', b''), 'zero')
    # declared size != data
    bad('height 3 but 2 rows of data', SIG + ihdr(10, 3, 1, 0) + chunk(b'IDAT', z) + chunk(b'IEND', b''), 'expected exactly')
    bad('height 1 but 2 rows of data', SIG + ihdr(10, 1, 1, 0) + chunk(b'IDAT', z) + chunk(b'IEND', b''), 'expected exactly')
    bad('width 17 (3 bytes per row) but 2 bytes', SIG + ihdr(17, 2, 1, 0) + chunk(b'IDAT', z) + chunk(b'IEND', b''),
        'expected exactly')
    bad('one extra byte', make_png(10, 2, 1, 0, None, stream=stream + b'\0'), 'expected exactly')
    bad('one byte missing', make_png(10, 2, 1, 0, None, stream=stream[:-1]), 'expected exactly')
    r = read_png(SIG + ihdr(16, 2, 1, 0) + chunk(b'IDAT', z) + chunk(b'IEND', b''))
    expect('b', r.problems == [], 'width 16 needs the same 2 bytes per row as width 10: %r' % r.problems)
    # filter type 5
    bad('filter type 5', make_png(10, 2, 1, 0, rows, filters=(0, 5)), 'filter type 5')
    # garbage after the zlib stream / bad zlib header / bad adler
    bad('garbage after zlib stream', SIG + ihdr(10, 2, 1, 0) + chunk(b'IDAT', z + b'xx') + chunk(b'IEND', b''), 'garbage')
    zz = bytearray(z)
    zz[-1] ^= 0xff
    bad('adler32 wrong', SIG + ihdr(10, 2, 1, 0) + chunk(b'IDAT', bytes(zz)) + chunk(b'IEND', b''), 'zlib')
    bad('not deflate', SIG + ihdr(10, 2, 1, 0) + chunk(b'IDAT', b'\x79\x9c' + z[2:]) + chunk(b'IEND', b''), 'zlib')
    # IEND
    bad('IEND not empty', good[:-12] + chunk(b'IEND', b'x'), 'IEND', 'empty')
    bad('data after IEND', good + chunk(b'tEXt', b'a\0b'), 'IEND')
    bad('junk after IEND', good + b'junk')
    bad('IDAT not consecutive', SIG + ihdr(10, 2, 1, 0) + chunk(b'IDAT', z[:4]) + chunk(b'tEXt', b'a\0b')
        + chunk(b'IDAT', z[4:]) + chunk(b'IEND', b''), 'consecutive')
    bad('unknown critical chunk', SIG + ihdr(10, 2, 1, 0) + chunk(b'ABCD', b'') + chunk(b'IDAT', z) + chunk(b'IEND', b''),
        'critical')
    bad('chunk type not letters', SIG + ihdr(10, 2, 1, 0) + chunk(b'te1t', b'') + chunk(b'IDAT', z) + chunk(b'IEND', b''),
        'letters')
    bad('pHYs after IDAT', SIG + ihdr(10, 2, 1, 0) + chunk(b'IDAT', z) + chunk(b'pHYs', struct.pack('>IIB', 1, 1, 1))
        + chunk(b'IEND', b''), 'pHYs')
    bad('pHYs length', make_png(10, 2, 1, 0, rows, extra=[chunk(b'pHYs', b'\0' * 8)]), 'pHYs')
    bad('pHYs unit', make_png(10, 2, 1, 0, rows, extra=[chunk(b'pHYs', struct.pack('>IIB', 1, 1, 2))]), 'pHYs')
    # palette
    pal3 = chunk(b'PLTE', bytes([0, 0, 0, 255, 255, 255, 255, 0, 0]))
    prow = [[0, 1, 2], [2, 1, 0]]
    r = read_png(make_png(3, 2, 2, 3, prow, extra=[pal3]))
    expect('b', r.problems == [] and r.pixels[0][2] == (255, 0, 0, 255), 'palette baseline: %r' % r.problems)
    bad('palette index out of range', make_png(3, 2, 2, 3, [[0, 1, 3], [2, 1, 0]], extra=[pal3]), 'index 3', 'out of range')
    bad('palette index out of range (8 bit)', make_png(3, 2, 8, 3, [[0, 1, 200], [2, 1, 0]], extra=[pal3]), 'out of range')
    bad('PLTE missing', make_png(3, 2, 2, 3, prow), 'PLTE')
    bad('PLTE length 8', make_png(3, 2, 2, 3, prow, extra=[chunk(b'PLTE', bytes(8))]), 'multiple of 3')
    bad('PLTE empty', make_png(3, 2, 2, 3, prow, extra=[chunk(b'PLTE', b'')]), 'PLTE')
    bad('PLTE too long for depth', make_png(3, 2, 1, 3, [[0, 1, 0], [1, 1, 0]], extra=[pal3]), 'PLTE', 'more than')
    bad('PLTE after IDAT', SIG + ihdr(3, 2, 2, 3) + chunk(b'IDAT', zlib.compress(filtered(prow, 2, 1, (0,)))) + pal3
        + chunk(b'IEND', b''), 'PLTE after IDAT')
    bad('PLTE in greyscale', make_png(10, 2, 1, 0, rows, extra=[pal3]), 'PLTE')
    bad('tRNS longer than palette', make_png(3, 2, 2, 3, prow, extra=[pal3, chunk(b'tRNS', bytes(4))]), 'tRNS')
    bad('tRNS before PLTE', make_png(3, 2, 2, 3, prow, extra=[chunk(b'tRNS', bytes(1)), pal3]), 'tRNS', 'follow')
    bad('tRNS length for greyscale', make_png(10, 2, 1, 0, rows, extra=[chunk(b'tRNS', bytes(1))]), 'tRNS')
    bad('tRNS value exceeds depth', make_png(10, 2, 1, 0, rows, extra=[chunk(b'tRNS', struct.pack('>H', 2))]), 'tRNS')
    bad('tRNS length for truecolour', make_png(3, 2, 8, 2, [[1] * 9] * 2, extra=[chunk(b'tRNS', bytes(2))]), 'tRNS')
    bad('tRNS with alpha colour type', make_png(3, 2, 8, 4, [[1] * 6] * 2, extra=[chunk(b'tRNS', bytes(2))]), 'tRNS')


def test_other_bad():
    def bad(reader, label, data, *words):
        try:
            r = reader(data)
        except Exception as ex:
            expect('b', False, '%s %s: raised %r' % (reader.__name__, label, ex))
            return
        expect('b', r.problems != [] and (not words or has(r.problems, *words)),
               '%s %s: expected a problem mentioning %r, got %r' % (reader.__name__, label, words, r.problems))

    bad(read_pbm, 'magic', b'P5\n3 2\n\0\0', 'magic')
    bad(read_pbm, 'P4 short', b'P4\n3 2\n\xa0', 'expected exactly 2')
    bad(read_pbm, 'P4 long', b'P4\n3 2\n\xa0\x60\x00', 'expected exactly 2')
    bad(read_pbm, 'P4 size needs 2 bytes per row', b'P4\n9 2\n\xa0\x60', 'expected exactly 4')
    bad(read_pbm, 'P4 no height', b'P4\n3\n', 'height')
    bad(read_pbm, 'P4 junk width', b'P4\nx 2\n\xa0\x60', 'width')
    bad(read_pbm, 'P4 zero', b'P4\n0 2\n', 'zero')
    bad(read_pbm, 'P1 short', b'P1\n3 2\n10101', 'expected exactly 6')
    bad(read_pbm, 'P1 long', b'P1\n3 2\n1010101', 'expected exactly 6')
    bad(read_pbm, 'P1 illegal char', b'P1\n3 2\n10x010', 'illegal')
    bad(read_pbm, 'empty', b'')
    bad(read_ppm, 'magic', b'P3\n1 1 255\n0 0 0', 'magic')
    bad(read_ppm, 'short', b'P6\n3 2 255\n' + bytes(17), 'expected exactly 18')
    bad(read_ppm, 'long', b'P6\n3 2 255\n' + bytes(19), 'expected exactly 18')
    bad(read_ppm, 'maxval 0', b'P6\n1 1 0\n' + bytes(3), 'maxval')
    bad(read_ppm, 'maxval 65536', b'P6\n1 1 65536\n' + bytes(6), 'maxval')
    bad(read_ppm, 'maxval 1000', b'P6\n1 1 1000\n' + bytes(6), 'unsupported')
    bad(read_ppm, 'sample > maxval', b'P6\n1 1 15\n' + bytes([1, 16, 2]), 'exceeds maxval')
    bad(read_ppm, 'no maxval', b'P6\n1 1\n', 'maxval')
    hd = b'P7\nWIDTH 3\nHEIGHT 2\nDEPTH 1\nMAXVAL 1\nTUPLTYPE BLACKANDWHITE\nENDHDR\n'
    assert read_pam(hd + bytes(6)).problems == []
    bad(read_pam, 'short', hd + bytes(5), 'expected exactly 6')
    bad(read_pam, 'long', hd + bytes(7), 'expected exactly 6')
    bad(read_pam, 'sample > maxval', hd + bytes([0, 1, 2, 0, 0, 0]), 'exceeds MAXVAL')
    bad(read_pam, 'no ENDHDR', hd.replace(b'ENDHDR\n', b'') + bytes(6), 'ENDHDR')
    bad(read_pam, 'no WIDTH', hd.replace(b'WIDTH 3\n', b'') + bytes(6), 'WIDTH missing')
    bad(read_pam, 'WIDTH twice', hd.replace(b'WIDTH 3\n', b'WIDTH 3\nWIDTH 3\n') + bytes(6), 'more than once')
    bad(read_pam, 'depth/tupltype', hd.replace(b'DEPTH 1', b'DEPTH 2') + bytes(12), 'requires DEPTH 1')
    bad(read_pam, 'BW maxval', hd.replace(b'MAXVAL 1', b'MAXVAL 255') + bytes(6), 'requires MAXVAL 1')
    bad(read_pam, 'unknown tupltype', hd.replace(b'BLACKANDWHITE', b'CMYK') + bytes(6), 'unsupported')
    bad(read_pam, 'no tupltype', hd.replace(b'TUPLTYPE BLACKANDWHITE\n', b'') + bytes(6), 'TUPLTYPE missing')
    bad(read_pam, 'unknown header line', hd.replace(b'ENDHDR', b'FOO 1\nENDHDR') + bytes(6), 'unknown header')
    bad(read_pam, 'magic', b'P6\n', 'P7')
    bad(read_pam, 'bad number', hd.replace(b'HEIGHT 2', b'HEIGHT two') + bytes(6), 'HEIGHT')
    xbm = '#define t_width 10\n#define t_height 2\nstatic unsigned char t_bits[] = {\n  0x05, 0x02,\n  0xf0, 0x01 };\n'
    assert read_xbm(xbm).problems == []
    bad(read_xbm, 'one byte missing', xbm.replace(', 0x01', ''), 'expected exactly 4')
    bad(read_xbm, 'one byte too many', xbm.replace('0x01', '0x01, 0x00'), 'expected exactly 4')
    bad(read_xbm, 'width needs 1 byte per row', xbm.replace('t_width 10', 't_width 8'), 'expected exactly 2')
    bad(read_xbm, 'no height', xbm.replace('#define t_height 2\n', ''), 'height missing')
    bad(read_xbm, 'name mismatch', xbm.replace('t_bits', 'u_bits'), 'inconsistent')
    bad(read_xbm, 'value too large', xbm.replace('0xf0', '0x1f0'), 'does not fit')
    bad(read_xbm, 'not a literal', xbm.replace('0xf0', 'xf0'), 'integer literal')
    bad(read_xbm, 'no array', '#define t_width 10\n#define t_height 2\n', 'array declaration')
    bad(read_xbm, 'X10 short', xbm.replace('unsigned char', 'short'), 'unsupported')
    bad(read_xbm, 'junk', xbm + 'int x;', 'unexpected text')
    bad(read_xbm, 'empty', '')
    xpm = '/* XPM */\nstatic char *img[] = {\n"3 2 2 1",\n"  c None",\n"X c #0a141e",\n"X  ",\n" X "\n};\n'
    assert read_xpm(xpm).problems == []
    bad(read_xpm, 'no XPM comment', xpm.replace('/* XPM */\n', ''), '/* XPM */')
    bad(read_xpm, 'short row', xpm.replace('"X  "', '"X "'), 'expected exactly 3')
    bad(read_xpm, 'long row', xpm.replace('"X  "', '"X   "'), 'expected exactly 3')
    bad(read_xpm, 'undefined char', xpm.replace('" X "', '" Y "'), 'not a defined colour')
    bad(read_xpm, 'missing row', xpm.replace(',\n" X "', ''), 'pixel lines')
    bad(read_xpm, 'extra row', xpm.replace('" X "', '" X ",\n"   "'), 'pixel lines')
    bad(read_xpm, 'declared width', xpm.replace('"3 2 2 1"', '"4 2 2 1"'), 'expected exactly 4')
    bad(read_xpm, 'bad colour', xpm.replace('#0a141e', '#0a141'), 'unsupported')
    bad(read_xpm, 'unknown colour name', xpm.replace('#0a141e', 'PapayaWhip'), 'unsupported')
    bad(read_xpm, 'no colour key', xpm.replace('X c #0a141e', 'X #0a141e'), 'colour key')
    bad(read_xpm, 'duplicate colour', xpm.replace('"X c #0a141e"', '"  c #0a141e"'), 'defined twice')
    bad(read_xpm, 'values', xpm.replace('"3 2 2 1"', '"3 2 2"'), 'values')
    bad(read_xpm, 'missing comma', xpm.replace('"X  ",', '"X  "'), 'comma')
    bad(read_xpm, 'not closed', xpm.replace('};', ''), 'closed')
    bad(read_xpm, 'declaration', xpm.replace('static char *img[]', 'int img[]'), 'declaration')
    bad(read_xpm, 'unterminated string', xpm.replace('" X "', '" X '), 'unterminated')
    bad(read_xpm, 'empty', '')
    # read_txt must raise ValueError
    for label, t in (('other char', '01\n0x\n'), ('ragged', '01\n0\n'), ('ragged long', '01\n011\n'),
                     ('blank line', '01\n\n10\n'), ('space', '0 1\n')):
        try:
            read_txt(t)
            expect('b', False, 'read_txt %s: no ValueError' % label)
        except ValueError:
            expect('b', True, '')
    # terminal readers: unknown things -> -1 cells -> check_grid complains
    E = '\x1b'
    m = [[1]]
    ok = E + '[49m  ' + E + '[0m\n'
    expect('b', check_grid(m, read_ansi_terminal(ok), 0) == [], 'ansi 1x1 baseline')
    for label, t in (('x instead of space', E + '[49mxx' + E + '[0m\n'), ('odd spaces', E + '[49m   ' + E + '[0m\n'),
                     ('one space', E + '[49m ' + E + '[0m\n'), ('colour 40', E + '[40m  ' + E + '[0m\n'),
                     ('mixed pair', E + '[49m ' + E + '[7m ' + E + '[0m\n'), ('light', E + '[7m  ' + E + '[0m\n'),
                     ('cursor move', E + '[2C' + E + '[49m  ' + E + '[0m\n'), ('two rows', ok + ok),
                     ('blank line', ok + '\n'), ('stray ESC', E + '  \n'), ('empty', '')):
        try:
            g = read_ansi_terminal(t)
            expect('b', check_grid(m, g, 0) != [], 'ansi %s: accepted (%r)' % (label, g))
        except Exception as ex:
            expect('b', False, 'ansi %s: raised %r' % (label, ex))
    expect('b', check_grid(m, read_compact_terminal(' \n'), 0) == [], 'compact 1x1 baseline')
    for label, t in (('light', '▀\n'), ('letter', 'x\n'), ('left half block', '▌\n'), ('colour', E + '[31m \n'),
                     ('two columns', '  \n'), ('painted padding', '▄\n'), ('empty', '')):
        try:
            g = read_compact_terminal(t)
            expect('b', check_grid(m, g, 0) != [], 'compact %s: accepted (%r)' % (label, g))
        except Exception as ex:
            expect('b', False, 'compact %s: raised %r' % (label, ex))
    # check_modules must notice every kind of difference
    m = [[1, 0], [0, 1]]
    pix = [[W] * 4, [W, B, W, W], [W, W, B, W], [W] * 4]

    def variant(x, y, px):
        p = [list(row) for row in pix]
        p[y][x] = px
        return Raster(4, 4, p)
    expect('b', check_modules(m, variant(0, 0, B), 1, 1, B, W) != [], 'quiet zone pixel dark not noticed')
    expect('b', check_modules(m, variant(1, 1, W), 1, 1, B, W) != [], 'dark module light not noticed')
    expect('b', check_modules(m, variant(2, 1, B), 1, 1, B, W) != [], 'light module dark not noticed')
    expect('b', check_modules(m, variant(1, 1, (0, 0, 0, 254)), 1, 1, B, W) != [], 'alpha difference not noticed')
    expect('b', check_modules(m, variant(1, 1, (0, 0, 1, 255)), 1, 1, B, W) != [], 'blue difference not noticed')
    expect('b', check_modules(m, variant(0, 0, (255, 255, 255, 1)), 1, 1, B, None) != [], 'non transparent light not noticed')
    expect('b', check_modules(m, Raster(4, 4, pix), 1, 0, B, W) != [], 'wrong border not noticed')
    expect('b', check_modules(m, Raster(4, 4, pix), 2, 0, B, W) != [], 'wrong scale not noticed')
    expect('b', check_modules(m, Raster(4, 4, pix), 1, 1, W, B) != [], 'swapped colours not noticed')
    expect('b', check_modules(m, Raster(4, 3, pix[:3]), 1, 1, B, W) != [], 'wrong height not noticed')
    expect('b', check_modules(m, Raster(4, 4, pix, problems=['x']), 1, 1, B, W) != [], 'raster problems not propagated')
    expect('b', check_modules([[0, 1], [1, 0]], Raster(4, 4, pix), 1, 1, B, W) != [], 'other matrix not noticed')
    expect('b', check_grid(m, [[1, 0], [0, 0]], 0) != [], 'grid difference not noticed')
    expect('b', check_grid(m, [[1, 0], [0, -1]], 0) != [], 'grid -1 not noticed')
    expect('b', check_grid(m, [[1, 0], [0]], 0) != [], 'ragged grid not noticed')
    expect('b', check_grid(m, [[1, 0], [0, 1]], 1) != [], 'grid border not noticed')


def test_fuzz_never_raises():
    """Random mutations / truncations of valid files: readers must not raise."""
    rnd = random.Random(20261002)
    bits = [1, 0, 1, 0, 0, 1, 1, 0, 0, 1]
    rows = [bits, [1 - b for b in bits]]
    pal3 = chunk(b'PLTE', bytes([0, 0, 0, 255, 255, 255, 255, 0, 0]))
    seeds = [
        (read_png, make_png(10, 2, 1, 0, rows, filters=(4, 3))),
        (read_png, make_png(3, 2, 2, 3, [[0, 1, 2], [2, 1, 0]], extra=[pal3, chunk(b'tRNS', b'\x00')])),
        (read_png, make_png(3, 2, 8, 6, [[1] * 12] * 2, filters=(1, 4))),
        (read_pbm, b'P4\n#c\n10 2\n\x0a\x40\xff\x80'), (read_pbm, b'P1\n3 2\n101\n010\n'),
        (read_ppm, b'P6 #c\n2 1 255\n\x01\x02\x03\x04\x05\x06'),
        (read_pam, b'P7\nWIDTH 2\nHEIGHT 1\nDEPTH 4\nMAXVAL 255\nTUPLTYPE RGB_ALPHA\nENDHDR\n' + bytes(8)),
        (read_xbm, b'#define t_width 10\n#define t_height 2\nstatic unsigned char t_bits[] = {\n 0x05, 0x02,\n 0xf0, 0x01 };\n'),
        (read_xpm, b'/* XPM */\nstatic char *img[] = {\n"3 2 2 1",\n"  c None",\n"X c #0a141e",\n"X  ",\n" X "\n};\n'),
    ]
    runs = 0
    for reader, data in seeds:
        for _ in range(400):
            d = bytearray(data)
            op = rnd.randrange(4)
            if op == 0 and d:
                for _k in range(rnd.randrange(1, 4)):
                    d[rnd.randrange(len(d))] = rnd.randrange(256)
            elif op == 1:
                d = d[:rnd.randrange(len(d) + 1)]
            elif op == 2 and d:
                i = rnd.randrange(len(d))
                del d[i:i + rnd.randrange(1, 5)]
            else:
                i = rnd.randrange(len(d) + 1)
                d[i:i] = bytes(rnd.randrange(256) for _k in range(rnd.randrange(1, 5)))
            try:
                r = reader(bytes(d))
                ok = isinstance(r.problems, list) and len(r.pixels) in (0, r.height)
                runs += 1
                if not ok:
                    expect('b', False, 'fuzz %s: inconsistent raster for %r' % (reader.__name__, bytes(d)))
            except Exception as ex:
                expect('b', False, 'fuzz %s raised %r on %r' % (reader.__name__, ex, bytes(d)))
        for t in ('', 'x', '\x1b', '\x1b[', '\x1b[7', '\x1b[7m', '▀\x1b[', ' \n\n '):
            for f in (read_ansi_terminal, read_compact_terminal):
                try:
                    f(t)
                except Exception as ex:
                    expect('b', False, '%s raised %r on %r' % (f.__name__, ex, t))
    expect('b', runs > 3000, 'fuzz runs %d' % runs)


# ----------------------------------------------------------------------------
# (c) real segno output
# ----------------------------------------------------------------------------

DEVIATIONS = {}      # signature -> [example call, detail, count]
SKIPPED = {}         # documented-unsupported option combinations: signature -> [example, count]

# colour option sets: (keyword arguments, expected dark, expected light)
COLOURS = [
    ({}, B, W),
    ({'dark': '#00f', 'light': None}, (0, 0, 255, 255), None),
    ({'dark': (10, 20, 30), 'light': 'yellow'}, (10, 20, 30, 255), (255, 255, 0, 255)),
    ({'dark': '#0000ffcc', 'light': 'white'}, (0, 0, 255, 0xcc), W),
]

# (kind, reader, binary stream, supports colours)   -- /repo/docs/serializers.rst and the
# QRCode.save docstring: PBM, XBM, TXT and the terminal output are black / white only.
RASTER_FORMATS = [
    ('png', read_png, True, True),
    ('ppm', read_ppm, True, True),
    ('pam', read_pam, True, True),
    ('xpm', read_xpm, False, True),
    ('pbm', read_pbm, True, False),
    ('xbm', read_xbm, False, False),
]


def documented_unsupported(kind, kw, ex):
    """A clean ValueError for an option the documentation declares unsupported."""
    if not isinstance(ex, ValueError):
        return False
    has_alpha = any(isinstance(v, str) and v.startswith('#') and len(v) in (5, 9) for v in kw.values())
    transparent = 'light' in kw and kw['light'] is None
    # docs: "PPM ... The serializer does not support transparency"; alpha values are accepted by
    # "some serializers (i.e. SVG and PNG)" only; XPM knows None but no alpha channel.
    if kind == 'ppm' and (transparent or has_alpha):
        return True
    if kind == 'xpm' and has_alpha:
        return True
    return False


def record_deviation(sig, call, detail):
    if sig in DEVIATIONS:
        DEVIATIONS[sig][2] += 1
    else:
        DEVIATIONS[sig] = [call, detail, 1]


def fmt_call(desc, meth, out, kw):
    args = ', '.join('%s=%r' % item for item in kw.items())
    return '%s.%s(%s, %s)' % (desc, meth, out, args)


def test_segno():
    import segno
    symbols = [
        ("segno.make('Hello')", segno.make('Hello')),
        ("segno.make_micro('12')", segno.make_micro('12')),
        ("segno.make('Version seven', version=7)", segno.make('Version seven', version=7)),
    ]
    expect('c', symbols[2][1].version == 7, 'version 7 symbol is %r' % (symbols[2][1].version,))
    for desc, qr in symbols:
        matrix = [[int(v) for v in row] for row in qr.matrix]
        expect('c', all(v in (0, 1) for row in matrix for v in row) and len(matrix) == len(matrix[0]),
               '%s: matrix is not a square of 0/1' % desc)
        for scale in (1, 3, 8):
            for border in (0, 1, 4):
                for kind, reader, binary, coloured in RASTER_FORMATS:
                    variants = [{}]
                    if kind == 'pbm':
                        variants = [{}, {'plain': True}]
                    if kind == 'xbm':
                        variants = [{}, {'name': 'qr_code'}]
                    for ckw, dark, light in (COLOURS if coloured else COLOURS[:1]):
                        for extra in variants:
                            kw = dict(kind=kind, scale=scale, border=border)
                            kw.update(ckw)
                            kw.update(extra)
                            out = io.BytesIO() if binary else io.StringIO()
                            call = fmt_call(desc, 'save', 'io.BytesIO()' if binary else 'io.StringIO()', kw)
                            sig = (kind, repr(sorted(ckw.items(), key=repr)), repr(sorted(extra.items())))
                            try:
                                qr.save(out, **kw)
                            except Exception as ex:
                                if documented_unsupported(kind, ckw, ex):
                                    COUNTS['c_skipped'] += 1
                                    SKIPPED.setdefault(sig, [call, '%s: %s' % (type(ex).__name__, ex), 0])[2] += 1
                                else:
                                    record_deviation(sig + ('raise',), call,
                                                     'raises %s: %s' % (type(ex).__name__, ex))
                                continue
                            try:
                                raster = reader(out.getvalue())
                                problems = check_modules(matrix, raster, scale, border, dark, light)
                            except Exception as ex:      # reader bug: a real failure
                                expect('c', False, '%s: reader raised %r' % (call, ex))
                                continue
                            COUNTS['c'] += 1
                            if problems:
                                record_deviation(sig + ('output',), call, '; '.join(problems[:3]))
                            if kind == 'xbm' and not problems:
                                expect('c', raster.info.get('name') == extra.get('name', 'img'),
                                       '%s: XBM name %r' % (call, raster.info.get('name')))
        # PNG dpi (pHYs): not a pixel property, but required by the reader contract (info['dpi'])
        for dpi in (72, 300, 600):
            out = io.BytesIO()
            kw = dict(kind='png', scale=2, border=1, dpi=dpi)
            qr.save(out, **kw)
            raster = read_png(out.getvalue())
            problems = check_modules(matrix, raster, 2, 1, B, W)
            got = raster.info.get('dpi')
            COUNTS['c'] += 1
            if problems or got is None or abs(got[0] - dpi) > 0.02 or got[0] != got[1]:
                record_deviation(('png', 'dpi', dpi), fmt_call(desc, 'save', 'io.BytesIO()', kw),
                                 'dpi read back %r; %r' % (got, problems[:2]))
        # text formats: no scale
        for border in (0, 1, 4):
            cases = [
                ('txt', lambda o, b=border: qr.save(o, kind='txt', border=b), read_txt,
                 "%s.save(io.StringIO(), kind='txt', border=%d)" % (desc, border)),
                ('ans', lambda o, b=border: qr.save(o, kind='ans', border=b), read_ansi_terminal,
                 "%s.save(io.StringIO(), kind='ans', border=%d)" % (desc, border)),
                ('terminal', lambda o, b=border: qr.terminal(out=o, border=b), read_ansi_terminal,
                 "%s.terminal(out=io.StringIO(), border=%d)" % (desc, border)),
                ('compact', lambda o, b=border: qr.terminal(out=o, border=b, compact=True), read_compact_terminal,
                 "%s.terminal(out=io.StringIO(), border=%d, compact=True)" % (desc, border)),
            ]
            for name, write, reader, call in cases:
                out = io.StringIO()
                try:
                    write(out)
                except Exception as ex:
                    record_deviation((name, 'raise'), call, 'raises %s: %s' % (type(ex).__name__, ex))
                    continue
                try:
                    problems = check_grid(matrix, reader(out.getvalue()), border)
                except ValueError as ex:
                    problems = ['not a 0/1 grid: %s' % ex]
                except Exception as ex:
                    expect('c', False, '%s: reader raised %r' % (call, ex))
                    continue
                COUNTS['c'] += 1
                if problems:
                    record_deviation((name, 'output'), call, '; '.join(problems[:3]))
    # default border (None): 4 for QR, 2 for Micro QR (documented) - one probe per format
    for desc, qr in symbols:
        matrix = [[int(v) for v in row] for row in qr.matrix]
        b = 2 if qr.is_micro else 4
        for kind, reader, binary, coloured in RASTER_FORMATS:
            out = io.BytesIO() if binary else io.StringIO()
            qr.save(out, kind=kind, scale=2)
            problems = check_modules(matrix, reader(out.getvalue()), 2, b, B, W)
            COUNTS['c'] += 1
            if problems:
                record_deviation((kind, 'default border'), "%s.save(..., kind=%r, scale=2)" % (desc, kind),
                                 '; '.join(problems[:3]))


def main():
    for section, tests in (('a', (test_png_good, test_netpbm_good, test_c_formats_good, test_text_good)),
                           ('b', (test_png_bad, test_other_bad, test_fuzz_never_raises)),
                           ('c', (test_segno,))):
        for t in tests:
            try:
                t()
            except Exception:
                import traceback
                fail(section, '%s crashed:\n%s' % (t.__name__, traceback.format_exc()))
    print('python %s' % sys.version.split()[0])
    print('(a) hand-built files       : %d checks' % COUNTS['a'])
    print('(b) corrupted files / fuzz : %d checks' % COUNTS['b'])
    print('(c) segno round trips      : %d files read and checked, %d option combinations skipped '
          '(documented as unsupported, clean ValueError)' % (COUNTS['c'], COUNTS['c_skipped']))
    if SKIPPED:
        print()
        print('SKIPPED (documented: format does not support the option)')
        for sig, (call, detail, count) in sorted(SKIPPED.items()):
            print('  - %s\n      -> %s   [%d cases]' % (call, detail, count))
    print()
    print('LIBRARY DEVIATIONS')
    if not DEVIATIONS:
        print('  none')
    for sig, (call, detail, count) in sorted(DEVIATIONS.items(), key=repr):
        print('  - %s\n      -> %s   [%d cases with this format / option set; first one shown]' % (call, detail, count))
    print()
    if FAILURES:
        print('FAILED: %d' % len(FAILURES))
        for f in FAILURES[:40]:
            print('  ' + f)
        return 1
    print('PASS')
    return 0


if __name__ == '__main__':
    sys.exit(main())
