"""Self-test of spec/readers_raster.py.

Run:  cd /verif && PYTHONPATH=/repo:/verif /venv/bin/python spec/selftest_readers_raster.py

 (a) hand-built tiny files of every format (built here from the format
     specifications with zlib / binascii.crc32 / struct) decode to the expected pixels;
 (b) corrupted variants produce problems (and never raise);
 (c) real segno output is read back and checked with check_modules / check_grid.
     Cases in which the unchanged library violates the expectation are listed
     under 'LIBRARY DEVIATIONS' and do not influence the exit status.

Exit status 0 iff (a), (b) and the non-deviating part of (c) pass.
"""
import io
import os
import random
import struct
import sys
import zlib
import binascii

sys.path.insert(0, os.path.dirname(os.path.dirname(os.path.abspath(__file__))))

from spec.readers_raster import (Raster, read_png, read_pbm, read_pam, read_ppm, read_xbm,  # noqa: E402
                                 read_xpm, read_txt, read_ansi_terminal, read_compact_terminal,
                                 check_modules, check_grid)

FAILURES = []
COUNTS = {'a': 0, 'b': 0, 'c': 0, 'c_skipped': 0}


def fail(section, msg):
    FAILURES.append('(%s) %s' % (section, msg))


def expect(section, cond, msg):
    COUNTS[section] += 1
    if not cond:
        fail(section, msg)


B = (0, 0, 0, 255)
W = (255, 255, 255, 255)


# ----------------------------------------------------------------------------
# A minimal PNG *encoder* written from the specification (test side only)
# ----------------------------------------------------------------------------

SIG = b'\x89PNG\r\n\x1a\n'


def chunk(ctype, data, crc=None):
    if crc is None:
        crc = binascii.crc32(ctype + data) & 0xffffffff
    return struct.pack('>I', len(data)) + ctype + data + struct.pack('>I', crc)


def ihdr(w, h, depth, ctype, interlace=0):
    return chunk(b'IHDR', struct.pack('>IIBBBBB', w, h, depth, ctype, 0, 0, interlace))


def pack_samples(samples, depth):
    """Pack a scanline of samples, leftmost sample in the high-order bits."""
    if depth == 16:
        return b''.join(struct.pack('>H', s) for s in samples)
    if depth == 8:
        return bytes(samples)
    out = bytearray()
    acc = 0
    nbits = 0
    for s in samples:
        acc = (acc << depth) | s
        nbits += depth
        if nbits == 8:
            out.append(acc)
            acc = nbits = 0
    if nbits:
        out.append(acc << (8 - nbits))
    return bytes(out)


def paeth(a, b, c):
    p = a + b - c
    pa, pb, pc = abs(p - a), abs(p - b), abs(p - c)
    if pa <= pb and pa <= pc:
        return a
    return b if pb <= pc else c


def filter_row(ftype, cur, prev, bpp):
    """PNG spec 9.2: filter a raw scanline (forward direction)."""
    out = bytearray([ftype])
    for i, x in enumerate(cur):
        a = cur[i - bpp] if i >= bpp else 0
        b = prev[i]
        c = prev[i - bpp] if i >= bpp else 0
        if ftype == 0:
            v = x
        elif ftype == 1:
            v = x - a
        elif ftype == 2:
            v = x - b
        elif ftype == 3:
            v = x - ((a + b) >> 1)
        elif ftype == 4:
            v = x - paeth(a, b, c)
        else:
            v = x             # illegal filter type for negative tests
        out.append(v & 0xff)
    return bytes(out)


def filtered(rows_samples, depth, channels, filters):
    """rows_samples: list of sample lists -> filtered byte stream."""
    bpp = max(1, depth * channels // 8)
    out = b''
    prev = None
    for y, samples in enumerate(rows_samples):
        cur = pack_samples(samples, depth)
        if prev is None:
            prev = bytes(len(cur))
        out += filter_row(filters[y % len(filters)], cur, prev, bpp)
        prev = cur
    return out


def make_png(w, h, depth, ctype, rows_samples, filters=(0,), extra=(), idat_split=None,
             interlace=0, stream=None):
    channels = {0: 1, 2: 3, 3: 1, 4: 2, 6: 4}[ctype]
    if stream is None:
        stream = filtered(rows_samples, depth, channels, filters)
    z = zlib.compress(stream)
    out = SIG + ihdr(w, h, depth, ctype, interlace)
    for c in extra:
        out += c
    if idat_split:
        out += chunk(b'IDAT', z[:idat_split]) + chunk(b'IDAT', z[idat_split:])
    else:
        out += chunk(b'IDAT', z)
    return out + chunk(b'IEND', b'')


def scale255(v, maxval):
    return int(v * 255 / maxval + 0.5)


def sample(x, y, k, depth):
    """Deterministic, well mixed test sample."""
    return (x * 37 + y * 91 + k * 53 + 11) * 2654435761 % (1 << 32) >> 7 & ((1 << depth) - 1)


def test_png_good():
    w, h = 3, 2
    combos = [(0, d) for d in (1, 2, 4, 8, 16)] + [(2, 8), (2, 16), (3, 1), (3, 2), (3, 4), (3, 8),
                                                    (4, 8), (4, 16), (6, 8), (6, 16)]
    filter_sets = [(0,), (1,), (2,), (3,), (4,), (4, 3), (1, 2), (3, 4), (2, 1)]
    for ctype, depth in combos:
        channels = {0: 1, 2: 3, 3: 1, 4: 2, 6: 4}[ctype]
        maxv = (1 << depth) - 1
        palette = [((i * 70 + 5) % 256, (i * 33 + 9) % 256, (i * 11 + 200) % 256)
                   for i in range(min(1 << depth, 7))]
        for with_trns in (False, True):
            if with_trns and ctype in (4, 6):
                continue
            rows = []
            for y in range(h):
                row = []
                for x in range(w):
                    for k in range(channels):
                        s = sample(x, y, k, depth)
                        if ctype == 3:
                            s %= len(palette)
                        row.append(s)
                rows.append(row)
            extra = []
            trns = None
            if ctype == 3:
                extra.append(chunk(b'PLTE', b''.join(bytes(p) for p in palette)))
                if with_trns:
                    trns = [0, 128][:len(palette)]
                    extra.append(chunk(b'tRNS', bytes(trns)))
            elif with_trns and ctype == 0:
                trns = (rows[1][1],)
                extra.append(chunk(b'tRNS', struct.pack('>H', *trns)))
            elif with_trns and ctype == 2:
                trns = tuple(rows[0][3:6])
                extra.append(chunk(b'tRNS', struct.pack('>HHH', *trns)))
            expected = []
            for y in range(h):
                erow = []
                for x in range(w):
                    s = rows[y][x * channels:(x + 1) * channels]
                    if ctype == 3:
                        a = trns[s[0]] if trns and s[0] < len(trns) else 255
                        erow.append(palette[s[0]] + (a,))
                    elif ctype == 0:
                        g = scale255(s[0], maxv)
                        erow.append((g, g, g, 0 if trns and tuple(s) == trns else 255))
                    elif ctype == 2:
                        erow.append(tuple(scale255(v, maxv) for v in s)
                                    + (0 if trns and tuple(s) == trns else 255,))
                    elif ctype == 4:
                        g = scale255(s[0], maxv)
                        erow.append((g, g, g, scale255(s[1], maxv)))
                    else:
                        erow.append(tuple(scale255(v, maxv) for v in s))
                expected.append(erow)
            for filters in filter_sets:
                data = make_png(w, h, depth, ctype, rows, filters, extra)
                r = read_png(data)
                label = 'PNG ctype=%d depth=%d trns=%s filters=%r' % (ctype, depth, with_trns, filters)
                expect('a', r.problems == [], '%s: problems %r' % (label, r.problems))
                expect('a', (r.width, r.height) == (w, h) and r.pixels == expected,
                       '%s: pixels %r != %r' % (label, r.pixels, expected))
                expect('a', r.info.get('bit_depth') == depth and r.info.get('colour_type') == ctype,
                       '%s: info %r' % (label, r.info))
            if with_trns:
                flat = [p for row in expected for p in row]
                expect('a', any(p[3] != 255 for p in flat), 'PNG ctype=%d depth=%d: tRNS test has no '
                       'transparent pixel (test construction)' % (ctype, depth))
    # wider rows so that Sub / Average / Paeth really reach back over several pixels
    for ctype, depth, channels in ((0, 1, 1), (0, 8, 1), (2, 8, 3), (6, 8, 4), (3, 4, 1), (4, 16, 2)):
        w2, h2 = 11, 5
        pal = [(i, 255 - i, (i * 7) % 256) for i in range(16)]
        rows = [[sample(x, y, k, depth) for x in range(w2) for k in range(channels)] for y in range(h2)]
        extra = [chunk(b'PLTE', b''.join(bytes(p) for p in pal))] if ctype == 3 else []
        r0 = read_png(make_png(w2, h2, depth, ctype, rows, (0,), extra))
        for filters in ((1,), (2,), (3,), (4,), (0, 1, 2, 3, 4), (4, 3, 2, 1, 0)):
            r = read_png(make_png(w2, h2, depth, ctype, rows, filters, extra, idat_split=5))
            expect('a', r.problems == [] and r0.problems == [] and r.pixels == r0.pixels,
                   'PNG 11x5 ctype=%d depth=%d filters=%r differs from the unfiltered encoding (%r)'
                   % (ctype, depth, filters, r.problems))
            expect('a', r.info['idat_chunks'] == 2, 'split IDAT not counted')
    # 1-bit greyscale, explicit expectation (the case segno writes): 10 x 2, rows 0b1010011001 / inverse
    bits = [1, 0, 1, 0, 0, 1, 1, 0, 0, 1]
    rows = [bits, [1 - b for b in bits]]
    r = read_png(make_png(10, 2, 1, 0, rows))
    expect('a', r.problems == [] and r.pixels == [[W if b else B for b in row] for row in rows],
           '1-bit greyscale 10x2: %r %r' % (r.problems, r.pixels))
    # pHYs, tEXt, unknown ancillary chunk
    extra = [chunk(b'pHYs', struct.pack('>IIB', 11811, 11811, 1)), chunk(b'tEXt', b'Comment\x00hi'),
             chunk(b'prVt', b'xyz')]
    r = read_png(make_png(10, 2, 1, 0, rows, extra=extra))
    expect('a', r.problems == [] and abs(r.info['dpi'][0] - 300) < 0.01 and r.info['phys'] == (11811, 11811, 1),
           'pHYs: %r %r' % (r.problems, r.info))
    expect('a', r.info['chunks'] == ['IHDR', 'pHYs', 'tEXt', 'prVt', 'IDAT', 'IEND'], 'chunk list %r' % r.info['chunks'])
    r = read_png(make_png(10, 2, 1, 0, rows, extra=[chunk(b'pHYs', struct.pack('>IIB', 3, 2, 0))]))
    expect('a', r.problems == [] and 'dpi' not in r.info and r.info['phys'] == (3, 2, 0), 'pHYs unit 0: %r' % r.info)
    # Adam7 interlace, 5x5 8-bit greyscale + 9x3 RGB: encode the seven passes by hand
    for (w2, h2, ctype, channels) in ((5, 5, 0, 1), (9, 3, 2, 3), (1, 1, 0, 1), (3, 7, 6, 4)):
        img = [[[sample(x, y, k, 8) for k in range(channels)] for x in range(w2)] for y in range(h2)]
        stream = b''
        for xs, ys, dx, dy in ((0, 0, 8, 8), (4, 0, 8, 8), (0, 4, 4, 8), (2, 0, 4, 4), (0, 2, 2, 4),
                               (1, 0, 2, 2), (0, 1, 1, 2)):
            prows = [[v for x in range(xs, w2, dx) for v in img[y][x]] for y in range(ys, h2, dy)]
            if prows and prows[0]:
                stream += filtered(prows, 8, channels, (4, 1, 3))
        r = read_png(make_png(w2, h2, 8, ctype, None, interlace=1, stream=stream))
        if ctype == 0:
            exp = [[(p[0], p[0], p[0], 255) for p in row] for row in img]
        elif ctype == 2:
            exp = [[tuple(p) + (255,) for p in row] for row in img]
        else:
            exp = [[tuple(p) for p in row] for row in img]
        expect('a', r.problems == [] and r.pixels == exp, 'Adam7 %dx%d ctype %d: %r' % (w2, h2, ctype, r.problems))


def test_netpbm_good():
    # P1 with comments, white space optional between the bits
    data = b'P1\n# a comment\n3 2 # another\n1 0 1\n010\n'
    r = read_pbm(data)
    expect('a', r.problems == [] and r.pixels == [[B, W, B], [W, B, W]], 'P1: %r %r' % (r.problems, r.pixels))
    r = read_pbm(b'P1 3 2 101010')
    expect('a', r.problems == [] and r.pixels == [[B, W, B], [W, B, W]], 'P1 compact: %r' % r.problems)
    # P4 3x2: rows 101 -> 0b10100000, 011 -> 0b01100000 ; padding bits set in second row (don't care)
    r = read_pbm(b'P4\n#c\n3 2\n' + bytes([0b10100000, 0b01111111]))
    expect('a', r.problems == [] and r.pixels == [[B, W, B], [W, B, B]] and r.info['nonzero_padding'],
           'P4 3x2: %r %r' % (r.problems, r.pixels))
    # P4 10x2: two bytes per row; the raster starts directly after ONE white space, first raster byte is 0x0a
    r = read_pbm(b'P4 10 2\n' + bytes([0x0a, 0x40, 0xff, 0x80]))
    exp = [[W, W, W, W, B, W, B, W, W, B], [B] * 9 + [W]]
    expect('a', r.problems == [] and r.pixels == exp, 'P4 10x2: %r %r' % (r.problems, r.pixels))
    r = read_pbm(b'P4 8 1#x\n' + bytes([0x23]))     # comment ends the height token; raster byte is '#'
    expect('a', r.problems == [] and r.pixels == [[W, W, B, W, W, W, B, B]], 'P4 comment delimiter: %r' % r.problems)
    # P6
    body = bytes([255, 0, 0, 0, 255, 0, 0, 0, 255, 10, 20, 30, 0, 0, 0, 255, 255, 255])
    r = read_ppm(b'P6 # comment\n3 2 255\n' + body)
    exp = [[(255, 0, 0, 255), (0, 255, 0, 255), (0, 0, 255, 255)], [(10, 20, 30, 255), B, W]]
    expect('a', r.problems == [] and r.pixels == exp and r.info['maxval'] == 255, 'P6: %r %r' % (r.problems, r.pixels))
    r = read_ppm(b'P6\n2 1\n15\n' + bytes([15, 0, 3, 0, 15, 5]))
    expect('a', r.problems == [] and r.pixels == [[(255, 0, 51, 255), (0, 255, 85, 255)]], 'P6 maxval 15: %r' % r.pixels)

    # P7
    def pam(w, h, depth, maxval, tt, body, comment=True):
        hd = b'P7\n' + (b'# comment\n' if comment else b'') + \
            ('WIDTH %d\nHEIGHT %d\nDEPTH %d\nMAXVAL %d\n' % (w, h, depth, maxval)).encode()
        for t in tt:
            hd += b'TUPLTYPE ' + t.encode() + b'\n'
        return hd + b'ENDHDR\n' + body
    r = read_pam(pam(3, 2, 1, 1, ['BLACKANDWHITE'], bytes([1, 0, 1, 0, 0, 1])))
    expect('a', r.problems == [] and r.pixels == [[W, B, W], [B, B, W]], 'PAM BW: %r %r' % (r.problems, r.pixels))
    r = read_pam(pam(3, 2, 2, 1, ['BLACKANDWHITE_ALPHA'], bytes([1, 1, 0, 1, 1, 0, 0, 0, 0, 1, 1, 1])))
    exp = [[W, B, (255, 255, 255, 0)], [(0, 0, 0, 0), B, W]]
    expect('a', r.problems == [] and r.pixels == exp, 'PAM BW_ALPHA: %r %r' % (r.problems, r.pixels))
    r = read_pam(pam(3, 2, 1, 255, ['GRAYSCALE'], bytes([0, 1, 2, 100, 200, 255])))
    exp = [[(v, v, v, 255) for v in (0, 1, 2)], [(v, v, v, 255) for v in (100, 200, 255)]]
    expect('a', r.problems == [] and r.pixels == exp, 'PAM GRAY: %r' % r.problems)
    r = read_pam(pam(2, 1, 1, 15, ['GRAYSCALE'], bytes([3, 15])))
    expect('a', r.problems == [] and r.pixels == [[(51, 51, 51, 255), W]], 'PAM GRAY maxval 15: %r' % r.pixels)
    r = read_pam(pam(2, 1, 2, 255, ['GRAYSCALE_ALPHA'], bytes([7, 0, 9, 128])))
    expect('a', r.problems == [] and r.pixels == [[(7, 7, 7, 0), (9, 9, 9, 128)]], 'PAM GRAY_ALPHA: %r' % r.pixels)
    r = read_pam(pam(3, 2, 3, 255, ['RGB'], body))
    expect('a', r.problems == [] and r.pixels == [[(255, 0, 0, 255), (0, 255, 0, 255), (0, 0, 255, 255)],
                                                  [(10, 20, 30, 255), B, W]], 'PAM RGB: %r' % r.problems)
    r = read_pam(pam(2, 1, 4, 255, ['RGB_ALPHA'], bytes([1, 2, 3, 4, 5, 6, 7, 255]), comment=False))
    expect('a', r.problems == [] and r.pixels == [[(1, 2, 3, 4), (5, 6, 7, 255)]], 'PAM RGBA: %r' % r.pixels)
    r = read_pam(pam(1, 1, 4, 65535, ['RGB_ALPHA'], struct.pack('>HHHH', 65535, 0, 0x8000, 65535)))
    expect('a', r.problems == [] and r.pixels == [[(255, 0, 128, 255)]], 'PAM 16 bit: %r %r' % (r.problems, r.pixels))
    r = read_pam(pam(1, 1, 4, 255, ['RGB_ALPHA'.split('_')[0] + '_ALPHA'], bytes([9, 8, 7, 6])))
    expect('a', r.problems == [], 'PAM: %r' % r.problems)


def test_c_formats_good():
    xbm = ('#define t_width 10\n#define t_height 2\n/* c */\n'
           'static unsigned char t_bits[] = {\n  0x05, 0x02,\n  0xf0, 0x01 };\n')
    # row 0: 0x05 -> pixels 0 and 2; 0x02 -> pixel 9.   row 1: 0xf0 -> 4..7; 0x01 -> 8
    exp = [[B, W, B, W, W, W, W, W, W, B], [W, W, W, W, B, B, B, B, B, W]]
    for src in (xbm, xbm.encode('ascii'), xbm.replace('unsigned char', 'char'),
                xbm.replace('t_height 2', 't_height 2\n#define t_x_hot 1\n#define t_y_hot 0')):
        r = read_xbm(src)
        expect('a', r.problems == [] and (r.width, r.height) == (10, 2) and r.pixels == exp
               and r.info['name'] == 't', 'XBM: %r %r' % (r.problems, r.pixels))
    r = read_xbm('#define t_width 3\n#define t_height 2\nstatic char t_bits[] = { 0xfd, 0x02, };')
    expect('a', r.problems == [] and r.pixels == [[B, W, B], [W, B, W]] and r.info['nonzero_padding'],
           'XBM 3x2: %r %r' % (r.problems, r.pixels))
    xpm = ('/* XPM */\nstatic char *img[] = {\n/* values */\n"3 2 3 1",\n"  c None",\n"X c #0a141e",\n'
           '". c #FFFF00",\n"X. ",\n" X."\n};\n')
    d, y, t = (10, 20, 30, 255), (255, 255, 0, 255), (0, 0, 0, 0)
    for src in (xpm, xpm.encode('ascii')):
        r = read_xpm(src)
        expect('a', r.problems == [] and r.pixels == [[d, y, t], [t, d, y]] and r.info['name'] == 'img',
               'XPM cpp 1: %r %r' % (r.problems, r.pixels))
    xpm2 = ('/* XPM */\nstatic const char * const x_y[] = {\n"2 2 2 2 0 1",\n"ab m black c #000000000000",\n'
            '"c  s light c white m white",\n"abc ",\n"c ab",\n};\n')
    r = read_xpm(xpm2)
    expect('a', r.problems == [] and r.pixels == [[B, W], [W, B]] and r.info['hotspot'] == (0, 1)
           and r.info['cpp'] == 2, 'XPM cpp 2: %r %r' % (r.problems, r.pixels))


def test_text_good():
    expect('a', read_txt('010\n111\n') == [[0, 1, 0], [1, 1, 1]], 'txt')
    expect('a', read_txt('01\r\n10') == [[0, 1], [1, 0]], 'txt crlf / no trailing newline')
    expect('a', read_txt('') == [], 'txt empty')
    E = '\x1b'
    ansi = (E + '[7m    ' + E + '[0m' + E + '[49m  ' + E + '[0m\n'
            + E + '[49m  ' + E + '[0m' + E + '[7m  ' + E + '[0m' + E + '[49m  ' + E + '[0m\n')
    expect('a', read_ansi_terminal(ansi) == [[0, 0, 1], [1, 0, 1]], 'ansi: %r' % read_ansi_terminal(ansi))
    # same picture, different but equivalent SGR usage (state persists; 27 = positive; ESC[m = reset)
    ansi2 = E + '[0;7m    ' + E + '[27m  ' + E + '[m\n  ' + E + '[7m  ' + E + '[m  \n'
    expect('a', read_ansi_terminal(ansi2) == [[0, 0, 1], [1, 0, 1]], 'ansi2: %r' % read_ansi_terminal(ansi2))
    # compact: 3 columns, 3 module rows -> 2 text lines, last half row = padding (unpainted)
    #   rows: [0,1,0] / [1,1,0] / [0,0,1]    (1 = dark = unpainted)
    comp = '▀ █\n▀▀ \n'
    expect('a', read_compact_terminal(comp) == [[0, 1, 0], [1, 1, 0], [0, 0, 1]],
           'compact: %r' % read_compact_terminal(comp))
    comp = '▄\n'       # 1x1: light would be upper painted; here upper unpainted (dark) and padding painted
    expect('a', read_compact_terminal(comp) == [[1], [0]], 'compact no padding drop: %r' % read_compact_terminal(comp))
    expect('a', read_compact_terminal('▀\n') == [[0]], 'compact 1x1')
    expect('a', read_compact_terminal(E + '[7m▄█' + E + '[0m\n') == [[0, 1], [1, 1]],
           'compact reverse: %r' % read_compact_terminal(E + '[7m▄█' + E + '[0m\n'))
    # check_modules / check_grid on hand-made data
    m = [[1, 0], [0, 1]]
    ras = Raster(4, 4, [[W] * 4, [W, B, W, W], [W, W, B, W], [W] * 4])
    expect('a', check_modules(m, ras, 1, 1, B, W) == [], 'check_modules ok case: %r' % check_modules(m, ras, 1, 1, B, W))
    expect('a', check_modules(m, ras, 1, 1, (0, 0, 0), (255, 255, 255)) == [], 'check_modules rgb tuples')
    tr = (1, 2, 3, 0)
    ras2 = Raster(4, 4, [[tr if p == W else p for p in row] for row in ras.pixels])
    expect('a', check_modules(m, ras2, 1, 1, B, None) == [], 'check_modules transparent light')
    big = Raster(4, 4, [[B, B, W, W], [B, B, W, W], [W, W, B, B], [W, W, B, B]])
    expect('a', check_modules(m, big, 2, 0, B, W) == [], 'check_modules scale 2')
    expect('a', check_grid(m, [[0, 0, 0, 0], [0, 1, 0, 0], [0, 0, 1, 0], [0, 0, 0, 0]], 1) == [], 'check_grid ok')
    expect('a', check_grid(m, [[1, 0], [0, 1]], 0) == [], 'check_grid border 0')
