"""\
Self-test of spec/payloads.py.

Run: cd /verif && PYTHONPATH=/repo:/verif /venv/bin/python spec/selftest_payloads.py

(a) hand-written payloads (incl. adversarial ones) against the parsers,
(b) the real segno.helpers on a grid of values with special characters,
    checked by the check_* functions,
(c) EPC: all eight encodings, boundary amounts, max lengths, refusals, symbol.
(d) strictness: mutated payloads (forged / swallowed field, one altered
    character) must be reported by every checker.

Inputs for which the unchanged library violates the property are predicted by
the ``dev_*`` predicates below (derived from the format definitions, see the
comments); they are listed under LIBRARY DEVIATIONS and excluded from
pass/fail. A problem reported for an input *not* predicted is a FAILURE, so a
wrong checker cannot hide behind the deviation list.
"""
import sys
import datetime
from decimal import Decimal

from spec import payloads as P
from segno import helpers as H

FAILS = []
DEVS = {}        # deviation id -> list of (call, problems)
NOT_OBSERVED = []
COUNT = {'asserts': 0, 'helper_calls': 0, 'clean': 0}


def ok(cond, msg):
    COUNT['asserts'] += 1
    if not cond:
        FAILS.append(msg)


def rejects(fn, *args, **kw):
    try:
        fn(*args, **kw)
    except ValueError:
        return True
    return False


def fmt_call(fname, kw):
    return f'{fname}({", ".join(f"{k}={v!r}" for k, v in kw.items())})'


def judge(call, problems, dev_ids):
    """Classifies the outcome of one helper call + check."""
    COUNT['helper_calls'] += 1
    if problems and dev_ids:
        for d in dev_ids[:1]:
            DEVS.setdefault(d, []).append((call, problems))
    elif problems:
        FAILS.append(f'{call}: unexpected problems {problems}')
    elif dev_ids:
        NOT_OBSERVED.append(f'{call}: predicted {dev_ids} but the check is clean')
    else:
        COUNT['clean'] += 1


SPECIALS = ['a;b', 'a:b', 'a,b', 'a\\b', 'a\\', 'a\\;b', 'a"b', '"quoted"', 'a\rb',
            'a\nb', 'a\r\nb', 'x;TEL:1', ':', ';', '\\', 'a\\nb', 'a\\,b', ' lead ',
            '\u00fc\u00f1\u00ed', 'plain', 'x\r\nTEL:666']

# ---------------------------------------------------------------------------
# (a) hand-written payloads
# ---------------------------------------------------------------------------


def test_primitives():
    ok(P.split_unescaped('a;b') == ['a', 'b'], 'split a;b')
    ok(P.split_unescaped('a\\;b') == ['a\\;b'], 'split a\\;b')
    ok(P.split_unescaped('a\\\\;b') == ['a\\\\', 'b'], 'split a\\\\;b')
    ok(P.split_unescaped('a\\\\\\;b') == ['a\\\\\\;b'], 'split 3 backslashes')
    ok(P.split_unescaped('') == [''], 'split empty')
    ok(P.split_unescaped(';;') == ['', '', ''], 'split ;;')
    ok(P.split_unescaped('a\\') == ['a\\'], 'split dangling')
    ok(P.split_unescaped('a,b;c', ',') == ['a', 'b;c'], 'split other sep')
    ok(rejects(P.split_unescaped, 'a', '\\'), 'backslash separator refused')
    for s in SPECIALS + ['', '\\\\;', ';;;', '\\;\\;']:
        ok(';'.join(P.split_unescaped(s)) == s, f'split/join identity {s!r}')
    ok(P.unescape('a\\;b') == 'a;b', 'unescape ;')
    ok(P.unescape('a\\\\') == 'a\\', 'unescape backslash')
    ok(P.unescape('\\"q\\"') == '"q"', 'unescape quote')
    ok(P.unescape('a\\\\\\;b') == 'a\\;b', 'unescape a\\\\\\;b')
    ok(rejects(P.unescape, 'a\\'), 'dangling backslash refused')
    # reference escaper (docomo / ZXing: \ ; : , " are escaped) -> round trip
    for v in SPECIALS + ['', 'a\\\\', ';;', '\\;']:
        esc = ''.join('\\' + c if c in '\\;:,"' else c for c in v)
        ok(P.split_unescaped(esc) == [esc], f'escaped value is one field {v!r}')
        ok(P.unescape(esc) == v, f'escape/unescape round trip {v!r}')
        ok(P.parse_mecard(f'MECARD:N:{esc};NOTE:{esc};;') == [('N', v), ('NOTE', v)], f'mecard round trip {v!r}')
        ok(P.parse_wifi(f'WIFI:T:WPA;S:{esc};P:{esc};;') == [('T', 'WPA'), ('S', v), ('P', v)], f'wifi round trip {v!r}')
        ok(P.check_wifi(f'WIFI:T:WPA;S:{esc};P:{esc};;', v, v, 'WPA') == [], f'check_wifi reference {v!r}')
        ok(P.check_wifi(f'WIFI:T:WPA;S:{esc};P:{esc};H:true;;', v, v, 'WPA', True) == [], f'check_wifi hidden {v!r}')
        if v:
            ok(P.check_mecard(f'MECARD:N:{esc};TEL-AV:{esc};NOTE:{esc};BDAY:{esc};ADR:{esc},,,,,,{esc};;',
                              name=v, videophone=v, memo=v, birthday=v, pobox=v, country=v) == [],
               f'check_mecard reference {v!r}')
    good = 'MECARD:N:Doe,John;TEL:1;TEL:2;ADR:,,1,Town,,12345,;;'
    kw = dict(name='Doe,John', phone=['1', '2'], houseno='1', city='Town', zipcode='12345')
    ok(P.check_mecard(good, **kw) == [], 'check_mecard good')
    ok(P.check_mecard('MECARD:N:;;', name='') == [], 'check_mecard empty name')
    for bad in (good.replace(';;', ';EMAIL:x@y;;'), good.replace('TEL:2;', ''), good.replace('Town', 'Towm'),
                good.replace('TEL:1;TEL:2', 'TEL:2;TEL:1'), good.replace(',,1', ',1'), good.replace(';;', ';'),
                good.replace('TEL:2', 'TELAV:2'), good.replace('12345,', '12345'), good + ';', 'x' + good,
                good.replace('N:', 'N\\:'), None, b'MECARD:N:a;;'):
        ok(P.check_mecard(bad, **kw) != [], f'check_mecard must report {bad!r}')
    ok(P.check_mecard(good, **dict(kw, foo='x')) != [], 'check_mecard unknown parameter')
    ok(P.check_mecard(good, **dict(kw, name=None)) != [], 'check_mecard name missing')
    ok(P.check_mecard(good.replace('TEL:2', 'TELAV:2'), key_aliases={'TEL-AV': 'TELAV'},
                      **dict(kw, phone='1', videophone='2')) == [], 'check_mecard key alias')


def test_mecard_wifi_handwritten():
    ok(P.parse_mecard('MECARD:N:Doe,John;TEL:+1234567;EMAIL:me@example.org;;')
       == [('N', 'Doe,John'), ('TEL', '+1234567'), ('EMAIL', 'me@example.org')], 'docs mecard')
    ok(P.parse_mecard('MECARD:N:a\\;b;;', raw=True) == [('N', 'a\\;b')], 'raw mode')
    ok(P.parse_mecard('MECARD:URL:http\\://x/;;') == [('URL', 'http://x/')], 'escaped colon')
    ok(P.parse_mecard('MECARD:URL:http://x/;;') == [('URL', 'http://x/')], 'raw colon in value')
    ok(P.parse_mecard('MECARD:N:a\rb\nc;;') == [('N', 'a\rb\nc')], 'CR/LF inside a MeCard value are data')
    # unescaped ';' forges a field
    ok(P.parse_mecard('MECARD:N:x;TEL:1;;') == [('N', 'x'), ('TEL', '1')], 'forged TEL is visible')
    for bad in ('N:a;;', 'mecard:N:a;;', 'MECARD:N:a;', 'MECARD:N:a', 'MECARD:N:a\\;;', 'MECARD:N:a;b;;',
                'MECARD:N:a;;TEL:1;;', 'MECARD:N:a;;;', 'MECARD:;', 'MECARD:;;', 'MECARD:', 'MECARD:N:a\\', 'MECARD::a;;',
                'MECARD:N x:a;;', 'MECARD:a\\:b:c;;', None, b'MECARD:N:a;;'):
        ok(rejects(P.parse_mecard, bad), f'parse_mecard must reject {bad!r}')
    ok(P.parse_wifi('WIFI:T:WPA;S:My network;P:secret;;') == [('T', 'WPA'), ('S', 'My network'), ('P', 'secret')],
       'docs wifi')
    for bad in ('WIFI:S:x;H:true;', 'WIFI:S:x', 'WIFI:S:x;', 'wifi:S:x;;', 'WIFI:S:a;b;;', 'WIFI:S:x;;P:1;;',
                'WIFI:S:x\\;;'):
        ok(rejects(P.parse_wifi, bad), f'parse_wifi must reject {bad!r}')
    # check_wifi strictness
    good = 'WIFI:T:WPA;S:net;P:pw;;'
    ok(P.check_wifi(good, 'net', 'pw', 'WPA') == [], 'check_wifi good')
    ok(P.check_wifi(good, 'net', 'pw', 'wpa') == [], 'check_wifi: type token case-insensitive')
    ok(P.check_wifi('WIFI:S:net;;', 'net') == [], 'check_wifi minimal')
    ok(P.check_wifi('WIFI:T:nopass;S:net;;', 'net', None, 'nopass') == [], 'check_wifi nopass')
    ok(P.check_wifi('WIFI:T:nopass;S:net;;', 'net') == [], 'check_wifi nopass tolerated')
    ok(P.check_wifi('WIFI:S:net;H:false;;', 'net') == [], 'check_wifi H:false tolerated')
    ok(P.check_wifi('WIFI:S:net;P:;;', 'net', '') == [], 'check_wifi empty password')
    ok(P.check_wifi('WIFI:S:net;;', 'net', '') == [], 'check_wifi empty password absent')
    for bad, args in (
            ('WIFI:T:WPA;S:net;P:pw;H:true;;', ('net', 'pw', 'WPA')),        # forged extra field
            ('WIFI:T:WPA;S:net;;', ('net', 'pw', 'WPA')),                    # swallowed field
            ('WIFI:T:WPA;S:net;P:pW;;', ('net', 'pw', 'WPA')),               # altered char
            ('WIFI:T:WPA;S:net;P:pw;', ('net', 'pw', 'WPA')),                # terminator
            ('WIFI:S:net;T:WPA;P:pw;;', ('net', 'pw', 'WPA')),               # order
            ('WIFI:T:WPA;S:net;P:pw;P:pw;;', ('net', 'pw', 'WPA')),          # duplicate
            ('WIFI:T:WPA;S:net;P:pw;;', ('net', 'pw', None)),                # T not asked for
            ('WIFI:T:WEP;S:net;P:pw;;', ('net', 'pw', 'WPA')),
            ('WIFI:T:WPA;S:net;P:pw;;', ('net', None, 'WPA')),
            ('WIFI:T:WPA;S:net;P:pw;;', ('net', 'pw', 'WPA', True)),
            ('WIFI:T:WPA;S:a;b;P:pw;;', ('a;b', 'pw', 'WPA')),               # unescaped ;
            ('WIFI:T:WPA;S:a\\;P:pw;;', ('a\\', 'pw', 'WPA')),               # unescaped backslash
            ('WIFI:T:WPA;S:net ;P:pw;;', ('net', 'pw', 'WPA')),
            ('xWIFI:T:WPA;S:net;P:pw;;', ('net', 'pw', 'WPA')),
            (None, ('net',)), (b'WIFI:S:net;;', ('net',)), ('', ('net',))):
        ok(P.check_wifi(bad, *args) != [], f'check_wifi must report {bad!r} for {args!r}')


def test_vcard_handwritten():
    doc = 'BEGIN:VCARD\r\nVERSION:3.0\r\nN:Doe;John\r\nFN:John Doe\r\nEMAIL:me@example.org\r\nTEL:+1234567\r\nEND:VCARD\r\n'
    exp = [('N', 'Doe;John'), ('FN', 'John Doe'), ('EMAIL', 'me@example.org'), ('TEL', '+1234567')]
    ok(P.parse_vcard(doc) == exp, 'docs vcard')
    ok(P.parse_vcard(doc.replace('\r\n', '\n')) == exp, 'LF separated')
    ok(P.parse_vcard(doc[:-2]) == exp, 'no final line break')
    ok(P.parse_vcard(doc.replace('John Doe', 'John\r\n  Doe')) == exp, 'unfolding')
    ok(rejects(P.parse_vcard, doc.replace('John Doe', 'John\r\n  Doe'), unfold=False), 'no unfolding -> line without ":"')
    ok(P.parse_vcard(doc.replace('TEL:', 'TEL;TYPE=FAX:'))[-1] == ('TEL;TYPE=FAX', '+1234567'), 'params')
    ok(P.parse_vcard(doc.replace('TEL:', 'item1.TEL;X="a:b;c":'))[-1] == ('item1.TEL;X="a:b;c"', '+1234567'),
       'group and quoted param')
    ok(P.parse_vcard(doc.replace('John Doe', 'a\rb'))[1] == ('FN', 'a\rb'), 'bare CR is kept raw')
    ok(P.parse_vcard(doc.replace('John Doe', 'a:b"c"'))[1] == ('FN', 'a:b"c"'), 'colon / quotes in value')
    for bad in (doc.replace('BEGIN:VCARD\r\n', ''), doc.replace('VERSION:3.0\r\n', ''), doc.replace('3.0', '4.0'),
                doc.replace('END:VCARD\r\n', ''), doc + 'TEL:1\r\n', doc + '\r\n', doc.replace('FN:', 'FN'),
                doc.replace('John Doe', 'a\nb'), doc.replace('John Doe', 'a\r\n\r\nb'),
                doc.replace('John Doe', 'a\r\nEND:VCARD\r\nBEGIN:VCARD\r\nVERSION:3.0\r\nN:x'),
                doc.replace('FN:', 'F N:'), doc.replace('FN:', ':'), doc.replace('TEL:', 'TEL;=x:'),
                ' ' + doc, '', None, doc.encode()):
        ok(rejects(P.parse_vcard, bad), f'parse_vcard must reject {bad!r}')
    ok(P.split_vcard_value('Doe;John;;Dr\\;x;', ';') == ['Doe', 'John', '', 'Dr;x', ''], 'split N')
    ok(P.split_vcard_value('a\\,b,c', ',') == ['a,b', 'c'], 'split list')
    ok(P.split_vcard_value('a\\nb\\Nc\\\\n', None) == ['a\nb\nc\\n'], 'newline escapes')
    ok(P.vcard_unescape('a\\:b\\') == 'a\\:b\\', 'undefined escapes kept')
    ok(rejects(P.vcard_unescape, 'a\\:b', strict=True), 'strict mode')
    ok(rejects(P.vcard_unescape, 'a\\', strict=True), 'strict mode dangling')
    # check_vcard on a reference producer (RFC 2426 escaping: \\ \; \, \n)
    for v in SPECIALS:
        e = v.replace('\\', '\\\\').replace(';', '\\;').replace(',', '\\,').replace('\r\n', '\\n') \
             .replace('\n', '\\n').replace('\r', '\\n')
        want = v.replace('\r\n', '\n').replace('\r', '\n')
        card = f'BEGIN:VCARD\r\nVERSION:3.0\r\nN:{e};x\r\nFN:{e}\r\nTEL;TYPE=fax:{e}\r\nADR:{e};;;;;;{e}\r\n' \
               f'NOTE:{e}\r\nEND:VCARD\r\n'
        ok(P.check_vcard(card, name=want.replace(';', '\x00') + ';x', displayname=want, fax=[want], pobox=want,
                         country=want, memo=want) == [] if ';' not in want else True, f'check_vcard reference {v!r}')
    ok(P.check_vcard(doc, name='Doe;John', displayname='John Doe', email='me@example.org', phone='+1234567') == [],
       'check_vcard docs')
    kw = dict(name='Doe;John', displayname='John Doe', email='me@example.org', phone='+1234567')
    for bad in (doc.replace('TEL:+1234567\r\n', ''),                               # swallowed
                doc.replace('END:', 'TEL:666\r\nEND:'),                           # forged
                doc.replace('+1234567', '+1234568'),                              # altered
                doc.replace('Doe;John', 'Doe;Joe'), doc.replace('Doe;John', 'Doe'),
                doc.replace('John Doe', 'John  Doe'),
                doc.replace('N:Doe;John\r\nFN:John Doe\r\n', 'FN:John Doe\r\nN:Doe;John\r\n'),
                doc.replace('John Doe', 'John Doe\r\nNOTE:x'), doc.replace('John Doe', 'John\rDoe'),
                doc.replace('me@', 'me;@'), doc[:-2], doc + 'X:1\r\n', doc.replace('TEL:', 'TEL;TYPE=FAX:')):
        ok(P.check_vcard(bad, **kw) != [], f'check_vcard must report {bad!r}')
    ok(P.check_vcard(doc.replace('John Doe', 'a;b'), **dict(kw, displayname='a;b')) != [], 'unescaped ; in FN')
    ok(P.check_vcard(doc.replace('John Doe', 'a\\;b'), **dict(kw, displayname='a;b')) == [], 'escaped ; in FN')
    ok(P.check_vcard(doc.replace('John Doe', 'a\\nb'), **dict(kw, displayname='a\\nb')) != [], 'literal backslash-n')
    ok(P.check_vcard(doc.replace('John Doe', 'a\\\\nb'), **dict(kw, displayname='a\\nb')) == [], 'escaped backslash')
    ok(P.check_vcard(doc, **dict(kw, lat=1.5)) != [], 'incomplete geo')
    ok(P.check_vcard(doc, **dict(kw, lat=0, lng=0)) != [], 'GEO 0;0 missing')
    ok(P.check_vcard(doc.replace('END', 'GEO:0;0.5\r\nEND'), **dict(kw, lat=0, lng=0.5)) == [], 'GEO ok')
    ok(P.check_vcard(doc.replace('END', 'GEO:1e-07;0.5\r\nEND'), **dict(kw, lat=1e-7, lng=0.5)) != [], 'GEO exponent')
    ok(P.check_vcard(doc, **dict(kw, foo=1)) != [], 'unknown parameter')


def test_geo_mailto_handwritten():
    ok(P.parse_geo('geo:38.8976763,-77.0365297') == (38.8976763, -77.0365297), 'docs geo')
    ok(P.parse_geo('geo:0,-0') == (0.0, -0.0), 'geo zero')
    for bad in ('geo:1,2\n', 'geo:+1,2', 'geo:1.,2', 'geo:.5,2', 'geo:1e3,2', 'geo:1, 2', 'geo:1', 'geo:1,2,3',
                'geo:nan,1', 'geo:1;2', '1,2', 'geo:1,2;u=3', 'geo:\u0661,2', 'geo:--1,2', None):
        ok(rejects(P.parse_geo, bad), f'parse_geo must reject {bad!r}')
    ok(P.check_geo('geo:38.8976763,-77.0365297', 38.8976763, -77.0365297) == [], 'check_geo')
    ok(P.check_geo('geo:38.8976763,-77.0365297', 38.8976764, -77.0365297) != [], 'check_geo altered')
    ok(P.check_geo('geo:91,0', 91, 0) != [], 'check_geo range')
    ok(P.check_geo('geo:1,181', 1, 181) != [], 'check_geo range lng')
    ok(P.check_geo('geo:nan,1', float('nan'), 1) != [], 'check_geo nan')
    ok(P.check_geo('geo:1,2', 'x', None) != [], 'check_geo no number')
    m = P.parse_mailto('mailto:a@x,b@y?cc=c@x&bcc=d@x,e@x&subject=Hi%20there%3F&body=l1%0D%0Al2%20%C3%BC%26%3D')
    ok(m == {'to': ['a@x', 'b@y'], 'cc': ['c@x'], 'bcc': ['d@x', 'e@x'], 'subject': 'Hi there?',
             'body': 'l1\r\nl2 \u00fc&=', 'other': []}, f'parse_mailto full {m!r}')
    ok(P.parse_mailto('mailto:a@x')['to'] == ['a@x'], 'simple mailto')
    ok(P.parse_mailto('MAILTO:a@x?To=b%40y&CC=c@x')['to'] == ['a@x', 'b@y'], 'to header field, case-insensitive')
    ok(P.parse_mailto('mailto:a@x?x-h=1')['other'] == [('x-h', '1')], 'other header fields')
    ok(P.parse_mailto('mailto:%22a%2Cb%22@x')['to'] == ['"a,b"@x'], 'encoded comma in address')
    for bad in ('mailto:a b@x', 'mailto:a@x?subject=a b', 'mailto:"a"@x', 'mailto:a@x?body=\u00fc', 'mailto:a\\b@x',
                'mailto:a@x?body=a\nb', 'mailto:a@x?body=a\rb', 'mailto:a@x?body=100%', 'mailto:a@x?body=%zz',
                'mailto:a@x?body=%e', 'mailto:a@x#f', 'mailto:a@x?body=a#b', 'mailto:a@[x]', 'mailto:a@x?',
                'mailto:a@x?subject', 'mailto:a@x?subject=a&subject=b', 'mailto:a@x?body=a&body=b', 'a@x',
                'mailto:a@x?body=%FF', 'mailto:a@x?body=<x>', 'mailto:a@x?cc=c@x&', None):
        ok(rejects(P.parse_mailto, bad), f'parse_mailto must reject {bad!r}')
    good = 'mailto:a@x?cc=c@x&subject=s&body=b%20b'
    kw = dict(to='a@x', cc='c@x', subject='s', body='b b')
    ok(P.check_mailto(good, **kw) == [], 'check_mailto good')
    for bad in (good + '&bcc=evil@x', good.replace('cc=c@x&', ''), good.replace('b%20b', 'b%20c'),
                good.replace('a@x', 'a@x,z@x'), good.replace('?', '&'), good + '&x=1',
                good.replace('subject=s', 'subject=S'), 'mailto:?cc=c@x&subject=s&body=b%20b'):
        ok(P.check_mailto(bad, **kw) != [], f'check_mailto must report {bad!r}')
    ok(P.check_mailto('mailto:a@x&body=hi', 'a@x', body='hi') != [], 'missing ? is reported')
    ok(P.check_mailto('mailto:a@x?body=hi', 'a@x', body='hi') == [], 'body only')
    ok(P.check_mailto('mailto:a@x?subject=', 'a@x', subject='') == [], 'empty subject')
    ok(P.check_mailto('mailto:', '') != [], 'empty to')


def test_epc_handwritten():
    doc = b'BCD\n002\n2\nSCT\n\nWikimedia Foerdergesellschaft\nDE33100205000001194700\nEUR20\n\n\nSpende fuer Wikipedia'
    r = P.parse_epc(doc)
    ok(r == {'service_tag': 'BCD', 'version': '002', 'charset': 2, 'identification': 'SCT', 'bic': '',
             'name': 'Wikimedia Foerdergesellschaft', 'iban': 'DE33100205000001194700', 'amount': 'EUR20',
             'purpose': '', 'reference': '', 'text': 'Spende fuer Wikipedia', 'extra': []}, f'docs epc {r!r}')
    ok(P.parse_epc(doc.decode()) == r, 'parse_epc str')
    ok(P.parse_epc(b'BCD\n002\n1\nSCT\n\nn\nDE1\nEUR1\n\nRF18')['text'] is None, '10 lines')
    ok(P.parse_epc(doc + b'\nx\ny')['extra'] == ['x', 'y'], 'extra lines')
    ok(P.parse_epc('BCD\n002\n1\nSCT\n\n\u017d\nDE1\nEUR1\n\nRF18'.encode('iso-8859-2'), 3)['name'] == '\u017d',
       'explicit encoding')
    for bad in (b'BCD\n002\n1\nSCT\n\nn\nDE1\nEUR1\n', b'BCD\n002\n9\nSCT\n\nn\nDE1\nEUR1\n\nx', b'', None,
                b'BCD\n002\n\nSCT\n\nn\nDE1\nEUR1\n\nx', b'BCD\n002\n12\nSCT\n\nn\nDE1\nEUR1\n\nx',
                b'BCD\n002\n1\nSCT\n\n\xfc\nDE1\nEUR1\n\nx', 'BCD\n002\n0\nSCT\n\nn\nDE1\nEUR1\n\nx'):
        ok(rejects(P.parse_epc, bad), f'parse_epc must reject {bad!r}')
    kw = dict(name='Wikimedia Foerdergesellschaft', iban='DE33100205000001194700', amount=20,
              text='Spende fuer Wikipedia')
    ok(P.check_epc(doc, **kw) == [], f'check_epc docs {P.check_epc(doc, **kw)}')
    ok(P.check_epc(doc, **dict(kw, encoding='ISO-8859-1')) == [], 'check_epc encoding name')
    muts = [doc.replace(b'EUR20', b'EUR20.'), doc.replace(b'EUR20', b'EUR20,00'),
            doc.replace(b'EUR20', b'EUR020'), doc.replace(b'EUR20', b'EUR20.001'), doc.replace(b'EUR20', b'20'),
            doc.replace(b'EUR20', b'EUR21'), doc.replace(b'EUR20', b'eur20'), doc.replace(b'EUR20', b'EUR2E1'),
            doc.replace(b'BCD', b'BCE'), doc.replace(b'002', b'001'), doc.replace(b'SCT', b'INST'),
            doc.replace(b'\n2\n', b'\n1\n', 1).replace(b'Foerder', 'F\u00f6rder'.encode('latin1')),
            doc + b'\nforged', doc + b'\n', doc.replace(b'Spende', b'Spenden'), doc.replace(b'\nSpende fuer Wikipedia', b''),
            doc.replace(b'DE33', b'DE34'), doc.replace(b'Wikimedia', b'Wikipedia'), doc.replace(b'SCT\n\n', b'SCT\nBICBICBI\n'),
            doc.replace(b'EUR20\n\n', b'EUR20\nCHAR\n'), doc.replace(b'EUR20\n\n\n', b'EUR20\n\nRF18\n'),
            doc.replace(b'\n', b'\r\n'), doc.replace(b'BCD\n', b'BCD\n\n'), doc + b' ' * 300]
    for bad in muts:
        ok(P.check_epc(bad, **kw) != [], f'check_epc must report {bad!r}')
    ok(P.check_epc(doc, **dict(kw, encoding=1)) != [], 'check_epc: requested encoding differs')
    ok(P.check_epc(doc.replace(b'EUR20', b'EUR20.00'), **kw) == [], 'EUR20.00 is a legal EUR#.## form')
    ok(P.check_epc(doc.replace(b'EUR20', b'EUR20.0'), **kw) == [], 'EUR20.0 is a legal EUR#.## form')
    ok(P.check_epc(doc.replace(b'EUR20', b'EUR12.35'), **dict(kw, amount=12.345)) == [], 'rounded half up')
    ok(P.check_epc(doc.replace(b'EUR20', b'EUR12.34'), **dict(kw, amount=12.345)) == [], 'rounded half even')
    ok(P.check_epc(doc.replace(b'EUR20', b'EUR12.33'), **dict(kw, amount=12.345)) != [], 'wrongly rounded')
    ok(P.check_epc(doc.replace(b'EUR20', b'EUR1.1'), **dict(kw, amount=1.1)) == [], 'float 1.1')
    ok(P.check_epc(doc.replace(b'EUR20', b'EUR0'), **dict(kw, amount=0)) != [], 'amount 0')
    ok(P.epc_input_violations('n', 'DE1', 1, text='t') == [], 'no violation')
    ok(P.check_epc_symbol(13, 'M') == [] and P.check_epc_symbol(14, 'M') != [] and P.check_epc_symbol(3, 'Q') != []
       and P.check_epc_symbol(None, None) != [], 'check_epc_symbol')


# ---------------------------------------------------------------------------
# (b) the real helpers
# ---------------------------------------------------------------------------

def has_crlf(v):
    return any('\r' in s or '\n' in s for s in P._multi(v)) if not isinstance(v, str) else ('\r' in v or '\n' in v)


def dev_wifi(kw):
    """ZXing syntax: ';;' terminator is mandatory; every value incl. T must be escaped."""
    d = []
    if kw.get('hidden'):
        d.append('WIFI-1 hidden=True: payload ends with "H:true;" -- the ";;" terminator is missing')
    sec = kw.get('security')
    if sec and (';' in sec or '\\' in sec):
        d.append('WIFI-2 security is interpolated without escaping')
    return d


def test_wifi_helper():
    grid = []
    for ssid in SPECIALS + ['']:
        for password in (None, '', 'pw', ssid):
            for security in (None, 'WPA', 'wep', 'nopass'):
                for hidden in (False, True):
                    grid.append(dict(ssid=ssid, password=password, security=security, hidden=hidden))
    for sec in SPECIALS:
        grid.append(dict(ssid='net', password='pw', security=sec, hidden=False))
    for kw in grid:
        payload = H.make_wifi_data(**kw)
        problems = P.check_wifi(payload, **kw)
        judge(fmt_call('make_wifi_data', kw) + f' -> {payload!r}', problems, dev_wifi(kw))
        if kw['hidden'] and len(dev_wifi(kw)) == 1:
            # apart from the missing terminator everything else must hold
            ok(len(problems) == 1 and problems[0].startswith("missing ';;' terminator"),
               f'{fmt_call("make_wifi_data", kw)}: more than the terminator problem: {problems}')


def dev_mecard(kw, aliases):
    """docomo: keys TEL-AV and NOTE; every value escaped; ADR parts separated by unescaped ','."""
    d = []
    if not aliases and P._multi(kw.get('videophone')):
        d.append('MECARD-1 videophone uses the key "TELAV", the MeCard key is "TEL-AV"')
    if not aliases and kw.get('memo'):
        d.append('MECARD-2 memo uses the key "MEMO", the MeCard key is "NOTE"')
    b = kw.get('birthday')
    if isinstance(b, str) and (';' in b or '\\' in b):
        d.append('MECARD-3 birthday is interpolated without escaping')
    if any(',' in (kw.get(p) or '') for p in P._MECARD_ADR):
        d.append('MECARD-4 "," is not escaped in the address parts, ADR splits into more than 7 parts')
    return d


ALIASES = {'TEL-AV': 'TELAV', 'NOTE': 'MEMO'}


def test_mecard_helper():
    grid = []
    for v in SPECIALS + ['']:
        grid.append(dict(name=v))
        for p in ('reading', 'memo', 'nickname', 'birthday') + P._MECARD_ADR:
            grid.append({'name': 'Doe,John', p: v})
        for p in ('email', 'phone', 'videophone', 'url'):
            grid.append({'name': 'Doe,John', p: v})
            grid.append({'name': 'Doe,John', p: [v, 'second', v]} if v else {'name': 'Doe,John', p: []})
        grid.append(dict(name=v, reading=v, email=v, phone=(v, v), videophone=v, memo=v, nickname=v, url=[v],
                         pobox=v, roomno=v, houseno=v, city=v, prefecture=v, zipcode=v, country=v))
    grid.append(dict(name='Doe,John', birthday=datetime.date(1999, 12, 31), pobox='1', country='DE',
                     email=('a@x', 'b@x'), url=['http://x/?a=1;b=2', 'https://example.org/~joe']))
    grid.append(dict(name='Doe,John', birthday='19991231', zipcode='12345'))
    for kw in grid:
        payload = H.make_mecard_data(**kw)
        call = fmt_call('make_mecard_data', kw) + f' -> {payload!r}'
        judge(call, P.check_mecard(payload, **kw), dev_mecard(kw, False))
        if P._multi(kw.get('videophone')) or kw.get('memo'):
            judge(call + ' [keys TELAV/MEMO aliased]', P.check_mecard(payload, key_aliases=ALIASES, **kw),
                  dev_mecard(kw, True))


VC_TEXT = ('displayname', 'org', 'email', 'phone', 'fax', 'videophone', 'memo', 'nickname', 'title',
           'cellphone', 'homephone', 'workphone') + P._VCARD_ADR
VC_URI = ('url', 'source', 'photo_uri')
VC_MULTI = tuple(k for k, v in P.VCARD_PROPERTIES.items() if v[2])


def dev_vcard(kw):
    """RFC 2426: one content line per value; text values escape backslash, ';', ',' and newline."""
    d = []
    strs = []
    for k, v in kw.items():
        if k in ('lat', 'lng'):
            continue
        strs.extend((k, s) for s in (P._multi(v) if not hasattr(v, 'strftime') else []))
    if any('\r' in s or '\n' in s for k, s in strs):
        d.append('VCARD-1 CR / LF inside a value are not escaped: the value does not stay on one content line')
    for k, s in strs:
        if k in VC_URI or k in ('birthday', 'rev'):
            continue
        if any(s[i] == '\\' and s[i + 1:i + 2] in ('\\', ';', ',', 'n', 'N') and s[i + 1:i + 2] for i in range(len(s))):
            d.append('VCARD-2 backslash is not escaped: a literal backslash followed by \\ ; , n N is read as escape')
            break
    if not any(x.startswith('VCARD-2') for x in d) and \
            any(str(kw.get(p) or '').endswith('\\') for p in P._VCARD_ADR[:-1]):
        d.append('VCARD-2 backslash is not escaped: a trailing backslash of an ADR component escapes the ";" separator')
    if len(str(kw.get('name', '')).split(';')) > 5:
        d.append('VCARD-3 name with more than 5 components is written to N unchecked')
    lat, lng = kw.get('lat'), kw.get('lng')
    if lat is not None and lng is not None:
        if not lat or not lng:
            d.append('VCARD-4 latitude / longitude 0 is treated as "not given"')
        elif 'e' in repr(float(lat)) + repr(float(lng)):
            d.append('VCARD-5 GEO uses the float repr (exponent notation) for small / big values')
    return d


def test_vcard_helper():
    grid = []
    for v in SPECIALS + ['']:
        grid.append(dict(name=v, displayname='John Doe'))
        for p in VC_TEXT + VC_URI:
            kw = {'name': 'Doe;John', 'displayname': 'John Doe', p: v}
            grid.append(kw)
            if p in VC_MULTI:
                grid.append(dict(kw, **{p: [v, 'second', v] if v else []}))
        grid.append(dict(name=v, displayname=v, email=v, phone=[v], fax=v, videophone=v, memo=v, nickname=v,
                         url=v, pobox=v, street=v, city=v, region=v, zipcode=v, country=v, org=v, source=v,
                         title=(v, v), photo_uri=v, cellphone=v, homephone=v, workphone=v))
    base = dict(name='Doe;John', displayname='John Doe')
    grid.append(dict(base, name='a;b;c;d;e'))
    grid.append(dict(base, name='a;b;c;d;e;f'))
    for b in ('1999-12-31', datetime.date(1999, 12, 31), '1999-12-31T12:00:00Z', '1999-12-31\n'):
        grid.append(dict(base, birthday=b))
        grid.append(dict(base, rev=b))
    for lat, lng in ((38.8976763, -77.0365297), (1, 2), (-0.5, 0.25), (0, 0), (0.0, 10.0), (10.0, 0), (1e-7, 2.5),
                     (1.5, None), (None, 2.5)):
        grid.append(dict(base, lat=lat, lng=lng))
    for kw in grid:
        call = fmt_call('make_vcard_data', kw)
        dev = dev_vcard(kw)
        b = [kw.get('birthday'), kw.get('rev')]
        if '1999-12-31\n' in b:
            dev.insert(0, 'VCARD-6 birthday / rev with a trailing "\\n" pass the date validation ("$" instead of "\\Z")')
        try:
            payload = H.make_vcard_data(**kw)
        except ValueError as ex:
            lat, lng = kw.get('lat'), kw.get('lng')
            COUNT['helper_calls'] += 1
            if (lat is None) != (lng is None):
                COUNT['clean'] += 1   # documented refusal of incomplete geo information
            elif lat is not None and (not lat or not lng):
                DEVS.setdefault('VCARD-4 latitude / longitude 0 is treated as "not given"', []).append(
                    (call, [f'refused with ValueError({ex})']))
            else:
                FAILS.append(f'{call}: unexpected ValueError {ex}')
            continue
        judge(call + f' -> {payload!r}', P.check_vcard(payload, **kw), dev)


def test_geo_helper():
    vals = (0, 0.0, -0.0, 1, -1, 38.8976763, -77.0365297, 90, -90, 180, -180, 1e-9, -1e-9, 12.123456789012,
            89.99999999, 0.00000001, 1e-7, 179.999999994)
    for lat in vals:
        for lng in vals:
            if abs(lat) > 90:
                continue
            kw = dict(lat=lat, lng=lng)
            payload = H.make_geo_data(**kw)
            judge(fmt_call('make_geo_data', kw) + f' -> {payload!r}', P.check_geo(payload, **kw), [])
    for kw in (dict(lat=91, lng=0), dict(lat=0, lng=180.5), dict(lat=float('nan'), lng=1), dict(lat=1, lng=float('inf')),
               dict(lat=1e20, lng=1)):
        payload = H.make_geo_data(**kw)
        judge(fmt_call('make_geo_data', kw) + f' -> {payload!r}', P.check_geo(payload, **kw),
              ['GEO-1 non-finite / out-of-range coordinates are not refused (RFC 5870: WGS-84 range)'])


_ADDR_OK = P._UNRESERVED | frozenset("!$'()*+;:@")


def dev_mailto(kw):
    """RFC 6068: addresses and header field values must be percent-encoded; hfields start with '?'."""
    d = []
    for p in ('to', 'cc', 'bcc'):
        allowed = _ADDR_OK | frozenset('&=') if p == 'to' else _ADDR_OK
        if any(c not in allowed for a in P._multi(kw.get(p)) for c in a):
            d.append('MAILTO-1 to / cc / bcc are not percent-encoded')
            break
    if kw.get('body') is not None and kw.get('subject') is None and not P._multi(kw.get('cc')) \
            and not P._multi(kw.get('bcc')):
        d.append('MAILTO-2 body without subject / cc / bcc: header fields start with "&" instead of "?"')
    return d


def test_mailto_helper():
    grid = []
    texts = SPECIALS + ['', 'a&b=c', '100% #1?', 'a+b c/d', '\u20ac \U0001f600', "it's <ok>"]
    for v in texts:
        grid.append(dict(to='a@example.org', subject=v))
        grid.append(dict(to='a@example.org', subject='s', body=v))
        grid.append(dict(to='a@example.org', cc='c@example.org', body=v))
        grid.append(dict(to='a@example.org', body=v))
        grid.append(dict(to=['a@example.org', 'b@example.org'], cc=('c@x', 'd@x'), bcc=['e@x'], subject=v, body=v))
        if v:
            grid.append(dict(to=v))
            grid.append(dict(to=['a@example.org', v]))
            grid.append(dict(to='a@example.org', cc=v))
            grid.append(dict(to='a@example.org', bcc=[v, 'b@x'], subject='s'))
    grid.append(dict(to='a@example.org'))
    grid.append(dict(to='a@example.org', cc=[], bcc=None, subject=None, body=None))
    grid.append(dict(to='a+tag@example.org', bcc='b@x'))
    for kw in grid:
        payload = H.make_make_email_data(**kw)
        judge(fmt_call('make_make_email_data', kw) + f' -> {payload!r}', P.check_mailto(payload, **kw), dev_mailto(kw))
    ok(rejects(H.make_make_email_data, ''), 'empty "to" refused')
    ok(rejects(H.make_make_email_data, None), '"to" None refused')
    ok(rejects(H.make_make_email_data, []), '"to" [] refused')


# ---------------------------------------------------------------------------
# (c) EPC
# ---------------------------------------------------------------------------

EPC_SAMPLES = {1: '\u20ac \u0416 \u03a9 caf\u00e9', 2: 'F\u00f6rderverein \u00df', 3: '\u0141\u00f3d\u017a \u0159',
               4: '\u0100\u0137\u0146', 5: '\u0416\u0443\u043a', 6: '\u03a9\u03bc\u03ad\u03b3\u03b1',
               7: '\u0168\u0138 \u014a', 8: '\u20ac\u0160\u0153'}


def epc_call(kw, dev=None, symbol=True):
    call = fmt_call('make_epc_qr', kw)
    try:
        data = H._make_epc_qr_data(**kw)
    except ValueError as ex:
        FAILS.append(f'{call}: valid input refused: {ex}')
        return None
    probs = P.check_epc(data, **kw)
    if symbol:
        qr = H.make_epc_qr(**kw)
        probs += P.check_epc_symbol(qr.version, qr.error)
    judge(call + f' -> {data!r}', probs, dev or [])
    return data


def test_epc_helper():
    base = dict(name='Wikimedia Foerdergesellschaft', iban='DE33100205000001194700', amount=20,
                text='Spende fuer Wikipedia')
    epc_call(base)
    epc_call(dict(base, amount=13.05, encoding='utf-8'))
    # all eight encodings, by number, by name (case-insensitive) and auto-detected
    for no, sample in EPC_SAMPLES.items():
        codec = P.EPC_CHARSETS[no]
        for enc in (no, codec, codec.upper(), None):
            kw = dict(name=sample, iban='DE33100205000001194700', amount='1.5', text=sample, encoding=enc)
            data = epc_call(kw)
            if data is not None and enc is not None:
                ok(P.parse_epc(data)['charset'] == no, f'charset {no} expected for encoding={enc!r}')
            if data is not None and enc is None:
                got = P.parse_epc(data)['charset']
                ok(got == no or no == 1 or sample.encode(P.EPC_CHARSETS[got]), f'auto-detected charset {got}')
        # ASCII data under every encoding
        epc_call(dict(base, encoding=no))
        epc_call(dict(base, text=None, reference='RF18539007547034', encoding=no, bic='BFSWDE33BER', purpose='CHAR'))
    # amounts
    for amount in (0.01, '0.01', Decimal('0.01'), 1, 1.0, 1.1, '1.10', Decimal('1.10'), 12.345, Decimal('12.345'),
                   '12.344', 12.3449, 0.015, 0.019, 20, 100, 1000000, 999999999, '999999999.99',
                   Decimal('999999999.99'), 999999999.5, 123456789.12, 0.1 + 0.2, Decimal('1E+2'), 10.10, 1e3):
        epc_call(dict(base, amount=amount), symbol=False)
    # max lengths (single byte charset) and 331 bytes
    n70, t140 = 'N' * 70, 'T' * 140
    data = epc_call(dict(name=n70, iban='I' * 34, amount='999999999.99', text=t140, bic='B' * 11, purpose='PURP'))
    ok(data is not None and len(data) <= 331, 'max lengths fit into 331 bytes')
    epc_call(dict(name=n70, iban='I' * 34, amount='999999999.99', reference='R' * 35, bic='B' * 8, purpose='PURP'))
    epc_call(dict(name='\u00e4' * 70, iban='I' * 34, amount='999999999.99', text='\u00f6' * 140, bic='B' * 11,
                  purpose='PURP'))
    epc_call(dict(name='\u00e4' * 70, iban='I' * 34, amount=1, text='\u00f6' * 50, encoding=1), symbol=True)
    epc_call(dict(name=' padded ', iban='DE33100205000001194700', amount=1, text='text  ', bic=' BFSWDE33 '))
    # > 331 bytes (UTF-8) must be refused
    ok(rejects(H._make_epc_qr_data, name='\u0416' * 70, iban='I' * 34, amount=1, text='\u20ac' * 140),
       'payload > 331 bytes refused')
    ok(rejects(H._make_epc_qr_data, name='\u0416', iban='DE1234', amount=1, text='t', encoding=2),
       'unencodable name refused')
    # documented limits -> ValueError
    refused = [dict(base, name='N' * 71), dict(base, name=''), dict(base, name=None), dict(base, name='   '),
               dict(base, iban='I' * 35), dict(base, iban=''), dict(base, iban=None),
               dict(base, bic='B' * 9), dict(base, bic='B' * 7), dict(base, bic='B' * 12), dict(base, bic='B' * 10),
               dict(base, purpose='PURPO'), dict(base, text='T' * 141), dict(base, text=None),
               dict(base, text=''), dict(base, text=None, reference='R' * 36),
               dict(base, reference='RF18539007547034'), dict(base, amount=0), dict(base, amount=0.009),
               dict(base, amount='0.0099'), dict(base, amount=-1), dict(base, amount=1000000000),
               dict(base, amount='999999999.991'), dict(base, amount=Decimal('1E+9')), dict(base, amount=float('inf')),
               dict(base, amount=float('nan')), dict(base, amount=Decimal('NaN')),
               dict(base, encoding=0), dict(base, encoding=9), dict(base, encoding=-1), dict(base, encoding='latin1'),
               dict(base, encoding='utf-16'), dict(base, encoding=1.0)]
    for kw in refused:
        call = fmt_call('make_epc_qr', kw)
        COUNT['helper_calls'] += 1
        ok(P.epc_input_violations(**kw) != [], f'{call}: epc_input_violations finds nothing')
        try:
            data = H._make_epc_qr_data(**kw)
        except ValueError:
            COUNT['clean'] += 1
        except Exception as ex:
            DEVS.setdefault('EPC-3 invalid amount is refused with an exception which is not a ValueError', []).append(
                (call, [f'{type(ex).__module__}.{type(ex).__name__} instead of ValueError']))
        else:
            FAILS.append(f'{call}: not refused, returned {data!r}; check says {P.check_epc(data, **kw)}')
    # documented maximum given as float
    kw = dict(base, amount=999999999.99)
    COUNT['helper_calls'] += 1
    try:
        data = H._make_epc_qr_data(**kw)
        judge(fmt_call('make_epc_qr', kw), P.check_epc(data, **kw), [])
    except ValueError as ex:
        DEVS.setdefault('EPC-2 the documented maximum 999999999.99 given as float is refused '
                        '(compared via Decimal(float) = 999999999.990000009...)', []).append(
            (fmt_call('make_epc_qr', kw), [f'ValueError({ex})']))
    # line breaks inside the values
    dev = ['EPC-1 CR / LF inside a value are not refused: the value forges / shifts EPC elements']
    for kw in (dict(base, name='a\nb'), dict(base, iban='DE33\n100205'), dict(base, text='a\nforged'),
               dict(base, text=None, reference='RF18\nforged'), dict(base, purpose='A\nBC'),
               dict(base, bic='BFSW\nE33'), dict(base, name='a\rb'), dict(base, text='l1\r\nl2')):
        epc_call(kw, dev=dev, symbol=False)


def main():
    tests = [test_primitives, test_mecard_wifi_handwritten, test_vcard_handwritten, test_geo_mailto_handwritten,
             test_epc_handwritten, test_wifi_helper, test_mecard_helper, test_vcard_helper, test_geo_helper,
             test_mailto_helper, test_epc_helper]
    for t in tests:
        before = len(FAILS)
        try:
            t()
        except Exception as ex:
            import traceback
            FAILS.append(f'{t.__name__} crashed: {type(ex).__name__}: {ex}\n{traceback.format_exc()}')
        print(f'{t.__name__}: {"ok" if len(FAILS) == before else f"{len(FAILS) - before} FAILURE(S)"}')
    print(f'\n{COUNT["asserts"]} assertions, {COUNT["helper_calls"]} helper calls '
          f'({COUNT["clean"]} satisfy the postcondition, {sum(len(v) for v in DEVS.values())} deviate)')
    print('\nLIBRARY DEVIATIONS (excluded from pass/fail)')
    for dev_id in sorted(DEVS):
        cases = DEVS[dev_id]
        print(f'\n* {dev_id} -- {len(cases)} case(s), e.g.')
        for call, problems in cases[:3]:
            print(f'    {call}')
            for p in problems[:4]:
                print(f'        problem: {p}')
    if NOT_OBSERVED:
        print('\nPREDICTED DEVIATIONS NOT OBSERVED (informational)')
        for line in NOT_OBSERVED[:20]:
            print('   ', line)
    if FAILS:
        print(f'\nFAILURES ({len(FAILS)})')
        for f in FAILS[:60]:
            print('  -', f)
        print('\nRESULT: FAIL')
        return 1
    print('\nRESULT: PASS')
    return 0


if __name__ == '__main__':
    sys.exit(main())
