"""Polymorphic logic helpers: plain Python on concrete values, z3-backed on
pyvc symbolic values.  pyvc (and z3) is imported lazily so that spec functions
also run under /venv/bin/python (native replay), where z3 is not installed."""


def _sym(*xs):
    for x in xs:
        if type(x).__name__ in ('SInt', 'SBool'):
            return True
    return False


def _S():
    from pyvc import sym
    return sym


def ite(c, a, b):
    if _sym(c):
        return _S().s_ite(c, a, b)
    return a if c else b


def land(*xs):
    if _sym(*xs):
        return _S().s_and(*xs)
    return all(bool(x) for x in xs)


def lor(*xs):
    if _sym(*xs):
        return _S().s_or(*xs)
    return any(bool(x) for x in xs)


def lnot(x):
    if _sym(x):
        return _S().s_not(x)
    return not x


def implies(a, b):
    return lor(lnot(a), b)


def iff(a, b):
    return land(implies(a, b), implies(b, a))


def smin(a, b):
    if _sym(a, b):
        return _S().s_min(a, b)
    return min(a, b)


def smax(a, b):
    if _sym(a, b):
        return _S().s_max(a, b)
    return max(a, b)
