#!/bin/bash
# verifies the round-5 seeded change of one property (/tmp/seed${ROUND:-5}-Cnn/_seed/1) and stores it as seeded/Cnn-<k> (k given)
p=$1; k=$2
d=/tmp/seed${ROUND:-5}-$p/_seed/1
[ -f $d/patch.diff ] || { echo "$p-$k: missing"; exit 1; }
/verif/tools_seed.sh verify $d $p-$k 2>&1 | tail -2
