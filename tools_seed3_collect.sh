#!/bin/bash
# verifies the round-3 seeded changes of one property (/tmp/seed3-Cnn/_seed/{1,2}) and stores them as seeded/Cnn-{6,7}
p=$1
for k in 1 2; do
  d=/tmp/seed3-$p/_seed/$k
  [ -f $d/patch.diff ] || { echo "$p-$((k+5)): missing"; continue; }
  /verif/tools_seed.sh verify $d $p-$((k+5)) 2>&1 | tail -1
done
