#!/usr/bin/env python3
"""Regenerates MANIFEST.json from the table below (single source of truth)."""
import json

CLAIMS = {
 'C04': dict(
   category='proof',
   text='Deductive: the real find_version, Segments.bit_length_with_overhead and encode (version decision) are symbolically '
        'executed from /repo source on every run; for every (level, eci, micro, structured-append) configuration and '
        'every requested version the result is proved equal to the ISO first-fit specification for ALL payload lengths and '
        'ALL multisets of parts (symbolic integers, z3 unsat), so both sides of every capacity boundary are covered. '
        'Tables are compared with an independent ISO transcription (ground lemmas). Public factories: forwarding lemmas.',
   note='Trusted: pyvc interpreter + z3; spec/iso.py transcription of ISO Tables 2/3/7/9; multiset abstraction of the segment list '
        '(order-insensitive folds); Segments representation invariant (proved under C01); payload bits per part arbitrary >= per-mode minimum.',
   technique='contract-based deductive verification: AST symbolic execution of the real functions + z3 VCs (smt), ground table lemmas',
   design='4/C04'),
 'C05': dict(
   category='proof',
   text='Deductive: boost_error_level is verified for each of the 44 versions x levels x eci x structured-append with symbolic '
        'content (all lengths, all part multisets): result is the highest level >= request defined for the version whose '
        'capacity holds the content, never H in Micro, unchanged for multi-part content; encode: default level, H/Micro refusal, '
        'flag and level forwarding for all requested versions; public factories forward error/boost_error (forwarding lemmas).',
   note='Trusted: pyvc + z3; spec/iso.py capacities and level order; caller obligation "content fits (version, level)" is C04. '
        'Use of the boosted level inside _encode is the glue contract (C05._encode.*).',
   technique='contract-based deductive verification: AST symbolic execution + z3 VCs (smt), ground lemmas',
   design='4/C05'),
}
CLAIMS.update({
 'C02': dict(
   category='proof',
   text='Deductive, exhaustive over the finite configuration space with symbolic data: for each of the 44 versions the real '
        'make_matrix/add_finder_patterns/add_alignment_patterns are executed from source and every module is compared with the ISO '
        'function-pattern map; add_format_info for all 1312+32 (version, level, mask) and add_version_info for all versions on a matrix '
        'of opaque cells: both copies bit by bit, dark module, frame (no other cell changes); BCH/Golay tables recomputed by polynomial '
        'division; metadata properties of QRCode for all configurations; _encode glue (order of stages, format info after masking). '
        'Control flow of these functions depends only on the configuration, so one run per configuration covers all data.',
   note='Trusted: pyvc interpreter; spec/layout.py transcription of ISO 6.3/7.9/7.10/Annex E (cross-checked by module-count identity). '
        'Cells written by other stages are opaque tokens.',
   technique='contract-based deductive verification: concrete-control / symbolic-data execution of the real functions (cc-sym), ground table lemmas, glue VCs by z3',
   design='4/C02'),
 'C03': dict(
   category='proof',
   text='Deductive: make_blocks is executed for all 168 (version, level) layouts with ALL data bytes symbolic as GF(256)-linear forms; '
        'every block data++ec has all ec syndromes identically zero (valid RS codeword for every content), data blocks are the Table 9 slices; '
        'field and generator tables proved against GF(256) built from x^8+x^4+x^3+x^2+1; interleaving/half codeword/remainder bits of '
        'make_final_message for all 168 layouts and placement order of add_codewords for all 44 versions with symbolic codewords.',
   note='Trusted: pyvc (gf-lin branch merge rule), spec/gf.py, ISO Table 9 transcription; RS minimum-distance theorem cited, not re-proved '
        '(correctability follows from zero syndromes); decoder behaviour of third-party readers not modelled.',
   technique='contract-based deductive verification: GF(256) linear-form symbolic execution (gf-lin), cc-sym, ground table lemmas',
   design='4/C03'),
 'C13': dict(
   category='proof',
   text='Deductive: write_terminator, write_padding_bits, write_pad_codewords verified for each of the 168 (version, level) with a symbolic '
        'stream length 0..capacity (every residue mod 8, every distance to capacity): every bit after the segments equals the ISO 7.4.9/7.4.10 '
        'stream; pad loop cut at a loop invariant (quantifier-free by explicit instantiation); remainder bits; _encode glue (order, len(buff) arguments). '
        'One known finding (extra zero codeword on aligned streams) is checked per region as ISO-or-pinned-deviation.',
   note='Trusted: pyvc + z3 (LIA with div/mod, arrays); spec/iso.py stream specification; caller obligation stream length <= capacity (C04).',
   technique='contract-based deductive verification: AST symbolic execution + loop invariant + z3 VCs (smt), cc-sym for remainder bits',
   design='4/C13'),
})
CLAIMS.update({
 'C06': dict(
   category='proof',
   text='Deductive core: the eight mask functions are proved equivalent to ISO Table 10 for ALL i, j >= 0 (z3, 36 residue cases each); '
        'apply_mask through find_and_apply_best_mask for all 44 versions x 8/4 requested masks with symbolic modules (module inverted iff '
        'encoding region and condition; function modules untouched; returned pattern is the requested one); candidate selection with eight '
        'symbolic scores (lowest-numbered minimum / Micro maximum, every candidate masked from the unmasked copy, returned matrix is that candidate); '
        'Micro score for the four sizes with symbolic modules; N4 for every dark count of every size (1.4M cases, real float statements extracted from the AST); '
        'evaluate_mask is the sum; _encode glue (evaluation before format/version info). '
        'N1/N2/N3 and the dark-module count of mask_scores for a matrix of ANY size and content: the two nested loops and the while loop of n3_pattern_occurrences are cut at loop invariants '
        'equating the program variables with the ISO scores written as folds (runs of 5 or more, uniform 2x2 blocks, every - also overlapping - 1011101 occurrence with four light modules or the edge), '
        'bytearray.find axiomatised, a no-occurrence lemma proved by induction. A labelled BOUNDED differential of the real scores against spec/penalty.py (seeded and planted matrices, all sizes) runs in addition.',
   note='Trusted: pyvc + z3, spec/penalty.py, spec/layout.py; that the fold form of N1/N2/N3 equals the declarative ISO form is validated exhaustively for lines of up to 14 (thorough 16) modules and all 4x4 matrices only; '
        'induction schema; find axiom. Scores assumed < sys.maxsize.',
   technique='contract-based deductive verification (smt + cc-sym + ground) of masks, selection, N1-N4 scoring loops (loop invariants over a symbolic matrix), Micro score; bounded differential in addition',
   design='4/C06'),
 'C11': dict(
   category='proof',
   text='Deductive. (1) Classification, exhaustive in position: for all 44 sizes matrix_iter_verbose (real get_bit) is executed on a valid symbol whose data/format/version '
        'modules are symbolic bits; every yielded value equals, as a linear form in the module bit, the ISO type of its position (dark variant iff the module is dark). '
        '(2) Iteration kernel for ANY width, height, integer scale and border: loop contracts with a ghost row counter over lazy symbolic sequences prove for matrix_iter and '
        'matrix_iter_verbose that the rows come in order, each module row scale times, each row has (width + 2 border) * scale entries, entry block p of row block q depicts '
        'module (q - border, p - border) (light / quiet zone outside), the row count, and that exactly scale < 1 and negative border are refused. '
        '(3) Colour map: the colorful() wrapper and _make_colormap are executed with opaque colour values for every version: each occurring module type gets its own option '
        '(None kept) else dark / light, everything else is forwarded unchanged. One known finding: module (8, size-9) reported as format information. '
        'BOUNDED (labelled): colour-indexed PNG / PPM / SVG documents of real symbols read back cell by cell.',
   note='Trusted: pyvc (lazy sequence model of tuple(chain.from_iterable(repeat(x, n) for ...)), eager generators), spec/layout.py map, TYPE_* constants by documented name. '
        'Float scales (truncation) and the use of the colour map inside the three writers are covered by concrete / bounded cases only.',
   technique='contract-based deductive verification: cc-sym classification at every module of every size; loop contracts + ghost state for the iteration kernel (z3); ground obligations over opaque colours; bounded readers for rendering',
   design='4/C11'),
})
CLAIMS.update({
 'C07': dict(
   category='proof',
   text='Deductive, for byte strings of ARBITRARY length and content (symbolic array): is_kanji proved by loop invariant against the Shift JIS double-byte '
        'validity predicate (lead and trail byte); is_alphanumeric from the parse tree of the real compiled pattern (45-character set compared with ISO); '
        'find_mode returns the first applicable of numeric/alphanumeric/kanji/byte, never hanzi; make_segment for every requested mode: used as given iff '
        'the content is representable (numeric, alphanumeric, byte, kanji, hanzi - packing loops cut at loop contracts), refused with ValueError otherwise, '
        'no IndexError; normalize_mode spellings; mode/version availability (ISO Table 2) in is_mode_supported and encode.',
   note='Trusted: pyvc with explicit quantifier instantiation + z3; axioms for bytes.isdigit and character-class regular expressions; spec/modes.py; '
        'text -> bytes conversion by CPython codecs is uninterpreted (any byte string may result). If a change takes is_kanji / is_alphanumeric / find_mode out of '
        'the verifier\'s reach (contract no longer attaches), a BOUNDED native stand-in (all 65536 byte pairs for is_kanji) decides violation vs undecided; never counted as proved.',
   technique='contract-based deductive verification: AST symbolic execution over symbolic byte arrays, loop invariants, explicit instantiation, z3',
   design='4/C07'),
})
CLAIMS.update({
 'C01': dict(
   category='proof',
   text='Deductive per stage, content of ARBITRARY length (symbolic byte arrays): text->bytes policy of data_to_bytes (codecs uninterpreted); the five '
        'packers of make_segment proved against the ISO field-level packing by loop invariants (value and width of every group, character count, bit length, '
        'no value truncated); packing proved injective on the admitted inputs (numeric/alphanumeric groups, Shift JIS and GB2312 double bytes); '
        'Buffer.append_bits linked to the bit level for widths 1..16; Segments.add_segment (representation invariant; a merged segment is the ISO packing of the '
        'concatenated bytes); write_segment header fields (ECI, mode, Hanzi subset, count indicator) for all 44 versions x modes; count-fits-indicator lemma; '
        'ECI assignment table; _encode glue; forwarding of the public factories. Remaining stages are the C13/C03/C06/C02 obligations. '
        'A BOUNDED end-to-end stand-in (independent reference decoder on seeded real symbols) exercises the composition and is not counted as proved.',
   note='Trusted: pyvc + z3; CPython codecs realise the named character sets; unique recovery of a prefix-coded field list from its flattening (mathematical); '
        'composition of the stage inverses argued in DESIGN.md, exercised bounded.',
   technique='contract-based deductive verification: stage contracts + inverse lemmas (loop invariants over symbolic byte arrays, z3); bounded reference-decoder stand-in for the composition',
   design='4/C01'),
})
CLAIMS.update({
 'C14': dict(
   category='proof',
   text='Deductive core: encode() is symbolically executed over the product of documented option domains incl. boundary / malformed values '
        '(6 error x 11 version x 4 mode x 8 mask x 3 micro x 2 eci spellings) with symbolic single-part content of any length: only ValueError escapes, '
        'invalid or excluded combinations are always refused, accepted calls hand _encode a version in range, a level defined for it, a mask valid for the CHOSEN '
        'symbol kind, ECI only for QR; alternative spellings reach the stages with identical parameters; encode_sequence refusals and result counts on concrete '
        'contents with the stages summarised. The no-exception clauses of the stage contracts (C01/C03/C13/...) cover the library below _encode. '
        'Colour strings: exhaustive over all ~4 million strings ['#'] c1..c6 of an adversarial alphabet (hex digits, non hex letter, signs, blank, underscore, non ASCII digit): accepted iff '
        'hexadecimal RGB / RGBA / RRGGBB with the right channel values, else ValueError and nothing else; colour tuples of arbitrary integers (z3). '
        'Colour strings: exhaustive over all ~4 million strings [#] c1..c6 of an adversarial alphabet (hex digits, non hex letter, signs, blank, underscore, non ASCII digit): accepted iff '
        'hexadecimal RGB / RGBA / RRGGBB with the right channel values, else ValueError and nothing else; colour tuples of arbitrary integers (z3). '
        'BOUNDED (labelled): serialiser refusal of malformed colours / scales / borders / kinds for 12 formats and the command line exit status on enumerated arguments.',
   note='Trusted: pyvc + z3 and the contracts of find_version, prepare_data/make_segment, _encode used as summaries. Bounded clauses are enumerations of malformed values, not all values.',
   technique='contract-based deductive verification of the encoder entry points over enumerated option domains x symbolic content; bounded run-time contracts for serialiser arguments and CLI',
   design='4/C14'),
})
CLAIMS.update({
 'C08': dict(
   category='proof',
   text='Deductive: the structure of encode_sequence for message content of ARBITRARY length (symbolic sequence) in each mode, for version=1/9/10/26/27/40 and '
        'symbol_count=1..16: 1..16 symbols, symbol_count honoured, chunks are consecutive balanced slices covering the message, one header per symbol with '
        'position i, total-1 and one shared parity value, requested version for every symbol resp. one version that fits every chunk; divide_into_chunks for all 16 counts; '
        'Structured Append header bits in _encode (glue); sizing with the header overhead (C04 obligations for is_sa); forwarding of make_sequence; argument refusals. '
        'BOUNDED (labelled): fit of every chunk in its symbol, parity value, and reassembly of the decoded payloads on seeded real sequences read back with the '
        'independent reference decoder. One known finding (symbol overflow when only version is given).',
   note='Trusted: pyvc + z3; contracts of make_segment / find_version / parity used as summaries in the structure proof; bounded clauses are not counted as proved; '
        'float ceil in the symbol count estimate treated as exact rational ceiling.',
   technique='contract-based deductive verification of the sequence structure over symbolic content + bounded reference-decoder stand-in for fit / parity / reassembly',
   design='4/C08'),
})
CLAIMS.update({
 'C16': dict(
   category='proof',
   text='Deductive for ALL string values: the WIFI, MeCard, vCard and mailto builders are executed with every user value an opaque text token; the resulting '
        'rope is proved to have the documented field structure and every user value is embedded only through the escape function of the format '
        '(percent-encoding for mailto subject/body); per-character escape lemmas over the real tables (no unescaped separator, image unescapes to the character, '
        'vCard images contain no line break); the make_* factories are make_qr of their payload with all arguments forwarded; EPC: level M, no boosting, 331 bytes fit 13-M. '
        'BOUNDED (labelled): real payloads on an adversarial value grid parsed back by independent parsers (WIFI, MeCard, vCard, geo, mailto, EPC layout / amount / '
        'charset / limits, EPC symbol level and version, factory symbol decodes to the payload). One known finding (comma in MeCard address parts).',
   note='Trusted: pyvc opaque-text interpreter; axiom that str.translate maps characters independently; urllib.parse.quote; spec/payloads.py parsers for the bounded clauses. '
        'geo and EPC clauses are bounded only.',
   technique='contract-based deductive verification of string builders over opaque text tokens (structure / taint obligations + per-character escape lemmas); bounded independent-parser stand-in',
   design='4/C16'),
})
CLAIMS.update({
 'C09': dict(
   category='exploration',
   text='BOUNDED run-time contracts (not a proof): every raster / text writer (PNG, PBM P1/P4, PAM, PPM, XBM, XPM, TXT, ANSI terminal, compact terminal) is '
        'called on real symbols of assorted versions and on adversarial matrices over a seeded grid of scale (incl. non-integer), border, colour sets '
        '(named, hex, tuples, alpha, transparent) and format options; the output is read back by independent format readers (signature, every chunk CRC, '
        'IHDR/PLTE/tRNS consistency, declared size == data, filter reconstruction) and every pixel is compared with the module it depicts; colourful PNG/PPM: '
        'every module has the colour configured for its ISO type. Deductive (small): the size / scale / border arithmetic (symbolic integers), the iteration kernel the writers draw '
        'their rows from (matrix_iter for any size, scale, border; shared with C11) and the P4 row packing helper for every bit pattern of rows of 1..72 pixels.',
   note='The serialisers use zlib, struct, text codecs and streams: outside the reach of the deductive tool built here; stated as bounded in DESIGN.md. '
        'Trusted: spec/readers_raster.py.',
   technique='bounded stand-in: run-time contracts with independent format readers on an enumerated / seeded grid (deductive only for size arithmetic)',
   design='4/C09'),
 'C10': dict(
   category='proof',
   text='Deductive kernel: utils.matrix_to_lines is proved for a matrix with ANY number of rows of ANY width (symbolic) by loop invariants with a ghost cover '
        'count: every dark module is covered by exactly one yielded segment, no light module and nothing outside the row is covered, every segment is a '
        'non-empty horizontal run on its row. Colour values ("in the requested colour"): exhaustive lemmas over all 256 alpha values, all #RGB, every channel value of #RRGGBB / #RRGGBBAA, '
        'all colour names against an independent SVG / CSS table, web colour of a tuple parses back; (r, g, b[, a]) tuples of ARBITRARY integers accepted iff 0..255 (z3). BOUNDED (labelled, not counted): the SVG / EPS / PDF / PGF documents are read back by independent readers '
        '(page box, scale transform, covered unit squares == dark modules, stroke / background colours, PDF /Length and xref offsets, XML well-formedness, title/desc escaping) '
        'on a seeded grid of symbols x integer and fractional scales x borders x colours x SVG options.',
   note='Trusted: pyvc + z3 for the kernel (precondition: first module of the symbol is dark); spec/readers_vector.py for the bounded document clauses; '
        'the coordinate arithmetic of the four writers themselves is only covered by the bounded clauses.',
   technique='contract-based deductive verification of the run-length kernel (loop invariants, ghost cover count); bounded independent-reader stand-in for the documents',
   design='4/C10'),
})
CLAIMS.update({
 'C12': dict(
   category='proof',
   text='Deductive forwarding lemmas with the serialisers as uninterpreted effects: writers.save dispatches every extension / kind of the serialiser table '
        '(lower, upper, capitalised; file name, stream + kind, stream.name) to its serialiser with exactly the given matrix, size, target and keyword options, unknown '
        'extensions raise ValueError; QRCode.save, svg_inline (xmldecl / namespace / newline off), svg_data_uri, png_data_uri, as_svg_data_uri, as_png_data_uri forward '
        'every option under its own name; QRCodeSequence.save writes stem-NN-MM.ext for 1..16 symbols, each with the same options. '
        'BOUNDED (labelled): byte comparison on real symbols x 12 kinds x option sets of path (mixed-case extension) vs stream, gunzipped svgz, base64 / percent '
        'decoded data URIs, svg_inline, the file written by segno.cli.main with the corresponding flags (timestamps masked), terminal output, sequence files. '
        'One known finding (quote style of the SVG data URI).',
   note='Trusted: pyvc for the forwarding lemmas; gzip/base64/unquote inverses; argparse runs natively in the bounded CLI route.',
   technique='contract-based deductive verification of the dispatch / forwarding layer (uninterpreted serialisers); bounded byte comparison of the routes incl. the CLI',
   design='4/C12'),
})
CLAIMS.update({
 'C15': dict(
   category='other',
   text='Static frame analysis + bounded stand-ins. Complete over the package source (re-read every run): no function of segno/*.py rebinds a module level name, '
        'stores through or calls a mutating method on a module level object, or is wrapped by a state-carrying decorator; no function uses a nondeterministic '
        'primitive (time / random / id / hash / environment / set iteration) outside the documented timestamp sites. Frame obligations: encode, encode_sequence, '
        'matrix_iter, matrix_iter_verbose, matrix_to_lines are executed by the pyvc interpreter with a mutation hook on representative inputs: every mutated object '
        'was allocated inside the call. Determinism + empty write frame => history freedom and schedule independence (argued, thread interleavings are not explored). '
        'BOUNDED (labelled): native battery in fresh interpreters (every call after every other call equals the fresh result for ~60 calls that differ in what a cache key could forget; '
        '16 threads on one symbol size in a cold interpreter; systematic schedules: thread B runs completely while thread A is suspended at the entry of its k-th encoder function, every k), '
        'table snapshots, reordered histories, serialisation leaves the symbol unchanged, idempotent re-encoding. The scans are SUFFICIENT conditions: if one fails and the battery sees no '
        'behavioural difference the run is undecided (exit 2), not a violation.',
   note='Not a proof of thread safety: no interleaving semantics. The scan is syntactic (a write through a local alias of a module level object is only seen by the frame hook on '
        'interpreted paths and by the bounded snapshots). Idempotence is bounded only.',
   technique='contract-style frame (assigns-nothing) obligations: package-wide syntactic write / nondeterminism scan + interpreter mutation hook; bounded native stand-ins for histories, threads and idempotence',
   design='4/C15'),
})
NOT_YET = {
}
ALL = ['C%02d' % i for i in range(1, 17)]


def main():
    checks = []
    for pid in ALL:
        c = CLAIMS.get(pid)
        if not c:
            continue
        checks.append(dict(
            property_id=pid,
            quick_cmd='./check %s --tier quick' % pid,
            thorough_cmd='./check %s --tier thorough' % pid,
            evidence_file='/verif/evidence/%s.json' % pid,
            replay_cmd_template='./check %s --replay {path}' % pid,
            engine='pyvc',
            level_claimed=dict(category=c['category'], text=c['text'], design_ref='DESIGN.md section ' + c['design']),
            level_note=c['note'],
            technique=c['technique']))
    na = [dict(property_id=p, reason=NOT_YET.get(p, 'check not built yet (build in progress; see DESIGN.md section 8 for the order)'))
          for p in ALL if p not in CLAIMS]
    m = dict(
        version=1,
        setup_cmd='cd /verif && python3-vt -c "import z3, sys; sys.path.insert(0, \'/verif\'); import pyvc.interp, spec.iso"',
        hooks=dict(guard='SEGNO_VERIF',
                   enable='none needed: contracts are sidecar files under /verif/contracts, /repo is not instrumented (guard unused)',
                   baseline_off_cmd='cd /repo && /venv/bin/python -m pytest -ra -q -p no:cacheprovider --timeout=900 --continue-on-collection-errors',
                   source_commits=[], add_only=True),
        engines=[dict(name='pyvc', path='/verif/pyvc', serves_properties=sorted(CLAIMS),
                      kind_free_text='self-built deductive verifier for Python: ast symbolic interpreter over the real segno '
                                     'functions (re-read from /repo each run), sidecar contracts, VCs discharged by z3 (smt), '
                                     'exhaustive ground lemmas, concrete-control/symbolic-data execution (cc-sym), GF(256) linear forms (gf-lin)')],
        checks=checks,
        notes='Exit codes of ./check: 0 held, 1 violation (replayed natively; replay file under evidence/replay), 2 undecided, 3 checker broken. '
              'fix: commits in /repo are listed in known_findings.json as fixed entries.',
        not_applicable=na)
    with open('/verif/MANIFEST.json', 'w') as f:
        json.dump(m, f, indent=1)


if __name__ == '__main__':
    main()
