#!/bin/bash
# verifies the round-4 seeded changes of one property (/tmp/seed4-Cnn/_seed/{1,2}) and stores them as seeded/Cnn-{8,9}
p=$1
for k in 1 2; do
  d=/tmp/seed4-$p/_seed/$k
  [ -f $d/patch.diff ] || { echo "$p-$((k+7)): missing"; continue; }
  /verif/tools_seed.sh verify $d $p-$((k+7)) 2>&1 | tail -1
done
