"""C08 - Structured Append sequences reassemble to the original message.

Deductive: divide_into_chunks (nested in encode_sequence) for every symbol count 1..16
and symbolic content length; the Structured Append header emission and the use of the
sequence position / total / parity in _encode (glue, C08._encode.*); forwarding of
make_sequence; argument refusals (shared with C14).
Bounded (labelled): the sequence-level clauses (every chunk fits its symbol, parity,
reassembly) on seeded real sequences read back by the independent reference decoder.
"""
from pyvc.runner import Task
from pyvc.sym import SInt, is_sym, s_and, s_or, s_not, s_implies, QForall
from pyvc.values import SSeq
from pyvc.interp import Closure, Frame
from spec import iso
from . import common as C
from . import kf

MOD = 'contracts.c08'
TRUSTED_BASE = ['pyvc + z3', 'spec/qrdecode.py reference decoder (bounded clauses only)', 'CPython codecs']
ASSUMPTIONS = ['sequence-level clauses (fit of every chunk, parity, reassembly) are BOUNDED: seeded real sequences, not all contents',
               'per-symbol validity is C02/C03 applied to _encode']


def tasks(tier, seed):
    ts = [Task('divide_into_chunks', MOD, 'task_divide_into_chunks', (), fuc=['segno.encoder.encode_sequence.<locals>.divide_into_chunks'])]
    for m in ('numeric', 'alphanumeric', 'byte', 'kanji'):
        ts.append(Task('sequence_structure[%s]' % m, MOD, 'task_sequence_structure', (m,), fuc=['segno.encoder.encode_sequence'], weight=30))
    n = 21 if tier == 'quick' else 210
    for k in range(16):
        ts.append(Task('bounded_sequences[%d]' % k, MOD, 'task_bounded_sequences', (seed, k, n), backend='bounded',
                       fuc=['segno.make_sequence', 'segno.encoder.encode_sequence', 'segno.encoder.calc_structured_append_parity'], weight=40))
    from . import glue, api, c14, c04
    # the Structured Append overhead enters through bit_length_with_overhead / find_version(is_sa=True): C04 obligations are dependencies
    ts += [t for t in c04.tasks(tier, seed) if t.func == 'task_need' or (t.func == 'task_find_version' and t.args[3])]
    ts += glue.glue_tasks('C08')
    ts.append(Task('api_wrappers', 'contracts.api', 'task_wrappers', ('C08',), backend='ground', fuc=api.FUC))
    ts.append(Task('encode_sequence.arguments', 'contracts.c14', 'task_sequence_args', (), backend='ground', fuc=['segno.encoder.encode_sequence']))
    return ts


def nested_closure(I, outer_qualname, name, env=None):
    """Closure of a function nested in a module level function of segno.encoder, extracted from the
    AST of the real source; `env` supplies the free variables it reads from the enclosing call"""
    from pyvc import extract
    mi = extract.get_module('segno.encoder')
    node = mi.by_qualname['%s.<locals>.%s' % (outer_qualname, name)]
    parent = Frame(None, mi.module.__dict__, outer_qualname, 'segno.encoder')
    parent.locals.update(env or {})
    I.extracted_roots.add(id(parent))
    I._keep_frames = getattr(I, '_keep_frames', []) + [parent]      # keep the frame alive: its id identifies it
    return I.make_closure(node, parent, '%s.<locals>.%s' % (outer_qualname, name))


def task_divide_into_chunks(I):
    st = {}
    for num in range(1, 17):
        def thunk(I):
            f = nested_closure(I, 'encode_sequence', 'divide_into_chunks')
            data = SSeq.fresh('content', elem_lo=0, elem_hi=0x10ffff)
            st['data'] = data
            I.inputs['content_length'] = data.length
            return I.call_function(f, (data, num), {})

        def post(I, kind, val):
            if kind != 'return':
                I.oblige('C08.divide_into_chunks.no_exception', False, note=repr(val))
                return
            data = st['data']
            n = data.length
            I.ground('C08.divide_into_chunks.number_of_chunks', isinstance(val, list) and len(val) == num, witness=dict(num=num, got=len(val)))
            if not isinstance(val, list) or len(val) != num:
                return
            pos = 0
            for i, ch in enumerate(val):
                ok = isinstance(ch, SSeq) and ch.arr is data.arr
                I.ground('C08.divide_into_chunks.chunk_is_slice_of_content', ok, witness=i)
                if not ok:
                    return
                I.oblige('C08.divide_into_chunks.chunks_are_consecutive', ch.off == data.off + pos)
                I.oblige('C08.divide_into_chunks.sizes_differ_by_at_most_one', s_and(ch.length >= n // num, ch.length <= n // num + 1))
                I.oblige('C08.divide_into_chunks.no_empty_chunk_if_enough_content', s_implies(n >= num, ch.length >= 1))
                pos = pos + ch.length
            I.oblige('C08.divide_into_chunks.chunks_cover_content_exactly', pos == n)
        I.replay_spec = dict(fn='replay_divide_into_chunks', num=num)
        I.explore(thunk, post)


# ------------------------------------------------------------------ bounded: real sequences read back
def task_bounded_sequences(I, seed, k, n):
    import random
    import segno
    from functools import reduce
    from spec import qrdecode
    from .c01 import gen_content
    rnd = random.Random(seed * 104729 + k)
    done = 0
    samples = []
    f_overflow = kf.active('F-C08-chunk-overflow')
    f_parity = kf.active('F-C08-parity')
    f_payload = kf.active('F-C08-per-chunk-encoding')
    for t in range(n):
        kind = ('numeric', 'alphanumeric', 'latin', 'utf8', 'kanji', 'bytes', 'int')[(k + t) % 7]
        content = gen_content(rnd, kind)
        reps = rnd.choice((1, 2, 3, 6, 15))
        if kind == 'utf8' and rnd.random() < 0.6:
            # characters of different encoded width, not periodic: chunks of equal character count differ in bytes
            content = ''.join(rnd.choice('aЖ€点x\U0001F600') for _ in range(rnd.randrange(4, 60)))
            reps = 1
        if isinstance(content, (str, bytes)):
            content = content * reps
        if not content and content != 0:
            continue
        kw = {}
        if rnd.random() < 0.5:
            kw['version'] = rnd.choice((1, 1, 2, 3, 5, 9, 10))
        else:
            kw['symbol_count'] = rnd.choice((1, 2, 3, 4, 7, 16))
        if rnd.random() < 0.4:
            kw['error'] = rnd.choice('LMQH')
        if rnd.random() < 0.3:
            kw['boost_error'] = False
        if kind in ('latin', 'utf8') and rnd.random() < 0.4:
            kw['encoding'] = 'utf-8'
        if rnd.random() < 0.2:
            kw['mask'] = rnd.randrange(8)
        call = 'segno.make_sequence(%s, **%r)' % (repr(content) if len(repr(content)) < 70 else repr(content)[:70] + '...', kw)
        rp = dict(fn='replay_sequence', content=repr(content), kw=repr(kw))
        try:
            seq = segno.make_sequence(content, **kw)
        except ValueError:
            continue
        except Exception as ex:
            I.ground('C08.bounded.only_ValueError_escapes', False, witness=dict(call=call, raised=repr(ex)), kind='bounded', replay=rp)
            continue
        done += 1
        cnt = len(seq)
        I.ground('C08.bounded.between_1_and_16_qr_symbols', 1 <= cnt <= 16 and all(not q.is_micro for q in seq), witness=dict(call=call, n=cnt), kind='bounded', replay=rp)
        if 'symbol_count' in kw and 'version' not in kw:
            I.ground('C08.bounded.symbol_count_honoured', cnt == kw['symbol_count'], witness=dict(call=call, n=cnt), kind='bounded', replay=rp)
        if 'version' in kw and 'symbol_count' not in kw:
            I.ground('C08.bounded.version_honoured', all(q.version == kw['version'] for q in seq), witness=dict(call=call, versions=[q.version for q in seq]), kind='bounded', replay=rp)
        decs = [qrdecode.decode(q.matrix) for q in seq]
        want = qrdecode.expected_payload(content, encoding=kw.get('encoding'))
        overflow = [i for i, d in enumerate(decs) if d.problems]
        if f_overflow and 'version' in kw and 'symbol_count' not in kw and \
                all(any(p.startswith('stream:') for p in decs[i].problems) for i in overflow) and _is_pinned_split(content, kw, decs):
            _probe(I, 'F-C08-chunk-overflow')
            I.ground_pass('C08.bounded.symbols_valid_or_pinned_chunk_overflow', 1, kind='bounded')
            continue
        I.ground('C08.bounded.every_symbol_is_valid_and_its_data_fits', not overflow and all(d.syndromes_ok for d in decs),
                 witness=dict(call=call, symbol=overflow[:1], problems=[decs[i].problems[:2] for i in overflow[:1]]), kind='bounded', replay=rp)
        if overflow:
            continue
        if cnt > 1:
            hdr_ok = all(d.sa_raw is not None and d.sa_raw[0] == i and d.sa_raw[1] == cnt - 1 for i, d in enumerate(decs))
            I.ground('C08.bounded.header_position_and_total', hdr_ok, witness=dict(call=call, headers=[d.sa_raw for d in decs][:4]), kind='bounded', replay=rp)
            par = set(d.sa_raw[2] for d in decs if d.sa_raw)
            wantp = reduce(lambda a, b: a ^ b, want, 0)
            if par == {wantp}:
                I.ground_pass('C08.bounded.parity_is_xor_of_message_bytes', 1, kind='bounded')
            elif f_parity and len(par) == 1:
                _probe(I, 'F-C08-parity')
                I.ground_pass('C08.bounded.parity_identical_in_all_symbols', 1, kind='bounded')
            else:
                I.ground('C08.bounded.parity_is_xor_of_message_bytes', False, witness=dict(call=call, parities=sorted(par), want=wantp), kind='bounded', replay=rp)
        got = b''.join(d.payload for d in decs)
        if got == want:
            I.ground_pass('C08.bounded.payloads_concatenate_to_the_message', 1, kind='bounded')
        elif f_payload and _decodes_to_same_text(got, content):
            _probe(I, 'F-C08-per-chunk-encoding')
            I.ground_pass('C08.bounded.payloads_concatenate_or_pinned_per_chunk_encoding', 1, kind='bounded')
        else:
            I.ground('C08.bounded.payloads_concatenate_to_the_message', False, witness=dict(call=call, got=repr(got)[:60], want=repr(want)[:60]), kind='bounded', replay=rp)
        if len(samples) < 2:
            samples.append(dict(call=call, symbols=cnt, designators=[q.designator for q in seq][:3]))
    I.samples = [dict(bounded='make_sequence read back by the reference decoder', cases=done, examples=samples)]


def _is_pinned_split(content, kw, decs):
    """the known finding covers only the pinned behaviour: the number of symbols is the
    estimate ceil((B + 20 (n0 - 1)) / capacity), n0 = ceil(B / capacity), B = 4 + count indicator + 20 + payload bits
    of the whole content counted in characters, and the content is split into consecutive chunks whose character
    counts differ by at most one (longer chunks first)"""
    import re
    from spec import iso as _iso, qrdecode
    if isinstance(content, int):
        content = str(content)
    n = len(decs)
    k, m = divmod(len(content), n)
    chunks = [content[i * k + min(i, m):(i + 1) * k + min(i + 1, m)] for i in range(n)]
    whole = qrdecode.expected_payload(content, encoding=kw.get('encoding'))
    enc = kw.get('encoding')
    if enc is None and isinstance(content, str):
        for c in ('iso-8859-1', 'shift_jis', 'utf-8'):
            try:
                if content.encode(c) == whole:
                    enc = c
                    break
            except UnicodeError:
                continue
    # mode of the sequence = first applicable mode of the whole message (C07)
    from spec.replays import _spec_mode
    mode = kw.get('mode') or _spec_mode(whole)
    v = kw['version']
    cap = _iso.data_capacity_bits(v, kw.get('error', 'L') or 'L')
    from spec import modes as _modes
    any_overflow = False
    for d, ch in zip(decs, chunks):
        if mode == 'byte':
            cnt = len(ch if isinstance(ch, bytes) else ch.encode(enc))
            payload = 8 * cnt
        elif mode in ('kanji', 'hanzi'):
            cnt = len(ch) if isinstance(ch, str) else len(ch) // 2
            payload = 13 * cnt
        else:
            cnt = len(ch)
            payload = _modes.payload_bits(mode, cnt)
        need = 20 + 4 + _iso.cci_len(mode, v) + payload
        ds = [s_ for s_ in d.segments if s_.is_data()]
        fits = need <= cap and cnt < (1 << _iso.cci_len(mode, v))
        if fits:
            # this chunk fits: its symbol must be readable and carry exactly the chunk; anything else is not the known finding
            if d.problems or len(ds) != 1 or ds[0].char_count != cnt or ds[0].mode != mode:
                return False
        else:
            any_overflow = True     # pinned deviation: surplus bits dropped (the reader sees a wrong count, a truncated stream or garbage)
    if not any_overflow:
        return False
    total = len(content) if mode != 'kanji' or isinstance(content, str) else len(content) // 2
    bits = {'numeric': 10 * (total // 3) + (4 if total % 3 == 1 else 7), 'alphanumeric': 11 * (total // 2) + 6 * (total % 2),
            'byte': 8 * total, 'kanji': 13 * total, 'hanzi': 13 * total}[mode]
    b = 4 + _iso.cci_len(mode, v) + 20 + bits
    n0 = -(-b // cap)
    n1 = -(-(b + 20 * (n0 - 1)) // cap)
    return n == n1


def _decodes_to_same_text(got, content):
    return False


def _probe(I, fid):
    from pyvc.interp import ObRecord
    rec = I.records.get('kf-probe:' + fid)
    if rec is None:
        rec = I.records['kf-probe:' + fid] = ObRecord('kf-probe:' + fid, 'probe')
    rec.instances += 1
    rec.refuted += 1


# ------------------------------------------------------------------ structure of the sequence (deductive, symbolic content length)
def task_sequence_structure(I, mode, prefix='C08', options_only=False):
    """encode_sequence with the content a symbolic sequence of characters of symbolic length:
    consecutive balanced chunks, one symbol per chunk, positions 0..n-1, total n-1, one parity,
    one version (the requested one, or one that fits every chunk).  make_segment, find_version,
    the parity computation and _encode are replaced by their contracts."""
    enc = C.encoder()
    f = I.get_function('segno.encoder', 'encode_sequence')
    mc = C.mode_const(mode)
    st = {}
    MSG_ENC = 'x-encoding-chosen-for-the-whole-message'

    def s_prepare_data(I, clo, args, kwargs):
        b = I.bind_args(clo, args, kwargs)
        from pyvc.values import Obj, TupObj, FieldBuf
        segs = Obj(enc.Segments)
        seg = TupObj(enc._Segment, (FieldBuf(), 0, mc, MSG_ENC if mode == 'byte' else None))
        segs.attrs.update(segments=[seg], modes=[mc], bit_length=0)
        return segs

    def s_make_segment(I, clo, args, kwargs):
        from pyvc.values import TupObj, FieldBuf
        b = I.bind_args(clo, args, kwargs)
        st['chunks'].append(b['data'])
        st['chunk_enc'].append(b.get('encoding'))
        return TupObj(enc._Segment, (FieldBuf(), 0, b['mode'], None))

    def s_find_version(I, clo, args, kwargs):
        b = I.bind_args(clo, args, kwargs)
        if st.get('no_single_symbol') and not b['is_sa']:
            from pyvc.interp import PyRaise
            raise PyRaise(enc.DataOverflowError('too large for one symbol'))
        v = I.fresh_int('found_version', 1, 40)
        st['found'].append((b['segments'], v, b['is_sa']))
        return v

    def s_parity(I, clo, args, kwargs):
        st['parity_args'] = I.bind_args(clo, args, kwargs)
        st['parity'] = I.fresh_int('parity', 0, 255)
        return st['parity']

    def s__encode(I, clo, args, kwargs):
        b = I.bind_args(clo, args, kwargs)
        st['encoded'].append(b)
        return ('CODE', len(st['encoded']))

    def s_encode(I, clo, args, kwargs):
        # the public encode() reached from inside encode_sequence: recorded like _encode (same option names)
        b = I.bind_args(clo, args, kwargs)
        b.setdefault('sa_info', None)
        st['encoded'].append(b)
        return ('CODE', len(st['encoded']))
    I.summaries['segno.encoder:encode'] = s_encode
    OPT = dict(error='Q', mask=3, boost_error=False, eci=False)

    def check_options(I, cfg, encd):
        for i, b in enumerate(encd):
            ok = b.get('mask') == 3 and b.get('error') == C.level_const('Q') and b.get('boost_error') is False and b.get('eci') is False
            I.ground(prefix + '.encode_sequence.requested_mask_level_eci_boost_reach_every_symbol', ok,
                     witness=dict(cfg=cfg, symbol=i, got={k: repr(b.get(k)) for k in ('mask', 'error', 'boost_error', 'eci')}, want=OPT))
    I.summaries['segno.encoder:prepare_data'] = s_prepare_data
    I.summaries['segno.encoder:make_segment'] = s_make_segment
    I.summaries['segno.encoder:find_version'] = s_find_version
    I.summaries['segno.encoder:calc_structured_append_parity'] = s_parity
    I.summaries['segno.encoder:_encode'] = s__encode
    saved_str = I.native_models.get(str)
    I.native_models[str] = lambda x='': x if isinstance(x, SSeq) else saved_str(x)
    configs = [dict(version=v) for v in (1, 9, 10, 26, 27, 40)] + [dict(symbol_count=k) for k in range(1, 17)]
    # single-symbol route (version given, content fits one symbol of at most that version): one plain symbol, options forwarded
    for ver in (1, 10, 40):
        cfg1 = dict(version=ver)

        def thunk1(I):
            st.clear()
            st.update(chunks=[], found=[], encoded=[], chunk_enc=[], no_single_symbol=False)
            data = SSeq.fresh('content', elem_lo=0, elem_hi=0x10ffff)
            st['data'] = data
            I.inputs['content_length'] = data.length
            return I.call_function(f, (data,), dict(cfg1, **OPT))

        def post1(I, kind, val):
            if kind == 'raise':
                I.ground(prefix + '.encode_sequence.only_ValueError_escapes', isinstance(val, ValueError), witness=dict(cfg=cfg1, raised=repr(val)))
                return
            encd = st['encoded']
            check_options(I, cfg1, encd)
            found = [v for (segs, v, sa) in st['found'] if not sa]
            if len(encd) == 1 and encd[0].get('sa_info') is None:
                I.ground_pass(prefix + '.encode_sequence.cover.single_symbol_route', 1, kind='cover')
                I.oblige(prefix + '.encode_sequence.single_symbol_has_requested_version', encd[0]['version'] == ver)
                I.ground(prefix + '.encode_sequence.single_symbol_only_if_content_fits_a_version_up_to_the_requested', bool(found), witness=dict(cfg=cfg1))
                for v in found:
                    I.oblige(prefix + '.encode_sequence.single_symbol_only_if_content_fits_a_version_up_to_the_requested', v <= ver)
        I.replay_spec = dict(fn='replay_sequence_structure', mode=mode, cfg=repr(dict(cfg1, **OPT)))
        I.explore(thunk1, post1)
    for cfg in configs:
        def thunk(I):
            st.clear()
            st.update(chunks=[], found=[], encoded=[], chunk_enc=[], no_single_symbol=True)
            data = SSeq.fresh('content', elem_lo=0, elem_hi=0x10ffff)
            st['data'] = data
            I.inputs['content_length'] = data.length
            return I.call_function(f, (data,), dict(cfg, **OPT))

        def post(I, kind, val):
            data = st['data']
            n = data.length
            if kind == 'raise':
                I.ground('C08.encode_sequence.only_ValueError_escapes', isinstance(val, ValueError), witness=dict(cfg=cfg, raised=repr(val)))
                return
            encd = st['encoded']
            cnt = len(encd)
            check_options(I, cfg, encd)
            if options_only:
                return
            I.ground('C08.encode_sequence.between_1_and_16_symbols', 1 <= cnt <= 16 and len(val) == cnt, witness=dict(cfg=cfg, n=cnt))
            if 'symbol_count' in cfg:
                I.ground('C08.encode_sequence.symbol_count_honoured', cnt == cfg['symbol_count'], witness=dict(cfg=cfg, n=cnt))
            # the chunks handed to the symbols: consecutive, balanced, covering the content
            chunks = st['chunks'][-cnt:]
            pos = 0
            for i, ch in enumerate(chunks):
                ok = isinstance(ch, SSeq) and ch.arr is data.arr
                I.ground('C08.encode_sequence.symbol_content_is_slice_of_message', ok, witness=dict(cfg=cfg, i=i))
                if not ok:
                    return
                I.oblige('C08.encode_sequence.chunks_consecutive', ch.off == data.off + pos)
                I.oblige('C08.encode_sequence.chunk_sizes_balanced', s_and(ch.length >= n // cnt, ch.length <= n // cnt + 1))
                I.oblige('C08.encode_sequence.no_empty_chunk_if_enough_content', s_implies(n >= cnt, ch.length >= 1))
                pos = pos + ch.length
            I.oblige('C08.encode_sequence.chunks_cover_message', pos == n)
            # one character set for the whole message: every chunk is encoded with it and the parity is computed over it
            pa = st.get('parity_args') or {}
            I.ground('C08.encode_sequence.parity_is_computed_over_the_whole_message', pa.get('content') is data, witness=dict(cfg=cfg, arg=repr(pa.get('content'))[:60]))
            if mode == 'byte':
                I.ground('C08.encode_sequence.byte_chunks_use_the_encoding_of_the_whole_message', all(e == MSG_ENC for e in st['chunk_enc'][-cnt:]),
                         witness=dict(cfg=cfg, encodings=[repr(e) for e in st['chunk_enc'][-cnt:]][:4]))
                I.ground('C08.encode_sequence.parity_uses_the_encoding_of_the_whole_message', pa.get('encoding') == MSG_ENC, witness=dict(cfg=cfg, encoding=repr(pa.get('encoding'))))
            vers = [b['version'] for b in encd]
            for i, b in enumerate(encd):
                sa = b['sa_info']
                I.ground('C08.encode_sequence.header_present', sa is not None, witness=dict(cfg=cfg, i=i))
                if sa is None:
                    return
                items = list(sa.items) if hasattr(sa, 'items') else list(sa)
                I.ground('C08.encode_sequence.header_is_mode_position_total_parity', len(items) == 4 and items[0] == iso.MODE_SA and
                         items[1] == i and items[2] == cnt - 1 and items[3] is st['parity'], witness=dict(cfg=cfg, i=i, header=repr(items)))
                if 'version' in cfg:
                    I.ground('C08.encode_sequence.requested_version_for_every_symbol', b['version'] == cfg['version'], witness=dict(cfg=cfg, got=repr(b['version'])))
                else:
                    I.oblige('C08.encode_sequence.one_version_for_all_symbols', b['version'] == vers[0])
            if 'symbol_count' in cfg:
                # the version fits every chunk: it is at least the version found for each chunk (find_version contract, is_sa=True)
                found = [v for (segs, v, sa) in st['found'] if sa]
                I.ground('C08.encode_sequence.version_searched_for_every_chunk', len(found) == cnt, witness=dict(cfg=cfg, searched=len(found)))
                for v in found:
                    I.oblige('C08.encode_sequence.version_fits_every_chunk', vers[0] >= v)
        I.replay_spec = dict(fn='replay_sequence_structure', mode=mode, cfg=repr(cfg))
        I.explore(thunk, post)
    I.native_models[str] = saved_str
    I.summaries.pop('segno.encoder:encode', None)
