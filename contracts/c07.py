"""C07 - most compact applicable mode is chosen; a requested mode is honoured or refused.

Functions under contract: is_kanji (loop invariant), is_alphanumeric (+ the real compiled
_ALPHANUMERIC_PATTERN, semantics read from its parse tree), find_mode, make_segment
(applicability part, all five packing loops cut at loop contracts), normalize_mode,
is_mode_supported, encode (mode / version compatibility), QRCode.mode.
Content is a symbolic byte string of symbolic length: every byte string is covered.
"""
import z3
from pyvc.runner import Task
from pyvc.sym import SInt, SBool, is_sym, s_and, s_or, s_not, s_implies, QForall, SQuant, Unsupported
from pyvc.values import SSeq, SIter, Obj, TupObj, VBytearray
from pyvc.interp import LoopSpec, PyRaise
from spec import iso, modes
from . import common as C

MOD = 'contracts.c07'
TRUSTED_BASE = [
    'pyvc interpreter, explicit quantifier instantiation (QForall / SQuant), z3',
    'builtin axioms: bytes.isdigit() <=> non-empty and all bytes in 0x30..0x39; re: ^[set]+\\Z <=> non-empty and all bytes in set (set read from the real compiled pattern by re._parser)',
    'spec/modes.py: ISO 7.4.3-7.4.6 character sets, Shift JIS / GB2312 double-byte validity',
    'str -> bytes through CPython codecs is uninterpreted (data_to_bytes returns an arbitrary byte string)',
]
ASSUMPTIONS = ['content bytes are arbitrary (symbolic array, symbolic length)']


# native stand-ins for obligations that are no longer generated (see pyvc/runner.py): by obligation-name prefix
STANDIN_REPLAY = [('C07.is_kanji.', dict(fn='replay_is_kanji')), ('is_kanji.', dict(fn='replay_is_kanji')),
                  ('C07.is_alphanumeric.', dict(fn='replay_is_alphanumeric')), ('is_alphanumeric.', dict(fn='replay_is_alphanumeric')),
                  ('C07.find_mode.', dict(fn='replay_find_mode')), ('find_mode.', dict(fn='replay_find_mode'))]


def tasks(tier, seed):
    ts = [Task('alnum_set', MOD, 'task_alnum_set', (), backend='ground', fuc=['segno.encoder._ALPHANUMERIC_PATTERN', 'segno.consts.ALPHANUMERIC_CHARS']),
          Task('is_kanji', MOD, 'task_is_kanji', (), fuc=['segno.encoder.is_kanji']),
          Task('is_alphanumeric', MOD, 'task_is_alphanumeric', (), fuc=['segno.encoder.is_alphanumeric']),
          Task('find_mode', MOD, 'task_find_mode', (), fuc=['segno.encoder.find_mode'])]
    for m in (None,) + iso.MODES:
        ts.append(Task('make_segment[mode=%s]' % m, MOD, 'task_make_segment', (m,), fuc=['segno.encoder.make_segment'], weight=5))
    ts.append(Task('normalize_mode', MOD, 'task_normalize_mode', (), backend='ground',
                   fuc=['segno.encoder.normalize_mode', 'segno.encoder.is_mode_supported', 'segno.encoder.get_mode_name']))
    ts.append(Task('encode.mode_version', MOD, 'task_encode_mode_version', (), backend='ground', fuc=['segno.encoder.encode']))
    return ts


def task_alnum_set(I):
    from pyvc.interp import charclass_of_pattern
    enc = C.encoder()
    cls = charclass_of_pattern(enc._ALPHANUMERIC_PATTERN)
    I.ground('C07.alphanumeric_pattern.is_the_45_ISO_characters', cls['set'] == set(modes.ALNUM45) and cls['min'] == 1,
             witness=dict(extra=sorted(cls['set'] - set(modes.ALNUM45)), missing=sorted(set(modes.ALNUM45) - cls['set']), min=cls['min']),
             replay=dict(fn='replay_alnum_set'))
    I.ground('C07.ALPHANUMERIC_CHARS.table_order', bytes(C.consts().ALPHANUMERIC_CHARS) == modes.ALNUM45,
             witness=repr(C.consts().ALPHANUMERIC_CHARS), replay=dict(fn='replay_alnum_set'))


# ------------------------------------------------------------------ is_kanji
def _pair(data, g):
    return data.raw_abs(data.off + 2 * g), data.raw_abs(data.off + 2 * g + 1)


def kanji_valid_all(data):
    """QForall: every double byte of data is a valid Shift JIS kanji"""
    n = data.length
    return QForall(lambda g: s_implies(s_and(g >= 0, 2 * g + 1 < n), modes.sjis_pair_valid(*_pair(data, g))), 'kanji_pairs')


def task_is_kanji(I):
    f = I.get_function('segno.encoder', 'is_kanji')
    st = {}

    def inv(ctx):
        k = ctx.k
        data = st['data']
        # the invariant is about the abstraction (pairs checked so far); an explicit iterator, if the body uses one, is tied to it
        its = [v for v in ctx.L.values() if isinstance(v, SIter) and v.seq is data]
        return [('iterator_position', s_and(*[it.pos == 2 * k for it in its]) if its else True),
                ('pairs_so_far_are_valid_kanji', QForall(lambda g: s_implies(s_and(g >= 0, g < k), modes.sjis_pair_valid(*_pair(data, g))), 'inv_pairs'))]

    def havoc(ctx):
        for v in ctx.L.values():
            if isinstance(v, SIter) and v.seq is st['data']:
                v.pos = ctx.interp.fresh_int('it_pos', 0, None)
    I.loopspecs[('segno.encoder:is_kanji', 1)] = LoopSpec(inv, havoc)

    def thunk(I):
        data = SSeq.fresh('data')
        st['data'] = data
        I.inputs['data'] = data
        return I.call_function(f, (data,), {})

    def post(I, kind, val):
        data = st['data']
        n = data.length
        if kind != 'return':
            I.oblige('C07.is_kanji.no_exception', False, note='raised %r' % (val,))
            return
        if is_sym(val):
            I.oblige('C07.is_kanji.returns_bool', False, note=repr(val))
            return
        if val:
            I.oblige('C07.is_kanji.true_only_if_nonempty_even', s_and(n > 0, n % 2 == 0))
            I.oblige('C07.is_kanji.true_only_if_every_pair_is_valid_shift_jis_kanji', kanji_valid_all(data))
        else:
            k = I.loop_k.get(('segno.encoder:is_kanji', 1), 0)
            bad_pair = s_and(k >= 0, 2 * k + 1 < n, s_not(modes.sjis_pair_valid(*_pair(data, k))))
            I.oblige('C07.is_kanji.false_only_if_empty_odd_or_some_pair_invalid', s_or(n == 0, n % 2 == 1, bad_pair))
    I.replay_spec = dict(fn='replay_is_kanji')
    I.explore(thunk, post)


def task_is_alphanumeric(I):
    f = I.get_function('segno.encoder', 'is_alphanumeric')
    st = {}

    def thunk(I):
        data = SSeq.fresh('data')
        st['data'] = data
        I.inputs['data'] = data
        r = I.call_function(f, (data,), {})
        return I.truth(r)

    def post(I, kind, val):
        data = st['data']
        if kind != 'return':
            I.oblige('C07.is_alphanumeric.no_exception', False, note=repr(val))
            return
        if val:
            I.oblige('C07.is_alphanumeric.true_only_if_nonempty', data.length > 0)
            I.oblige('C07.is_alphanumeric.true_only_if_all_in_45_set', data.forall_elems(modes.in_alnum45, 'alnum'))
        else:
            w = I.quant_witness.get('regex')
            ok = (data.length == 0) if w is None else s_and(w >= 0, w < data.length, s_not(modes.in_alnum45(data.raw_abs(data.off + w))))
            I.oblige('C07.is_alphanumeric.false_only_if_empty_or_some_char_outside', ok)
    I.replay_spec = dict(fn='replay_is_alphanumeric')
    I.explore(thunk, post)


# ------------------------------------------------------------------ contracts used at call sites
def summary_is_kanji(I, clo, args, kwargs):
    """contract of is_kanji (C07.is_kanji.*): True iff non-empty, even, all pairs valid kanji"""
    data = args[0]
    n = data.length
    res = {}

    def yes():
        I.assume(n > 0)
        I.assume(n % 2 == 0)
        I.assume(kanji_valid_all(data))

    def no_shape():
        I.assume(s_or(n == 0, n % 2 == 1))

    def no_pair():
        I.assume(n > 0)
        I.assume(n % 2 == 0)
        w = I.fresh_int('w_kanji', 0, None)
        I.assume(2 * w + 1 < n)
        I.assume(s_not(modes.sjis_pair_valid(*_pair(data, w))))
        I.add_index_term(w)
        I.quant_witness['kanji'] = w
    c = I.choose([yes, no_shape, no_pair])
    I.quant_log.append(('is_kanji', ('holds', 'empty', 'fails')[c]))
    return c == 0


MODE_FACTS = {}


def summary_find_mode(I, clo, args, kwargs):
    """contract of find_mode (C07.find_mode.*): first applicable of numeric, alphanumeric, kanji, byte"""
    data = args[0]
    n = data.length
    isd = lambda p: modes.is_digit(data.raw_abs(p))

    def numeric():
        I.assume(n > 0)
        I.assume(data.forall_elems(modes.is_digit, 'digits'))

    def alnum():
        I.assume(n > 0)
        I.assume(data.forall_elems(modes.in_alnum45, 'alnum'))
        w = I.fresh_int('w_nondigit', 0, None)
        I.assume(w < n)
        I.assume(s_not(modes.is_digit(data.raw_abs(data.off + w))))
        I.add_index_term(data.off + w)

    def kanji():
        I.assume(n > 0)
        I.assume(n % 2 == 0)
        I.assume(kanji_valid_all(data))

    def byte():
        # not numeric, not alphanumeric, not kanji: a witness for each
        e = I.fresh_int('w_nonalnum', 0, None)
        I.assume(s_or(n == 0, s_and(e < n, s_not(modes.in_alnum45(data.raw_abs(data.off + e))))))
        I.add_index_term(data.off + e)
        g = I.fresh_int('w_nonkanji', 0, None)
        I.assume(s_or(n == 0, n % 2 == 1, s_and(2 * g + 1 < n, s_not(modes.sjis_pair_valid(*_pair(data, g))))))
        I.add_index_term(g)
        I.quant_witness['nonkanji'] = g
    c = I.choose([numeric, alnum, kanji, byte])
    I.quant_log.append(('find_mode', c))
    return (C.mode_const('numeric'), C.mode_const('alphanumeric'), C.mode_const('kanji'), C.mode_const('byte'))[c]


def task_find_mode(I):
    """find_mode against the three predicate contracts (isdigit axiom, is_alphanumeric, is_kanji)"""
    f = I.get_function('segno.encoder', 'find_mode')
    st = {}
    I.summaries['segno.encoder:is_kanji'] = summary_is_kanji

    def thunk(I):
        data = SSeq.fresh('data')
        st['data'] = data
        I.inputs['data'] = data
        return I.call_function(f, (data,), {})

    def post(I, kind, val):
        data = st['data']
        n = data.length
        if kind != 'return':
            I.oblige('C07.find_mode.no_exception', False, note=repr(val))
            return
        log = dict(I.quant_log)
        num = log.get('isdigit') == 'holds'
        aln = log.get('regex') == 'holds'
        kan = log.get('is_kanji') == 'holds'
        want = 'numeric' if num else ('alphanumeric' if aln else ('kanji' if kan else 'byte'))
        # the predicates that were evaluated are exactly the ones the property orders: digits, then the 45 set, then kanji
        order = [nme for nme, _ in I.quant_log]
        I.ground('C07.find_mode.predicates_in_property_order', order == ['isdigit', 'regex', 'is_kanji'][:len(order)], witness=order)
        I.ground('C07.find_mode.first_applicable_mode', (not is_sym(val)) and val == C.mode_const(want),
                 witness=dict(outcomes=I.quant_log, got=repr(val), want=want))
        I.ground('C07.find_mode.never_hanzi', (not is_sym(val)) and val != C.mode_const('hanzi'), witness=repr(val))
    I.replay_spec = dict(fn='replay_find_mode')
    I.explore(thunk, post)
    del I.summaries['segno.encoder:is_kanji']


# ------------------------------------------------------------------ make_segment: applicability of a requested mode
def task_make_segment(I, mode):
    enc = C.encoder()
    f = I.get_function('segno.encoder', 'make_segment')
    st = {}

    def s_data_to_bytes(I, clo, args, kwargs):
        b = I.bind_args(clo, args, kwargs)
        st['encoding_arg'] = b['encoding']
        data = SSeq.fresh('data')
        st['data'] = data
        I.inputs['data'] = data
        return data, data.length, (b['encoding'] or 'iso-8859-1')

    def s_buffer_init(I, clo, args, kwargs):
        return None

    def s_append_bits(I, clo, args, kwargs):
        b = I.bind_args(clo, args, kwargs)
        st.setdefault('appended', []).append((b['val'], b['length']))
        return None

    def s_getbits(I, clo, args, kwargs):
        return 'BITS'
    I.summaries['segno.encoder:data_to_bytes'] = s_data_to_bytes
    I.summaries['segno.encoder:find_mode'] = summary_find_mode
    I.summaries['segno.encoder:Buffer.__init__'] = s_buffer_init
    I.summaries['segno.encoder:Buffer.append_bits'] = s_append_bits
    I.summaries['segno.encoder:Buffer.getbits'] = s_getbits
    # loop contracts of the five packing loops (ordinals in source order: numeric, alphanumeric, byte, hanzi, kanji)
    loops = __import__('pyvc.extract', fromlist=['loops_of']).loops_of(f.node)
    if len(loops) != 5:
        raise Unsupported('loop contracts do not attach: make_segment has %d loops, the contract is written for the five packing loops' % len(loops))

    def inv_none(ctx):
        return []

    def pair_inv(valid, name):
        def inv(ctx):
            k = ctx.k
            data = st['data']
            n = data.length
            return [(name, QForall(lambda g: s_implies(s_and(g >= 0, g < k), valid(*_pair(data, g))), 'inv_' + name)),
                    ('pairs_so_far_complete', s_implies(k >= 1, 2 * k <= n))]
        return inv
    if len(loops) == 5:
        for o in (1, 2, 3):
            I.loopspecs[('segno.encoder:make_segment', o)] = LoopSpec(inv_none)
        I.loopspecs[('segno.encoder:make_segment', 4)] = LoopSpec(pair_inv(modes.gb2312_pair_valid, 'pairs_so_far_valid_gb2312'))
        I.loopspecs[('segno.encoder:make_segment', 5)] = LoopSpec(pair_inv(modes.sjis_pair_valid, 'pairs_so_far_valid_kanji'))
    mc = None if mode is None else C.mode_const(mode)

    def thunk(I):
        st.clear()
        return I.call_function(f, ('<content>', mc), {})

    def post(I, kind, val):
        data = st.get('data')
        if data is None:
            I.oblige('C07.make_segment.reaches_data', False, note='%s %r' % (kind, val))
            return
        n = data.length
        fm = dict(I.quant_log).get('find_mode')      # 0 numeric, 1 alnum, 2 kanji, 3 byte; None if not called (mode byte)
        if kind == 'raise' and not isinstance(val, ValueError):
            I.oblige('C07.make_segment.raises_only_ValueError', False, note='raised %r' % (val,))
            return
        if mode is None:
            # automatic: never refused, mode of the segment is the first applicable one
            I.ground('C07.make_segment.auto_mode_never_refused', kind == 'return', witness=repr(val))
            if kind == 'return':
                want = ('numeric', 'alphanumeric', 'kanji', 'byte')[fm]
                I.ground('C07.make_segment.auto_mode_is_find_mode', val.items[2] == C.mode_const(want), witness=dict(got=val.items[2], want=want))
            return
        if kind == 'return':
            I.ground('C07.make_segment.requested_mode_used_as_given', val.items[2] == mc, witness=dict(got=val.items[2], want=mc))
            cc = val.items[1]
            want_cc = n // 2 if mode in ('kanji', 'hanzi') else n
            I.oblige('C07.make_segment.char_count', cc == want_cc)
            I.ground('C07.make_segment.encoding_only_for_byte', (val.items[3] is None) == (mode != 'byte'), witness=repr(val.items[3]))
        # representable(mode, data) per property C07
        if mode == 'numeric':
            rep_true = lambda: [('nonempty', n > 0), ('all_digits', data.forall_elems(modes.is_digit, 'rep_digits'))]
            accepted_ok = fm == 0
        elif mode == 'alphanumeric':
            rep_true = lambda: [('nonempty', n > 0), ('all_in_45_set', data.forall_elems(modes.in_alnum45, 'rep_alnum'))]
            accepted_ok = fm in (0, 1)
        elif mode == 'byte':
            rep_true = lambda: []
            accepted_ok = True
        elif mode == 'kanji':
            rep_true = lambda: [('even', n % 2 == 0), ('every_pair_valid_shift_jis_kanji', kanji_valid_all(data))]
            accepted_ok = None
        else:
            rep_true = lambda: [('even', n % 2 == 0),
                                ('every_pair_valid_gb2312', QForall(lambda g: s_implies(s_and(g >= 0, 2 * g + 1 < n), modes.gb2312_pair_valid(*_pair(data, g))), 'hanzi_pairs'))]
            accepted_ok = None
        if kind == 'return':
            for nme, c in rep_true():
                I.oblige('C07.make_segment.accepted_only_if_representable.%s.%s' % (mode, nme), c)
        else:
            # refused: the content must not be representable in the requested mode
            if mode in ('numeric', 'alphanumeric'):
                I.ground('C07.make_segment.refused_only_if_not_representable.%s' % mode, not accepted_ok,
                         witness=dict(find_mode_outcome=fm))
            elif mode == 'byte':
                I.ground('C07.make_segment.refused_only_if_not_representable.byte', False, witness=repr(val))
            else:
                key = ('segno.encoder:make_segment', 5 if mode == 'kanji' else 4)
                valid = modes.sjis_pair_valid if mode == 'kanji' else modes.gb2312_pair_valid
                # an invalid pair: the one the packing loop stopped at, the first one (content found to be
                # numeric / alphanumeric), or the witness of the mode detection
                cands = [I.loop_k.get(key, 0), 0] + ([I.quant_witness['nonkanji']] if 'nonkanji' in I.quant_witness else [])
                I.add_index_term(data.off)
                I.add_index_term(data.off + 1)
                I.oblige('C07.make_segment.refused_only_if_not_representable.%s' % mode,
                         s_or(n % 2 == 1, *[s_and(k >= 0, 2 * k + 1 < n, s_not(valid(*_pair(data, k)))) for k in cands]))
    I.replay_spec = dict(fn='replay_make_segment', mode=mode)
    I.explore(thunk, post)


# ------------------------------------------------------------------ ground parts
def task_normalize_mode(I):
    f = I.get_function('segno.encoder', 'normalize_mode')
    g = I.get_function('segno.encoder', 'is_mode_supported')
    for m in iso.MODES:
        for arg in (m, m.upper(), m.capitalize(), C.mode_const(m)):
            res = {}
            I.explore(lambda I: I.call_function(f, (arg,), {}), lambda I, k, v: res.update(kind=k, val=v))
            I.ground('C07.normalize_mode.spellings', res.get('kind') == 'return' and res['val'] == C.mode_const(m), witness=dict(arg=repr(arg), got=repr(res)))
        I.ground('C07.mode_constants_are_ISO_indicators', C.mode_const(m) == iso.MODE_INDICATOR[m], witness=dict(mode=m, got=C.mode_const(m)))
        for v in iso.ALL_VERSIONS:
            res = {}
            I.explore(lambda I: I.call_function(g, (C.mode_const(m), v), {}), lambda I, k, val: res.update(kind=k, val=val))
            I.ground('C07.is_mode_supported.is_ISO_table_2', res.get('kind') == 'return' and bool(res['val']) == iso.mode_available(m, v),
                     witness=dict(mode=m, version=iso.version_name(v), got=repr(res)))
    for arg in ('', 'binary', 'kanij', 0, 3, 5, 7, 99, 'ECI'):
        res = {}
        I.explore(lambda I: I.call_function(f, (arg,), {}), lambda I, k, v: res.update(kind=k, val=v))
        I.ground('C07.normalize_mode.refuses', res.get('kind') == 'raise' and isinstance(res['val'], ValueError), witness=dict(arg=repr(arg), got=repr(res)))


def task_encode_mode_version(I):
    """encode(): a requested mode that the requested version does not support is refused with ValueError"""
    enc = C.encoder()
    f = I.get_function('segno.encoder', 'encode')
    seen = {}

    def s_prepare(I, clo, args, kwargs):
        seen['prepared'] = True
        raise PyRaise(RuntimeError('stop: reached prepare_data'))
    I.summaries['segno.encoder:prepare_data'] = s_prepare
    for m in iso.MODES:
        for v in iso.ALL_VERSIONS:
            res = {}
            seen.clear()
            I.explore(lambda I: I.call_function(f, ('x',), dict(mode=m, version=iso.version_name(v))), lambda I, k, val: res.update(kind=k, val=val))
            if iso.mode_available(m, v):
                I.ground('C07.encode.supported_mode_not_refused_by_version_check', seen.get('prepared') is True, witness=dict(mode=m, version=iso.version_name(v), got=repr(res)))
            else:
                I.ground('C07.encode.mode_not_available_in_version_refused', not seen.get('prepared') and res.get('kind') == 'raise' and
                         isinstance(res['val'], ValueError), witness=dict(mode=m, version=iso.version_name(v), got=repr(res)))
