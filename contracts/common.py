"""Shared helpers for the sidecar contracts: symbolic inputs that respect the
representation invariants of segno's data structures, and the mapping between
the abstract ISO vocabulary of /verif/spec and segno's constants (taken from
the public name tables consts.MODE_MAPPING / ERROR_MAPPING at run time)."""
from pyvc import extract
from pyvc.sym import fresh_int, SInt, s_and
from pyvc.values import Obj, TupObj, CountedList
from spec import iso

extract.ensure_repo_on_path()


def consts():
    return extract.get_module('segno.consts').module


def encoder():
    return extract.get_module('segno.encoder').module


def level_const(name):
    """segno constant of an ISO level name (None stays None)"""
    return None if name is None else consts().ERROR_MAPPING[name]


def level_name(c):
    if c is None:
        return None
    for k, v in consts().ERROR_MAPPING.items():
        if v == c:
            return k
    raise KeyError(c)


def mode_const(name):
    return consts().MODE_MAPPING[name]


def mode_name(c):
    for k, v in consts().MODE_MAPPING.items():
        if v == c:
            return k
    raise KeyError(c)


# ('byte', 'latin1'): an alias spelling of ISO-8859-1. The encoder compares the encoding NAME with 'iso-8859-1'; write_segment writes an
# ECI header (assignment number 3) for every other name (C01.write_segment.*), so the sizing functions have to count one for it as well.
SEG_CLASSES = (('numeric', None), ('alphanumeric', None), ('byte', 'iso-8859-1'),
               ('byte', 'utf-8'), ('byte', 'latin1'), ('kanji', None), ('hanzi', None))
_SUFFIX = {'utf-8': '_noniso', 'latin1': '_alias'}


def abstract_segments(I, modes_present=None, single=False):
    """An abstract `Segments` object satisfying its representation invariant
    (modes == [s.mode for s in segments], bit_length == sum of len(s.bits)):
    the list of segments is abstracted by the multiset of segment classes
    (mode, default-encoding?) with symbolic multiplicities; payload bits symbolic.

    Returns (segments_obj, parts) where parts is the spec-level view."""
    enc = encoder()
    cnt = {}
    reps = {}
    for m, e in SEG_CLASSES:
        c = I.fresh_int('n_%s_%s' % (m, {'utf-8': 'eci', 'latin1': 'alias'}.get(e, 'x')), 0, None)
        cnt[(m, e)] = c
        reps[(m, e)] = TupObj(enc._Segment, (None, None, mode_const(m), e))
        I.inputs['count_%s%s' % (m, _SUFFIX.get(e, ''))] = c
    payload = I.fresh_int('payload', 0, None)
    I.inputs['payload_bits'] = payload
    total = 0
    for c in cnt.values():
        total = total + c
    if single:
        I.assume(total == 1)
    else:
        I.assume(total >= 1)
    # make_segment: a numeric / alphanumeric / kanji part holds at least one
    # character (empty content is byte mode), i.e. >= 4 / 6 / 13 payload bits
    I.assume(payload >= 4 * cnt[('numeric', None)] + 6 * cnt[('alphanumeric', None)] + 13 * cnt[('kanji', None)])
    segs = Obj(enc.Segments)
    segs.attrs['segments'] = CountedList({reps[k]: cnt[k] for k in SEG_CLASSES})
    byte_total = cnt[('byte', 'iso-8859-1')] + cnt[('byte', 'utf-8')] + cnt[('byte', 'latin1')]
    mcount = {mode_const('numeric'): cnt[('numeric', None)],
              mode_const('alphanumeric'): cnt[('alphanumeric', None)],
              mode_const('byte'): byte_total,
              mode_const('kanji'): cnt[('kanji', None)],
              mode_const('hanzi'): cnt[('hanzi', None)]}
    segs.attrs['modes'] = CountedList(mcount)
    segs.attrs['bit_length'] = payload
    parts = iso.Parts({iso.NUMERIC: cnt[('numeric', None)], iso.ALNUM: cnt[('alphanumeric', None)],
                       iso.BYTE: byte_total, iso.KANJI: cnt[('kanji', None)],
                       iso.HANZI: cnt[('hanzi', None)]},
                      cnt[('byte', 'utf-8')] + cnt[('byte', 'latin1')], payload)
    segs.ghost_total = total
    segs.ghost_parts = parts
    return segs, parts


def summary_find_version(I, clo, args, kwargs):
    """Contract of encoder.find_version used at call sites (proved by the
    C04.find_version.* obligations for every (error, eci, micro, is_sa)):
      requires not (eci and micro); segments satisfies its representation invariant
      ensures  result == first version in M1<..<M4<1<..<40 that fits (spec.iso.first_fit)
      raises   DataOverflowError iff nothing fits
      modifies nothing"""
    from pyvc.interp import PyRaise
    b = I.bind_args(clo, args, kwargs)
    segs, error, eci, micro, is_sa = b['segments'], b['error'], b['eci'], b['micro'], b['is_sa']
    I.oblige('find_version.pre.not_eci_and_micro', not (eci and micro), kind='pre')
    parts = segs.ghost_parts
    ff = I.cached_term(('first_fit', level_name(error), bool(eci), micro, bool(is_sa), repr(parts.payload.e), repr([repr(getattr(c, 'e', c)) for c in parts.count.values()])),
                       lambda: iso.first_fit(parts, level_name(error), bool(eci), micro, bool(is_sa)))
    if I.decide(ff == iso.NONE_FITS):
        raise PyRaise(encoder().DataOverflowError('Data too large.'))
    lo, hi = iso.M1, 40
    if isinstance(ff, SInt):
        ff.lo, ff.hi = lo, hi
    return ff
