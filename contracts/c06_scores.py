"""C06 - N1 / N2 / N3 of mask_scores for a matrix of ANY size and content (loop invariants).

Specification.  For a line s of n modules the ISO 7.8.3.1 scores are written as left-to-right folds
(definitional recurrences of uninterpreted functions, instantiated explicitly):

  run(0) = 0        run(t+1)    = run(t)+1 if t>0 and s[t]==s[t-1] else 1            length of the run ending at t
  closed(0) = 0     closed(t+1) = closed(t) + (run(t)-2 if t>0 and s[t]!=s[t-1] and run(t)>=5 else 0)
  N1(s) = closed(n) + (run(n)-2 if run(n)>=5 else 0)                                   3 + (L-5) per maximal run of L >= 5
  cnt(0) = 0        cnt(k+1)    = cnt(k) + (40 if occ(k) else 0)                       N3(s) = cnt(n)
  occ(k) = k+7<=n and s[k..k+7)==1011101 and (four modules - or fewer up to the edge - before k are light
                                               or four modules - or fewer up to the edge - after k+7 are light)
  blk(i,0) = 0      blk(i,t+1)  = blk(i,t) + (3 if i>0 and t>0 and the 2x2 block ending at (i,t) is uniform else 0)
  dk(i,0)  = 0      dk(i,t+1)   = dk(i,t) + B(i,t)
and the matrix totals S1(i+1) = S1(i) + N1(row i) + N1(column i) etc.  `task_fold_spec` validates these folds against the
declarative functions of spec/penalty.py exhaustively on all lines of up to 13 modules and all 4x4 matrices.

Proof.  The two nested loops of the real mask_scores and the while loop of its helper n3_pattern_occurrences are cut at loop
invariants that equate the program variables with the folds; bytearray.find is axiomatised (least match at or after start).
Lemma `no occurrence in [a,b) => cnt(b) == cnt(a)` is proved by induction on b (base and step are obligations; the induction
schema is trusted mathematics).
"""
import itertools
import z3
from pyvc.sym import SInt, s_and, s_or, s_not, s_implies, s_ite, _z, QForall, fresh_name
from pyvc.values import SSeq, SMutSeq, SMatrix, VBytearray
from pyvc.interp import LoopSpec, PathEnd
from spec import penalty
from spec import logic as L

PAT = (1, 0, 1, 1, 1, 0, 1)
KEY_OUTER = ('segno.encoder:mask_scores', 1)
KEY_INNER = ('segno.encoder:mask_scores', 2)
KEY_N3 = ('segno.encoder:mask_scores.<locals>.n3_pattern_occurrences', 1)


# ------------------------------------------------------------------ the folds (polymorphic: ints or pyvc symbols)
def step_run(run_t, t, cur, prev):
    return L.ite(L.land(t > 0, cur == prev), run_t + 1, 1)


def step_closed(closed_t, run_t, t, cur, prev):
    return closed_t + L.ite(L.land(t > 0, L.lnot(cur == prev), run_t >= 5), run_t - 2, 0)


def flush(run_n):
    return L.ite(run_n >= 5, run_n - 2, 0)


def occ(cell, n, k):
    """cell(t) -> module t of the line; occurrence of the finder-like pattern at k that counts"""
    match = L.land(*[cell(k + t) == PAT[t] for t in range(7)])
    before = L.land(*[L.implies(k - d >= 0, cell(k - d) == 0) for d in range(1, 5)])
    after = L.land(*[L.implies(k + 7 + d < n, cell(k + 7 + d) == 0) for d in range(4)])
    return L.land(k + 7 <= n, match, L.lor(before, after))


def step_blk(blk_t, i, t, b, left, up, upleft):
    return blk_t + L.ite(L.land(i > 0, t > 0, b == left, b == up, b == upleft), 3, 0)


# concrete evaluation of the folds (used by the ground validation against spec/penalty.py)
def fold_n1(line):
    n = len(line)
    run, closed = 0, 0
    for t in range(n):
        prev = line[t - 1] if t else None
        closed = step_closed(closed, run, t, line[t], prev)
        run = step_run(run, t, line[t], prev)
    return closed + flush(run)


def fold_n3(line):
    n = len(line)
    cell = lambda t: line[t] if 0 <= t < n else None
    c = 0
    for k in range(n):
        c += 40 if occ(cell, n, k) else 0
    return c


def fold_n2(m):
    n = len(m)
    tot = 0
    for i in range(n):
        blk = 0
        for t in range(n):
            blk = step_blk(blk, i, t, m[i][t], m[i][t - 1] if t else None, m[i - 1][t] if i else None, m[i - 1][t - 1] if i and t else None)
        tot += blk
    return tot


def task_fold_spec(I, lo, hi):
    """spec validation: the folds are the ISO scores of spec/penalty.py (all lines of lo..hi modules; all 4x4 matrices once)"""
    for n in range(lo, hi + 1):
        bad1 = bad3 = None
        for bits in itertools.product((0, 1), repeat=n):
            if fold_n1(bits) != penalty.n1_line(bits):
                bad1 = bits
            if fold_n3(bits) != penalty.n3_line(list(bits)):
                bad3 = bits
        I.ground('C06.fold_spec.N1_fold_is_3_plus_excess_per_maximal_run', bad1 is None, witness=bad1)
        I.ground('C06.fold_spec.N3_fold_is_40_per_counted_occurrence', bad3 is None, witness=bad3)
    if lo <= 4 <= hi or lo == 1:
        bad = None
        for bits in itertools.product((0, 1), repeat=16):
            m = [bits[0:4], bits[4:8], bits[8:12], bits[12:16]]
            if fold_n2(m) != penalty.n2(m):
                bad = m
        I.ground('C06.fold_spec.N2_fold_is_3_per_uniform_2x2_block', bad is None, witness=bad)


# ------------------------------------------------------------------ uninterpreted spec functions
class Spec:
    def __init__(self, I, n, mat):
        self.I, self.n, self.mat = I, n, mat
        Z = z3.IntSort()
        f2 = lambda nm: z3.Function(fresh_name(nm), Z, Z, Z)
        f1 = lambda nm: z3.Function(fresh_name(nm), Z, Z)
        self.f = {nm: f2(nm) for nm in ('runR', 'runC', 'closedR', 'closedC', 'cntR', 'cntC', 'blk', 'dk')}
        self.g = {nm: f1(nm) for nm in ('S1', 'S2', 'S3', 'D')}
        self.done = set()
        for nm in self.g:
            I.assume(self.S(nm, 0) == 0)

    def F(self, nm, i, t):
        return SInt(self.f[nm](_z(i), _z(t)))

    def S(self, nm, i):
        return SInt(self.g[nm](_z(i)))

    def cell(self, X, i):
        m = self.mat
        return (lambda t: m.cell(i, t)) if X == 'R' else (lambda t: m.cell(t, i))

    def n1_line(self, X, i):
        return self.F('closed' + X, i, self.n) + flush(self.F('run' + X, i, self.n))

    # definition instances (assumed; they define the functions)
    def define_line_start(self, i):
        for nm in ('runR', 'runC', 'closedR', 'closedC', 'cntR', 'cntC', 'blk', 'dk'):
            self.I.assume(self.F(nm, i, 0) == 0)

    def define_step(self, i, t):
        """recurrences of run / closed / blk / dk from t to t+1 on row i and column i (t >= 0)"""
        I, m = self.I, self.mat
        for X in ('R', 'C'):
            c = self.cell(X, i)
            run_t, closed_t = self.F('run' + X, i, t), self.F('closed' + X, i, t)
            I.assume(self.F('run' + X, i, t + 1) == step_run(run_t, t, c(t), c(t - 1)))
            I.assume(self.F('closed' + X, i, t + 1) == step_closed(closed_t, run_t, t, c(t), c(t - 1)))
        I.assume(self.F('blk', i, t + 1) == step_blk(self.F('blk', i, t), i, t, m.cell(i, t), m.cell(i, t - 1), m.cell(i - 1, t), m.cell(i - 1, t - 1)))
        I.assume(self.F('dk', i, t + 1) == self.F('dk', i, t) + m.cell(i, t))

    def define_cnt(self, X, i, k):
        self.I.assume(self.F('cnt' + X, i, k + 1) == self.F('cnt' + X, i, k) + s_ite(occ(self.cell(X, i), self.n, k), 40, 0))

    def define_totals(self, i):
        I, n = self.I, self.n
        I.assume(self.S('S1', i + 1) == self.S('S1', i) + self.n1_line('R', i) + self.n1_line('C', i))
        I.assume(self.S('S2', i + 1) == self.S('S2', i) + self.F('blk', i, n))
        I.assume(self.S('S3', i + 1) == self.S('S3', i) + self.F('cntR', i, n) + self.F('cntC', i, n))
        I.assume(self.S('D', i + 1) == self.S('D', i) + self.F('dk', i, n))

    def lemma_no_occurrence(self, X, i, a, b):
        """instance of the (separately proved) lemma: 0 <= a <= b and no counted occurrence in [a, b) => cnt(b) == cnt(a);
        the hypothesis is skolemised: a witness w in [a, b) with occ(w), or the conclusion"""
        I = self.I
        w = I.fresh_int('w_occ', 0, None)
        for d in range(-4, 11):
            I.add_index_term(w + d)
        I.assume(s_implies(s_and(a >= 0, a <= b),
                           s_or(s_and(w >= a, w < b, occ(self.cell(X, i), self.n, w)), self.F('cnt' + X, i, b) == self.F('cnt' + X, i, a))))


def _range_bits(I, mat, n, *cells):
    for r, c in cells:
        v = mat.cell(r, c)
        I.assume(s_implies(s_and(r >= 0, r < n, c >= 0, c < n), s_and(v >= 0, v <= 1)))


# ------------------------------------------------------------------ the loops of mask_scores
def task_mask_scores_loops(I):
    f = I.get_function('segno.encoder', 'mask_scores')
    st = {}

    def sp():
        return st['spec']

    # ---- outer loop over i
    def inv_outer(ctx):
        i, Lc, S = ctx.k, ctx.L, sp()
        return [('score_n1_is_N1_of_rows_and_columns_so_far', Lc['score_n1'] == S.S('S1', i)),
                ('score_n2_is_N2_of_rows_so_far', Lc['score_n2'] == S.S('S2', i)),
                ('score_n3_is_N3_of_rows_and_columns_so_far', Lc['score_n3'] == S.S('S3', i)),
                ('dark_module_counter_counts_rows_so_far', Lc['dark_module_counter'] == S.S('D', i)),
                ('last_row_is_previous_row', _same_row(Lc['last_row'], i, st))]

    def havoc_outer(ctx):
        I_, i = ctx.interp, ctx.k
        ctx.L['last_row'] = None if I_.decide(i == 0) else st['mat'].row(i - 1)
        st['col'].arr = z3.Array(fresh_name('col_h'), z3.IntSort(), z3.IntSort())

    def pre_outer(ctx):
        st['i'] = ctx.k
        sp().define_line_start(ctx.k)
        sp().define_totals(ctx.k)

    def exit_outer(ctx):
        S, n, Lc = sp(), st['n'], ctx.L
        I.oblige('C06.mask_scores.N1_is_3_plus_excess_for_every_run_of_5_or_more_in_rows_and_columns', Lc['score_n1'] == S.S('S1', n))
        I.oblige('C06.mask_scores.N2_is_3_per_uniform_2x2_block', Lc['score_n2'] == S.S('S2', n))
        I.oblige('C06.mask_scores.N3_is_40_per_counted_1011101_occurrence_in_rows_and_columns', Lc['score_n3'] == S.S('S3', n))
        I.oblige('C06.mask_scores.dark_module_counter_is_number_of_dark_modules', Lc['dark_module_counter'] == S.S('D', n))
        reached.append(1)
        raise PathEnd()

    # ---- inner loop over j
    def inv_inner(ctx):
        j, Lc, S, i, mat = ctx.k, ctx.L, sp(), st['i'], st['mat']
        col = st['col']
        return [('row_prev_bit', Lc['row_prev_bit'] == s_ite(j == 0, -1, mat.cell(i, j - 1))),
                ('col_prev_bit', Lc['col_prev_bit'] == s_ite(j == 0, -1, mat.cell(j - 1, i))),
                ('n1_row_counter_is_open_run', Lc['n1_row_counter'] == S.F('runR', i, j)),
                ('n1_col_counter_is_open_run', Lc['n1_col_counter'] == S.F('runC', i, j)),
                ('score_n1_counts_closed_runs', Lc['score_n1'] == S.S('S1', i) + S.F('closedR', i, j) + S.F('closedC', i, j)),
                ('score_n2_counts_blocks', Lc['score_n2'] == S.S('S2', i) + S.F('blk', i, j)),
                ('score_n3_unchanged', Lc['score_n3'] == S.S('S3', i)),
                ('dark_module_counter', Lc['dark_module_counter'] == S.S('D', i) + S.F('dk', i, j)),
                ('n3_column_holds_column_prefix', QForall(lambda t: s_implies(s_and(t >= 0, t < j), col.raw_abs(col.off + t) == mat.cell(t, i)), 'colprefix'))]

    def havoc_inner(ctx):
        st['col'].arr = z3.Array(fresh_name('col_hi'), z3.IntSort(), z3.IntSort())

    def pre_inner(ctx):
        j, i, n, mat = ctx.k, st['i'], st['n'], st['mat']
        sp().define_step(i, j)
        _range_bits(ctx.interp, mat, n, (i, j), (i, j - 1), (j, i), (j - 1, i), (i - 1, j), (i - 1, j - 1))

    def exit_inner(ctx):
        st['line_calls'] = 0

    # ---- while loop of n3_pattern_occurrences(seq)
    def line_of(seq):
        return 'C' if isinstance(seq, SMutSeq) else 'R'

    def inv_n3(ctx):
        Lc, S, i, n = ctx.L, sp(), st['i'], st['n']
        seq = Lc['seq']
        X = line_of(seq)
        idx, count = Lc['idx'], Lc['count']
        match = s_and(*[seq.raw_abs(seq.off + idx + t) == PAT[t] for t in range(7)])
        return [('count_is_score_of_occurrences_before_idx',
                 s_ite(idx == -1, count == S.F('cnt' + X, i, n), s_and(idx >= 0, idx + 7 <= n, match, count == S.F('cnt' + X, i, idx))))]

    def pre_n3(ctx):
        Lc, S, i, n = ctx.L, sp(), st['i'], st['n']
        X = line_of(Lc['seq'])
        idx = Lc['idx']
        for d in range(-4, 11):
            ctx.interp.add_index_term(idx + d)
        for d in range(4):
            ctx.interp.add_index_term(d)
            S.define_cnt(X, i, idx + d)

    def variant_n3(ctx):
        idx = ctx.L['idx']
        return s_ite(idx == -1, 0, st['n'] - idx + 1)

    def my_find(seq, sub, start=0):
        r = st['find0'](seq, sub, start)
        X = line_of(seq)
        for d in range(7):
            I.add_index_term(r + d)
        sp().lemma_no_occurrence(X, st['i'], start, s_ite(r == -1, st['n'], r))
        return r

    I.loopspecs[KEY_OUTER] = LoopSpec(inv_outer, havoc_outer, pre_body=pre_outer, on_exit=exit_outer)
    I.loopspecs[KEY_INNER] = LoopSpec(inv_inner, havoc_inner, pre_body=pre_inner, on_exit=exit_inner)
    I.loopspecs[KEY_N3] = LoopSpec(inv_n3, None, variant=variant_n3, pre_body=pre_n3)
    reached = []
    st0 = dict(find0=I.method_models[(SSeq, 'find')])
    import functools
    I.method_models[(SSeq, 'find')] = my_find
    I.method_models[(SMutSeq, 'find')] = my_find

    def thunk(I):
        st.clear()
        st.update(st0)
        n = I.fresh_int('size', 1, None)
        st['n'] = n
        mat = SMatrix('matrix', n, 0, 1)
        st['mat'] = mat
        st['spec'] = Spec(I, n, mat)
        I.inputs.update(size=n)
        # n3_column is created by the function; the contract needs a handle on it: bytearray(qr_size) is intercepted
        orig = I.native_models[bytearray]

        def m_bytearray(x=(), *a):
            v = orig(x, *a)
            if isinstance(v, SMutSeq):
                st['col'] = v
            return v
        I.native_models[bytearray] = m_bytearray
        try:
            return I.call_function(f, (mat, n, n), {})
        finally:
            I.native_models[bytearray] = orig

    def post(I, kind, val):
        if kind != 'return' and not isinstance(val, PathEnd):
            I.oblige('C06.mask_scores.no_exception_for_any_square_matrix', False, note=repr(val))
    I.replay_spec = dict(fn='replay_scores')
    try:
        I.explore(thunk, post)
    finally:
        I.method_models[(SSeq, 'find')] = st0['find0']
        I.method_models[(SMutSeq, 'find')] = st0['find0']
    I.ground('C06.mask_scores.cover.loop_exit_reached', bool(reached), kind='cover')
    task_lemma(I)


def _same_row(v, i, st):
    """last_row is None before the first row and row i-1 afterwards"""
    if v is None:
        return i == 0
    if isinstance(v, SSeq) and v.off == 0 and v.arr is not None:
        return s_and(i > 0, _arr_is_row(v, i - 1, st))
    return False


def _arr_is_row(v, r, st):
    want = z3.Select(st['mat'].M, _z(r))
    if v.arr.eq(want):
        return True
    # the same row through another index term: rows are equal if their indices are
    if v.arr.decl().kind() == z3.Z3_OP_SELECT and v.arr.arg(0).eq(st['mat'].M):
        return SInt(v.arr.arg(1)) == r
    return False


# ------------------------------------------------------------------ lemma by induction
def task_lemma(I):
    """no counted occurrence in [a, b) => cnt(b) == cnt(a), by induction on b"""
    for X in ('R', 'C'):
        def thunk(I):
            n = I.fresh_int('size', 1, None)
            mat = SMatrix('matrix', n, 0, 1)
            S = Spec(I, n, mat)
            i = I.fresh_int('i', 0, None)
            a = I.fresh_int('a', 0, None)
            b = I.fresh_int('b', 0, None)
            I.assume(a <= b)
            cell = S.cell(X, i)
            # hypothesis of the step: no counted occurrence in [a, b+1)
            I.assume(QForall(lambda k: s_implies(s_and(k >= a, k < b + 1), s_not(occ(cell, n, k))), 'hyp'))
            I.add_index_term(b)
            # induction hypothesis for (a, b)
            S.lemma_no_occurrence(X, i, a, b)
            S.define_cnt(X, i, b)
            return S, i, a, b

        def post(I, kind, val):
            S, i, a, b = val
            I.oblige('C06.lemma.no_occurrence_keeps_cnt.step', S.F('cnt' + X, i, b + 1) == S.F('cnt' + X, i, a), kind='lemma')
            I.oblige('C06.lemma.no_occurrence_keeps_cnt.base', S.F('cnt' + X, i, a) == S.F('cnt' + X, i, a), kind='lemma')
            I.ground('C06.lemma.cover.hypotheses_satisfiable', bool(I.feasible(z3.BoolVal(True))), kind='cover')
        I.explore(thunk, post)
