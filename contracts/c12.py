"""C12 - all output routes give the same document for the same symbol and options.

Deductive (forwarding lemmas, serialisers as uninterpreted effects F_kind(matrix, size, out, kw)):
writers.save dispatch by extension / kind (case-insensitively) with the SAME keyword
arguments, unknown extension -> ValueError; QRCode.save / svg_inline / svg_data_uri /
png_data_uri forward every option; QRCodeSequence.save names files stem-NN-MM.ext and
saves every symbol with the same options.
Bounded (labelled): byte comparison of the routes on real symbols and option sets: path
vs stream, svgz, data URIs, svg_inline, the command line tool vs the API, terminal.
"""
import io
import os
import random
from pyvc.runner import Task
from pyvc.values import Obj, TupObj, VBytearray
from . import kf

MOD = 'contracts.c12'
TRUSTED_BASE = ['pyvc interpreter for the forwarding lemmas (serialisers replaced by recording summaries)',
                'gzip / base64 / urllib.parse.unquote inverses (bounded clauses)']
ASSUMPTIONS = ['byte identity of the routes is BOUNDED: enumerated kinds x option sets x symbols; the command line route runs argparse natively']

KINDS = ('svg', 'png', 'eps', 'txt', 'pdf', 'ans', 'pbm', 'pam', 'ppm', 'xbm', 'xpm', 'tex')
TEXT = ('txt', 'ans', 'xbm', 'xpm', 'tex', 'eps')


def tasks(tier, seed):
    ts = [Task('save_dispatch', MOD, 'task_save_dispatch', (), fuc=['segno.writers.save', 'segno.QRCode.save']),
          Task('uri_and_inline_forwarding', MOD, 'task_uri_forwarding', (), fuc=['segno.QRCode.svg_inline', 'segno.QRCode.svg_data_uri', 'segno.QRCode.png_data_uri',
                                                                                  'segno.writers.as_svg_data_uri', 'segno.writers.as_png_data_uri']),
          Task('sequence_save', MOD, 'task_sequence_save', (), fuc=['segno.QRCodeSequence.save'])]
    for k in range(16 if tier == 'quick' else 64):
        ts.append(Task('bounded_routes[%d]' % k, MOD, 'task_bounded_routes', (seed + 1009 * (k // 8), k % 8), backend='bounded',
                       fuc=['segno.writers.save', 'segno.cli.main', 'segno.cli.build_config', 'segno.cli.make_code'], weight=30))
    return ts


def _recorders(I, seen):
    """every serialiser of writers._VALID_SERIALIZERS is replaced by a recorder (uninterpreted effect)"""
    from pyvc import extract
    w = extract.get_module('segno.writers').module
    by_fn = {}
    for ext, fn in w._VALID_SERIALIZERS.items():
        by_fn.setdefault(id(fn), (fn, []))[1].append(ext)

        def rec(I, f, args, kwargs, fn=fn):
            seen.append((fn, tuple(args), dict(kwargs)))
            return None
        I.native_summaries[(fn.__module__, fn.__qualname__)] = rec
    return w


def task_save_dispatch(I):
    import segno
    I.replay_spec = dict(fn='replay_routes', kind='svg')      # behavioural: every route gives the same bytes
    seen = []
    w = _recorders(I, seen)
    f = I.get_function('segno.writers', 'save')
    matrix, size = object(), object()
    opts = dict(scale=object(), border=object(), dark=object(), anything=object())
    for ext, fn in sorted(w._VALID_SERIALIZERS.items()):
        for spelled in (ext, ext.upper(), ext.capitalize()):
            # route 1: file name (a str); route 2: stream + kind; route 3: stream with a .name attribute
            class Stream:
                pass
            named = Stream()
            named.name = 'dir.v1/file.' + spelled
            for out, kind, label in (('some.dir/qr.' + spelled, None, 'name'), (Stream(), spelled, 'kind'), (named, None, 'stream.name')):
                del seen[:]
                res = {}
                I.explore(lambda I: I.call_function(f, (matrix, size, out), dict(opts, kind=kind)), lambda I, k, v: res.update(kind=k, val=v))
                ok = res.get('kind') == 'return' and len(seen) == 1 and seen[0][0] is fn and seen[0][1] == (matrix, size, out) and \
                    set(seen[0][2]) == set(opts) and all(seen[0][2][k] is opts[k] for k in opts)
                I.ground('C12.save.dispatch_by_%s_case_insensitive_same_options' % label.replace('.', '_'), ok,
                         witness=dict(ext=spelled, route=label, outcome=repr(res)[:100], calls=len(seen)), replay=dict(fn='replay_routes', kind=ext))
    # svgz (gzip compressed SVG): any spelling of the extension / kind opens a gzip stream on `out` and hands it to the SVG serialiser
    import gzip
    opened = []

    class GzStream:
        def __enter__(self):
            return self

        def __exit__(self, *a):
            opened[-1]['closed'] = True
            return False

    def m_gzip_open(target, mode='rb', compresslevel=9, **kw):
        g = GzStream()
        opened.append(dict(target=target, mode=mode, compresslevel=compresslevel, stream=g, closed=False))
        return g
    saved_gz = I.native_models.get(gzip.open)
    I.native_models[gzip.open] = m_gzip_open
    svg = w._VALID_SERIALIZERS['svg']
    for spelled in ('svgz', 'SVGZ', 'Svgz'):
        class Stream2:
            pass
        for out, kind, label, level in (('some.dir/qr.' + spelled, None, 'name', None), (Stream2(), spelled, 'kind', 3), ('plain-name', spelled, 'kind', None)):
            del seen[:]
            del opened[:]
            res = {}
            kw = dict(opts, kind=kind)
            if level is not None:
                kw['compresslevel'] = level
            I.explore(lambda I: I.call_function(f, (matrix, size, out), kw), lambda I, k, v: res.update(kind=k, val=v))
            ok = res.get('kind') == 'return' and len(seen) == 1 and len(opened) == 1 and seen[0][0] is svg and opened[0]['target'] is out and \
                opened[0]['mode'] == 'wb' and opened[0]['compresslevel'] == (9 if level is None else level) and opened[0]['closed'] and \
                seen[0][1] == (matrix, size, opened[0]['stream']) and set(seen[0][2]) == set(opts) and all(seen[0][2][k] is opts[k] for k in opts)
            I.ground('C12.save.svgz_by_%s_case_insensitive_is_gzip_of_the_svg_serialiser' % label, ok,
                     witness=dict(ext=spelled, route=label, outcome=repr(res)[:100], calls=len(seen), opened=len(opened)), replay=dict(fn='replay_routes', kind='svg'))
    if saved_gz is None:
        del I.native_models[gzip.open]
    else:
        I.native_models[gzip.open] = saved_gz
    for bad in ('qr.gif', 'qr', 'qr.', 'qr.svgx'):
        res = {}
        del seen[:]
        I.explore(lambda I: I.call_function(f, (matrix, size, bad), {}), lambda I, k, v: res.update(kind=k, val=v))
        I.ground('C12.save.unknown_extension_is_ValueError', res.get('kind') == 'raise' and isinstance(res['val'], ValueError) and not seen,
                 witness=dict(name=bad, outcome=repr(res)[:100]))
    # QRCode.save forwards to writers.save
    calls = []

    def s_save(I, clo, args, kwargs):
        calls.append((args, kwargs))
    I.summaries['segno.writers:save'] = s_save
    q = Obj(segno.QRCode)
    m, sz = object(), object()
    q.attrs.update(matrix=m, _matrix_size=sz, mask=0, _version=1, _error=0, _mode=None)
    g = I.lookup_class_attr(segno.QRCode, 'save')
    out, kind = object(), object()
    res = {}
    I.explore(lambda I: I.call_function(g, (q, out), dict(opts, kind=kind)), lambda I, k, v: res.update(kind=k, val=v))
    ok = res.get('kind') == 'return' and len(calls) == 1
    if ok:
        a, kw = calls[0]
        allargs = dict(kw)
        names = ['matrix', 'matrix_size', 'out', 'kind']
        for i, v in enumerate(a):
            allargs[names[i]] = v
        ok = allargs.get('matrix') is m and allargs.get('matrix_size') is sz and allargs.get('out') is out and allargs.get('kind') is kind and \
            all(allargs.get(k) is opts[k] for k in opts)
    I.ground('C12.QRCode_save.forwards_matrix_size_out_kind_and_options', ok, witness=repr(calls)[:200], kind='sufficient')
    del I.summaries['segno.writers:save']


def task_uri_forwarding(I):
    I.replay_spec = dict(fn='replay_routes', kind='svg')
    import segno
    from pyvc import extract
    w = extract.get_module('segno.writers').module
    seen = []

    def rec(name):
        def r(I, f, args, kwargs):
            seen.append((name, tuple(args), dict(kwargs)))
            if name == 'write_svg':
                return None
            return None
        return r
    I.native_summaries[('segno.writers', 'write_svg')] = rec('write_svg')
    I.native_summaries[('segno.writers', 'write_png')] = rec('write_png')
    # as_svg_data_uri / as_png_data_uri: every serialiser option is forwarded under its own name
    f = I.get_function('segno.writers', 'as_svg_data_uri')
    names = [a.arg for a in f.node.args.args][2:]
    svg_only = [n for n in names if n not in ('encode_minimal', 'omit_charset')]
    toks = {n: ('<%s>' % n) for n in svg_only}
    toks['encoding'] = 'utf-8'
    toks['extra_colour'] = '<extra>'
    m, sz = object(), object()
    res = {}
    I.explore(lambda I: I.call_function(f, (m, sz), dict(toks)), lambda I, k, v: res.update(kind=k, val=v))
    call = [c for c in seen if c[0] == 'write_svg']
    ok = len(call) == 1 and call[0][1][:2] == (m, sz)
    I.ground('C12.as_svg_data_uri.calls_write_svg_once_on_the_matrix', ok, witness=repr(res)[:120], kind='sufficient')
    if ok:
        kw = call[0][2]
        for n in toks:
            I.ground('C12.as_svg_data_uri.forwards_%s' % n, kw.get(n) is toks[n] or kw.get(n) == toks[n], witness=dict(option=n, got=repr(kw.get(n))),
                     replay=dict(fn='replay_routes', kind='svg'))
    del seen[:]
    f = I.get_function('segno.writers', 'as_png_data_uri')
    toks = dict(scale='<scale>', border='<border>', compresslevel='<compresslevel>', dark='<dark>', dpi='<dpi>')
    res = {}
    I.explore(lambda I: I.call_function(f, (m, sz), dict(toks)), lambda I, k, v: res.update(kind=k, val=v))
    call = [c for c in seen if c[0] == 'write_png']
    ok = len(call) == 1 and call[0][1][:2] == (m, sz)
    I.ground('C12.as_png_data_uri.calls_write_png_once_on_the_matrix', ok, witness=repr(res)[:120], kind='sufficient')
    if ok:
        for n in toks:
            I.ground('C12.as_png_data_uri.forwards_%s' % n, call[0][2].get(n) == toks[n], witness=dict(option=n, got=repr(call[0][2].get(n))), kind='sufficient')
    # QRCode.svg_inline / svg_data_uri / png_data_uri
    calls = []

    def s_uri(name):
        def s(I, clo, args, kwargs):
            calls.append((name, args, kwargs))
            return 'URI'
        return s
    I.summaries['segno.writers:as_svg_data_uri'] = s_uri('svg')
    I.summaries['segno.writers:as_png_data_uri'] = s_uri('png')
    q = Obj(segno.QRCode)
    q.attrs.update(matrix=m, _matrix_size=sz, mask=0, _version=1, _error=0, _mode=None)
    for meth, want in (('svg_data_uri', 'svg'), ('png_data_uri', 'png')):
        del calls[:]
        g = I.lookup_class_attr(segno.QRCode, meth)
        opts = dict(scale='<s>', dark='<d>', title='<t>') if want == 'svg' else dict(scale='<s>', dark='<d>')
        res = {}
        I.explore(lambda I: I.call_function(g, (q,), dict(opts)), lambda I, k, v: res.update(kind=k, val=v))
        ok = len(calls) == 1 and calls[0][0] == want and calls[0][1][:2] == (m, sz) and all(calls[0][2].get(k) == v for k, v in opts.items())
        I.ground('C12.QRCode_%s.forwards_matrix_and_options' % meth, ok, witness=repr(calls)[:200], kind='sufficient')
    # svg_inline == SVG without XML declaration, namespace and newline, everything else forwarded
    saves = []

    def s_qsave(I, clo, args, kwargs):
        saves.append((args, kwargs))
        return None
    I.summaries['segno:QRCode.save'] = s_qsave
    g = I.lookup_class_attr(segno.QRCode, 'svg_inline')
    opts = dict(scale='<s>', dark='<d>', title='<t>')
    res = {}
    I.explore(lambda I: I.call_function(g, (q,), dict(opts)), lambda I, k, v: res.update(kind=k, val=v))
    ok = len(saves) == 1
    if ok:
        kw = saves[0][1]
        ok = kw.get('kind') == 'svg' and kw.get('xmldecl') is False and kw.get('svgns') is False and kw.get('nl') is False and all(kw.get(k) == v for k, v in opts.items())
    I.ground('C12.svg_inline.is_svg_without_xmldecl_namespace_newline_options_forwarded', ok, witness=repr(saves)[:200], kind='sufficient')
    del I.summaries['segno:QRCode.save']


def task_sequence_save(I):
    import segno
    saves = []

    def s_qsave(I, clo, args, kwargs):
        b = I.bind_args(clo, args, kwargs)
        saves.append(b)
        return None
    I.summaries['segno:QRCode.save'] = s_qsave
    g = I.lookup_class_attr(segno.QRCodeSequence, 'save')
    for n in (1, 2, 3, 12, 16):
        qs = []
        for i in range(n):
            q = Obj(segno.QRCode)
            q.attrs.update(matrix=object(), _matrix_size=(21, 21), mask=0, _version=1, _error=0, _mode=None)
            qs.append(q)
        seq = TupObj(segno.QRCodeSequence, qs)
        for out in ('dir.x/name.svg', 'name.PNG', 'noext'):
            del saves[:]
            opts = dict(scale='<s>', dark='<d>')
            kind = None if '.' in out.split('/')[-1] else 'png'
            res = {}
            I.explore(lambda I: I.call_function(g, (seq, out), dict(opts, kind=kind)), lambda I, k, v: res.update(kind=k, val=v))
            stem, dot, ext = out.rpartition('.')
            if n > 1 and dot:
                want = ['%s-%02d-%02d.%s' % (stem, n, i, ext) for i in range(1, n + 1)]
            else:
                want = [out] * n
            ok = res.get('kind') == 'return' and [b['out'] for b in saves] == want and [b['self'] for b in saves] == qs and \
                all(b['kind'] is kind and b['kw'] == opts for b in saves)
            I.ground('C12.sequence_save.files_stem_NN_MM_ext_each_symbol_same_options', ok, witness=dict(n=n, out=out, got=[b['out'] for b in saves][:3]),
                     replay=dict(fn='replay_routes', kind='seq'))
    del I.summaries['segno:QRCode.save']


# ------------------------------------------------------------------ bounded: byte comparison of the routes
OPTION_SETS = {
    'svg': [{}, dict(scale=3, border=1, dark='darkblue', light='#eee'), dict(title='T<&>', desc='D', svgid='i', svgclass='c', lineclass='l'),
            dict(xmldecl=False, svgns=False, nl=False, omitsize=True), dict(unit='mm', scale=2.5), dict(svgversion=1.1, encoding='iso-8859-1', title='Größe')],
    'png': [{}, dict(scale=4, border=0, dark='#00f', light=None), dict(dpi=300, compresslevel=1), dict(finder_dark='red', data_dark='green', scale=2)],
    'eps': [{}, dict(scale=2, border=1, dark='red', light='yellow')], 'pdf': [{}, dict(scale=2.5, border=0, dark='navy', light='#eee')],
    'txt': [{}, dict(border=1)], 'ans': [{}, dict(border=0)], 'pbm': [{}, dict(scale=3, plain=True)], 'pam': [{}, dict(scale=2, dark='blue', light=None)],
    'ppm': [{}, dict(scale=2, dark='blue', light='yellow')], 'xbm': [{}, dict(scale=2, name='qr')], 'xpm': [{}, dict(scale=2, dark='blue', light=None)],
    'tex': [{}, dict(scale=2, dark='blue', unit='mm', url='http://example.org/')],
}
CLI_FLAGS = {'scale': '--scale', 'border': '--border', 'dark': '--dark', 'light': '--light', 'title': '--title', 'desc': '--desc', 'svgid': '--svgid',
             'svgclass': '--svgclass', 'lineclass': '--lineclass', 'unit': '--unit', 'svgversion': '--svgversion', 'dpi': '--dpi',
             'finder_dark': '--finder-dark', 'data_dark': '--data-dark', 'encoding': '--svgencoding'}
CLI_SWITCH = {('xmldecl', False): '--no-xmldecl', ('svgns', False): '--no-namespace', ('nl', False): '--no-newline', ('omitsize', True): '--no-size'}


def _mask_time(kind, data):
    import re
    if kind == 'pdf':
        return re.sub(rb'/CreationDate\(D:[^)]*\)', b'/CreationDate(D:X)', data)
    if kind == 'eps':
        return re.sub(r'%%CreationDate: [^\n]*', '%%CreationDate: X', data)
    if kind == 'tex':
        return re.sub(r'% Date:[^\n]*', '% Date: X', data)
    return data


def task_bounded_routes(I, seed, k):
    import base64
    import gzip
    import shutil
    import tempfile
    import contextlib
    from urllib.parse import unquote_to_bytes
    import segno
    from segno import cli
    rnd = random.Random(seed * 53 + k)
    tmp = tempfile.mkdtemp(prefix='c12r')
    contents = [('Hello', dict(micro=False)), ('12345', dict(micro=True)), ('segno C12 ' * 5, dict(micro=False, error='q')), ('äöü', dict(micro=False))]
    done = 0
    try:
        for kind in KINDS[k % 4::4] if k < 4 else KINDS[(k - 4) % 4::4]:
            for oi, opts in enumerate(OPTION_SETS[kind]):
                content, mk = contents[(k + oi + done) % len(contents)]
                qr = segno.make(content, **mk)
                done += 1
                rp = dict(fn='replay_routes', kind=kind, opts=repr(opts), content=content, mk=repr(mk))
                wit = dict(kind=kind, opts=opts, content=content)
                # stream route
                out = io.StringIO() if kind in TEXT else io.BytesIO()
                qr.save(out, kind=kind, **opts)
                ref = _mask_time(kind, out.getvalue())
                # path route, extension in random letter case
                ext = ''.join(rnd.choice((c.upper(), c.lower())) for c in kind)
                path = os.path.join(tmp, 'r%d.%s' % (done, ext))
                qr.save(path, **opts)
                with open(path, 'r' if kind in TEXT else 'rb', **({'encoding': opts.get('encoding', 'utf-8'), 'newline': ''} if kind in TEXT else {})) as fh:
                    got = _mask_time(kind, fh.read())
                I.ground('C12.bounded.path_route_equals_stream_route', got == ref, witness=wit, kind='bounded', replay=rp)
                if kind == 'svg':
                    zpath = os.path.join(tmp, 'r%d.svgz' % done)
                    qr.save(zpath, **opts)
                    with gzip.open(zpath, 'rb') as fh:
                        I.ground('C12.bounded.svgz_is_gzipped_svg', fh.read() == ref, witness=wit, kind='bounded', replay=rp)
                    inline_opts = {kk: vv for kk, vv in opts.items() if kk not in ('xmldecl', 'svgns', 'nl')}
                    o2 = io.BytesIO()
                    qr.save(o2, kind='svg', xmldecl=False, svgns=False, nl=False, **inline_opts)
                    enc = opts.get('encoding', 'utf-8')
                    I.ground('C12.bounded.svg_inline_is_svg_without_xmldecl_namespace_newline', qr.svg_inline(**inline_opts) == o2.getvalue().decode(enc),
                             witness=wit, kind='bounded', replay=rp)
                    uri_opts = {kk: vv for kk, vv in opts.items() if kk not in ('xmldecl', 'nl')}
                    o3 = io.BytesIO()
                    qr.save(o3, kind='svg', xmldecl=False, nl=False, **uri_opts)
                    for minimal in (False, True):
                        uri = qr.svg_data_uri(encode_minimal=minimal, **uri_opts)
                        head, _, body = uri.partition(',')
                        dec = unquote_to_bytes(body)
                        same = dec == o3.getvalue()
                        if not same and kf.active('F-C12-svg-data-uri-quotes') and dec.replace(b"'", b'"') == o3.getvalue().replace(b"'", b'"'):
                            I.ground_pass('C12.bounded.svg_data_uri_equals_svg_or_pinned_quote_style', 1, kind='bounded')
                            from .c08 import _probe
                            _probe(I, 'F-C12-svg-data-uri-quotes')
                        else:
                            I.ground('C12.bounded.svg_data_uri_decodes_to_the_svg_document', same and head == 'data:image/svg+xml;charset=' + enc,
                                     witness=dict(wit, minimal=minimal, head=head), kind='bounded', replay=rp)
                if kind == 'png':
                    uri = qr.png_data_uri(**opts)
                    I.ground('C12.bounded.png_data_uri_decodes_to_the_png_file', uri.startswith('data:image/png;base64,') and base64.b64decode(uri.split(',', 1)[1]) == ref,
                             witness=wit, kind='bounded', replay=rp)
                # command line route
                argv = []
                cli_ok = True
                for kk, vv in opts.items():
                    if (kk, vv) in CLI_SWITCH:
                        argv.append(CLI_SWITCH[(kk, vv)])
                    elif kk in CLI_FLAGS:
                        argv += [CLI_FLAGS[kk], 'transparent' if vv is None else str(vv)]
                    else:
                        cli_ok = False
                if cli_ok:
                    cpath = os.path.join(tmp, 'c%d.%s' % (done, ext if oi % 2 else kind))       # extension in mixed letter case every other case
                    argv += ['--micro' if mk.get('micro') else '--no-micro'] + (['--error', mk['error']] if 'error' in mk else []) + ['-o', cpath, content]
                    try:
                        rc = cli.main(argv)
                    except SystemExit as se:
                        rc = se.code
                    if rc != 0 or not os.path.exists(cpath):
                        I.ground('C12.bounded.cli_writes_the_requested_file', False, witness=dict(wit, argv=argv, rc=rc), kind='bounded', replay=rp)
                    else:
                        with open(cpath, 'r' if kind in TEXT else 'rb', **({'encoding': opts.get('encoding', 'utf-8'), 'newline': ''} if kind in TEXT else {})) as fh:
                            cgot = _mask_time(kind, fh.read())
                        I.ground('C12.bounded.cli_file_equals_api_file', cgot == ref, witness=dict(wit, argv=argv), kind='bounded', replay=rp)
        # terminal route
        for content, mk in contents[:2]:
            qr = segno.make(content, **mk)
            for compact in (False, True):
                exp = io.StringIO()
                qr.terminal(out=exp, compact=compact)
                buf = io.StringIO()
                with contextlib.redirect_stdout(buf):
                    try:
                        cli.main((['--compact'] if compact else []) + ['--micro' if mk.get('micro') else '--no-micro', content])
                    except SystemExit:
                        pass
                I.ground('C12.bounded.cli_without_output_prints_terminal', buf.getvalue() == exp.getvalue(), witness=dict(content=content, compact=compact), kind='bounded',
                         replay=dict(fn='replay_routes', kind='terminal'))
        # sequence files
        if k == 0:
            seq = segno.make_sequence('A' * 60, version=1)
            for kind in ('png', 'svg', 'txt'):
                base = os.path.join(tmp, 'seq.' + kind)
                seq.save(base, scale=2) if kind != 'txt' else seq.save(base)
                n = len(seq)
                names = sorted(x for x in os.listdir(tmp) if x.startswith('seq-') and x.endswith('.' + kind))
                want = ['seq-%02d-%02d.%s' % (n, i, kind) for i in range(1, n + 1)]
                ok = names == want
                if ok:
                    for i, q in enumerate(seq, 1):
                        o = io.StringIO() if kind in TEXT else io.BytesIO()
                        q.save(o, kind=kind, scale=2) if kind != 'txt' else q.save(o, kind=kind)
                        with open(os.path.join(tmp, want[i - 1]), 'r' if kind in TEXT else 'rb') as fh:
                            ok = ok and fh.read() == o.getvalue()
                I.ground('C12.bounded.sequence_files_named_and_equal_to_symbol_outputs', ok, witness=dict(kind=kind, names=names[:3]), kind='bounded', replay=dict(fn='replay_routes', kind='seq'))
            try:
                seq.save(os.path.join(tmp, 'seq.unknown'))
                I.ground('C12.bounded.unknown_extension_is_ValueError', False, witness='accepted', kind='bounded')
            except ValueError:
                I.ground_pass('C12.bounded.unknown_extension_is_ValueError', 1, kind='bounded')
    finally:
        shutil.rmtree(tmp, ignore_errors=True)
    I.samples = [dict(bounded='output routes compared byte by byte', cases=done)]
