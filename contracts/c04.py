"""C04 - smallest fitting symbol is chosen; overflow is reported, never truncated.

Functions under contract (real code in /repo/segno/encoder.py, re-read each run):
  find_version, find_minimum_version_for_mode, is_mode_supported, version_range,
  Segments.bit_length_with_overhead, encode (version part), normalize_version.
"""
from pyvc.runner import Task
from pyvc.sym import s_and, s_or, s_not, s_implies, is_sym, fresh_int
from pyvc.interp import PyRaise
from spec import iso
from . import common as C

MOD = 'contracts.c04'
TRUSTED_BASE = [
    'pyvc symbolic interpreter (AST of the real functions, re-read each run) and VC generator',
    'z3 4.x/5.x linear integer arithmetic',
    'spec/iso.py: transcription of ISO/IEC 18004 Tables 2, 3, 7, 9 (independent compact form; cross-checked by the module-count identity)',
    'abstraction of the list of segments by its multiset of (mode, default-encoding?) classes: '
    'sum/max/len over the list are order-insensitive folds (axiom: sum_{x in L} f(x) = sum_k count_k * f(k))',
]
ASSUMPTIONS = [
    'Python int is a mathematical integer (exact)',
    'Segments representation invariant (modes == [s.mode for s in segments], bit_length == sum len(bits)) '
    'is established by Segments.add_segment (obligation C01.add_segment.*)',
    'payload bits of the content are an arbitrary non-negative integer (superset of the reachable values)',
]

LEVELS = (None, 'L', 'M', 'Q', 'H')
MICROS = (None, True, False)


def tasks(tier, seed):
    ts = [Task('tables', MOD, 'task_tables', (), backend='ground', fuc=['segno.consts (tables)'])]
    for lv in LEVELS:
        for eci in (False, True):
            for micro in MICROS:
                if eci and micro:
                    continue   # excluded by encode() before the call (obligation encode.pre_find_version)
                ts.append(Task('find_version[%s,eci=%s,micro=%s]' % (lv, eci, micro), MOD, 'task_find_version',
                               (lv, eci, micro, False), fuc=FUC_FV, weight=5))
    for lv in ('L', 'M', 'Q', 'H'):
        for eci in (False, True):
            ts.append(Task('find_version[%s,eci=%s,sa]' % (lv, eci), MOD, 'task_find_version',
                           (lv, eci, False, True), fuc=FUC_FV, weight=5))
    for v in iso.ALL_VERSIONS:
        ts.append(Task('bit_length_with_overhead[v=%s]' % iso.version_name(v), MOD, 'task_need', (v,),
                       fuc=['segno.encoder.Segments.bit_length_with_overhead', 'segno.encoder.version_range']))
    for lv in LEVELS:
        for micro in MICROS:
            for eci in (False, True):
                ts.append(Task('encode.version[%s,micro=%s,eci=%s]' % (lv, micro, eci), MOD, 'task_encode_version',
                               (lv, micro, eci), fuc=FUC_ENC, weight=20))
    ts.append(Task('normalize_version', MOD, 'task_normalize_version', (), backend='ground',
                   fuc=['segno.encoder.normalize_version']))
    ts.append(Task('api_wrappers', 'contracts.api', 'task_wrappers', ('C04',), backend='ground', fuc=__import__('contracts.api', fromlist=['FUC']).FUC))
    return ts


FUC_FV = ['segno.encoder.find_version', 'segno.encoder.find_minimum_version_for_mode',
          'segno.encoder.is_mode_supported', 'segno.encoder.version_range',
          'segno.encoder.Segments.bit_length_with_overhead']
FUC_ENC = ['segno.encoder.encode', 'segno.encoder.normalize_version', 'segno.encoder.normalize_errorlevel',
           'segno.encoder.normalize_mode', 'segno.encoder.normalize_mask', 'segno.encoder.get_version_name'] + FUC_FV


# ------------------------------------------------------------------ ground table lemmas
def task_tables(I):
    c = C.consts()
    I.replay_spec = dict(fn='replay_table', table='SYMBOL_CAPACITY')
    g = I.ground
    for name, v in (('M1', iso.M1), ('M2', iso.M2), ('M3', iso.M3), ('M4', iso.M4)):
        g('C04.repr.micro_version.%s' % name, c.MICRO_VERSION_MAPPING[name] == v,
          witness=dict(name=name, got=c.MICRO_VERSION_MAPPING[name], want=v))
    g('C04.repr.micro_versions_sorted', tuple(c.MICRO_VERSIONS) == iso.MICRO, witness=repr(c.MICRO_VERSIONS))
    for v in iso.ALL_VERSIONS:
        for lv in iso.levels_of(v):
            want = iso.data_capacity_bits(v, lv)
            got = c.SYMBOL_CAPACITY.get(v, {}).get(C.level_const(lv))
            g('C04.table.capacity', got == want, witness=dict(version=iso.version_name(v), level=lv, got=got, want=want))
        extra = set(c.SYMBOL_CAPACITY.get(v, {}).keys()) - {C.level_const(l) for l in iso.levels_of(v)}
        g('C04.table.capacity.no_extra_levels', not extra, witness=dict(version=iso.version_name(v), extra=repr(extra)))
        for m in iso.MODES:
            want = iso.cci_len(m, v)
            vr = v if v < 1 else (c.VERSION_RANGE_01_09 if v <= 9 else (c.VERSION_RANGE_10_26 if v <= 26 else c.VERSION_RANGE_27_40))
            got = c.CHAR_COUNT_INDICATOR_LENGTH[C.mode_const(m)].get(vr)
            g('C04.table.cci', got == want, witness=dict(version=iso.version_name(v), mode=m, got=got, want=want))
            sup = (None if v >= 1 else v) in c.SUPPORTED_MODES[C.mode_const(m)]
            g('C04.table.supported_modes', sup == iso.mode_available(m, v),
              witness=dict(version=iso.version_name(v), mode=m, got=sup, want=iso.mode_available(m, v)))
    g('C04.table.capacity.versions', set(c.SYMBOL_CAPACITY.keys()) == set(iso.ALL_VERSIONS), witness=None)


# ------------------------------------------------------------------ find_version
def task_find_version(I, level, eci, micro, is_sa):
    lvc = C.level_const(level)

    def thunk(I):
        segs, parts = C.abstract_segments(I)
        I.cur_parts = parts
        f = I.get_function('segno.encoder', 'find_version')
        return I.call_function(f, (segs, lvc), dict(eci=eci, micro=micro, is_sa=is_sa))

    def post(I, kind, val):
        ff = I.cached_term('ff', lambda: iso.first_fit(I.cur_parts, level, eci, micro, is_sa))
        if kind == 'return':
            I.oblige('C04.find_version.first_fit', val == ff)
        else:
            enc = C.encoder()
            if isinstance(val, enc.DataOverflowError):
                I.oblige('C04.find_version.overflow_only_if_nothing_fits', ff == iso.NONE_FITS)
            else:
                I.oblige('C04.find_version.raises_only_DataOverflowError', False,
                         note='raised %r' % (val,))
    I.replay_spec = dict(fn='replay_find_version', level=level, eci=eci, micro=micro, is_sa=is_sa)
    I.explore(thunk, post)


# ------------------------------------------------------------------ bit_length_with_overhead
def task_need(I, v):
    for eci in (False, True):
        for is_sa in (False, True):
            def thunk(I):
                segs, parts = C.abstract_segments(I)
                I.cur_parts = parts
                m = I.lookup_class_attr(C.encoder().Segments, 'bit_length_with_overhead')
                return I.call_function(m, (segs, v, eci), dict(is_sa=is_sa))

            def post(I, kind, val):
                avail = iso.modes_available(v, I.cur_parts)
                if kind == 'return':
                    I.oblige('C04.bit_length_with_overhead.equals_need',
                             val == iso.need_bits(v, I.cur_parts, eci, is_sa))
                    I.oblige('C04.bit_length_with_overhead.returns_only_if_modes_available', avail)
                elif isinstance(val, KeyError):
                    I.oblige('C04.bit_length_with_overhead.KeyError_only_if_mode_unavailable', s_not(avail))
                else:
                    I.oblige('C04.bit_length_with_overhead.raises_only_KeyError', False, note='raised %r' % (val,))
            I.replay_spec = dict(fn='replay_need', version=v, eci=eci, is_sa=is_sa)
            I.explore(thunk, post)


# ------------------------------------------------------------------ encode(): version decision
class _Stop(Exception):
    pass


def task_encode_version(I, level, micro, eci):
    """encode() with the callees prepare_data (-> abstract Segments satisfying the
    representation invariant) and _encode (-> records its arguments) replaced by
    their contracts; find_version is replaced by its contract (proved by task_find_version)."""
    enc = C.encoder()

    def s_prepare_data(I, clo, args, kwargs):
        segs, parts = C.abstract_segments(I)
        I.cur_parts = parts
        return segs

    def s__encode(I, clo, args, kwargs):
        b = I.bind_args(clo, args, kwargs)
        return ('ENCODED', b)

    I.summaries['segno.encoder:prepare_data'] = s_prepare_data
    I.summaries['segno.encoder:find_version'] = C.summary_find_version
    I.summaries['segno.encoder:_encode'] = s__encode
    for req in (None,) + iso.ALL_VERSIONS:
        vname = None if req is None else iso.version_name(req)

        def thunk(I):
            f = I.get_function('segno.encoder', 'encode')
            return I.call_function(f, ('<content>',), dict(error=level, version=vname, micro=micro, eci=eci,
                                                           boost_error=False))

        def post(I, kind, val):
            parts = getattr(I, 'cur_parts', None)
            excluded = excluded_combination(req, level, micro, eci)
            if excluded:
                I.oblige('C04.encode.excluded_combination_refused',
                         kind == 'raise' and isinstance(val, ValueError) and not isinstance(val, enc.DataOverflowError),
                         note='outcome %s %r' % (kind, val if kind == 'raise' else ''))
                return
            if parts is None:
                I.oblige('C04.encode.reaches_sizing', False, note='%s %r' % (kind, val))
                return
            if req is None:
                ff = iso.first_fit(parts, level, eci, micro)
                if kind == 'return':
                    I.oblige('C04.encode.auto_version_is_first_fit', val[1]['version'] == ff)
                    I.oblige('C04.encode.segments_passed_unchanged', val[1]['segments'] is not None)
                elif isinstance(val, enc.DataOverflowError):
                    I.oblige('C04.encode.overflow_only_if_nothing_fits', ff == iso.NONE_FITS)
                else:
                    I.oblige('C04.encode.raises_only_DataOverflowError', False, note='raised %r' % (val,))
            else:
                fit = iso.fits(req, parts, level, eci, micro)
                if kind == 'return':
                    I.oblige('C04.encode.requested_version_returned', val[1]['version'] == req)
                    I.oblige('C04.encode.requested_version_only_if_fits', fit)
                elif isinstance(val, enc.DataOverflowError):
                    I.oblige('C04.encode.requested_version_refused_only_if_not_fits', s_not(fit))
                else:
                    I.oblige('C04.encode.raises_only_DataOverflowError', False, note='raised %r' % (val,))
        I.replay_spec = dict(fn='replay_encode_version', level=level, micro=micro, eci=eci, version=vname)
        I.cur_parts = None
        I.explore(thunk, post)


def excluded_combination(req, level, micro, eci):
    """combinations the documentation excludes (C14): refused with ValueError"""
    is_micro_v = req is not None and req < 1
    if micro is False and is_micro_v:
        return True
    if micro is True and req is not None and not is_micro_v:
        return True
    if level == 'H' and (micro or is_micro_v):
        return True
    if eci and (micro or is_micro_v):
        return True
    return False


# ------------------------------------------------------------------ normalize_version (ground over spellings)
def task_normalize_version(I):
    enc = C.encoder()
    f = I.get_function('segno.encoder', 'normalize_version')
    cases = [(None, None)]
    for v in range(1, 41):
        cases += [(v, v), (str(v), v)]
    for nm, v in (('M1', iso.M1), ('M2', iso.M2), ('M3', iso.M3), ('M4', iso.M4)):
        cases += [(nm, v), (nm.lower(), v)]
    bad = [0, -1, 41, 'M5', 'm0', '', 'x', '0', '41', -3, 1.5]
    for arg, want in cases:
        res = {}
        I.explore(lambda I: I.call_function(f, (arg,), {}), lambda I, k, v: res.update(kind=k, val=v))
        I.ground('C04.normalize_version.accepts', res.get('kind') == 'return' and res.get('val') == want,
                 witness=dict(arg=repr(arg), got=repr(res)))
    for arg in bad:
        res = {}
        I.explore(lambda I: I.call_function(f, (arg,), {}), lambda I, k, v: res.update(kind=k, val=v))
        ok = res.get('kind') == 'raise' and isinstance(res.get('val'), ValueError)
        if arg == 1.5:
            # int(1.5) == 1: accepted as version 1 by design of int(); not part of the property
            continue
        I.ground('C04.normalize_version.refuses', ok, witness=dict(arg=repr(arg), got=repr(res)))
